"""C20: a path means the same file to a step and to the director."""
from __future__ import annotations

import contextlib
import os
import io
import posixpath
import tempfile

from . import c20_exec, common
from .common import coq_bool, coq_option, coq_str
from .wfutil import WF

PID = "C20"
PROPS_FILE = "props/C20.v"
MODEL_TARGETS = ["model/PathModel.vo"]
RULE = ("E1: generated strings (components a,b,c,ab,x.txt,'..','.','', '...', e-acute; prefixes '', '/', '//', '///', './'; "
        "optional trailing '/'; plus the fixed list '', '.', '//x', '///x', 'a/../..', ...) through posixpath.normpath/"
        "join/isabs/relpath, str.split, path.Path.relpath/absolute versus lib/PosixPath.v; (cwd, STEPUP_ROOT, HERE, "
        "workdir, path) tuples through the real translate / translate_back / get_affixes / apply_affixes / "
        "api._keep_affixes with os.environ and os.getcwd patched inside the harness process (environment variables "
        "set, or unset so that the defaults of path.py are used) versus the Gallina generated from the same source; "
        "the ROOT / HERE that the REAL Executor._run_command hands to a recording launch_command (harness/c20_exec.py: "
        "real Executor instance, stub step/db/reporter/workflow, os.getcwd = root; no process started) versus exec_ROOT "
        "/ exec_HERE and versus the translated expressions evaluated from their text; "
        "translate in a real temporary tree (chdir into the step directory, os.path.realpath of the original and of "
        "root/translated). Oracle: on the implementation alone, lexical resolution of the translated path from the "
        "root equals that of the original from root/HERE/workdir; result normalised; translate_back likewise; "
        "round trip; fixpoint; affix preservation with the raising cases predicted; ROOT/HERE resolve to root and "
        "step directory, both for the translated expressions and for the values the real _run_command produced, whose "
        "recorded cwd must be the step directory ((root, stored workdir) pairs: fixed list with nested, '.', sibling "
        "'../shared', '../../x/y', absolute '/egg', the translate_external layout, root '/'; generated 10% '.', 25% "
        "nested, 30% leading '..', 15% absolute, 20% normalised random). A case is non-trivial when the path or the working directory contains '..', '.', a "
        "repeated or trailing slash or a leading './', or HERE is not '.'; distinct by the full tuple.")
TRUSTED_BASE = [
    "Coq 8.16.1 kernel (vm_compute in Examples, in the two refutation witnesses and in the correspondence evaluation)",
    "Print Assumptions: Closed under the global context for every C20 theorem (no axioms)",
    "translator/gen_path.py: the whitelisted Python-AST-to-Gallina mapping listed in its docstring "
    "(Path/coerce_* are the identity on str; a/b is posixpath.join; .relpath/.absolute are the path-library "
    "methods modelled by plib_relpath/abspath)",
    "lib/PosixPath.v definitions of split/join/normpath/abspath/relpath (validated against CPython's posixpath and "
    "the installed `path` library by E1 on every run; not proved equal to the C implementation)",
    "harness/p_c20.py (Gallina literal printer, patching of os.environ/os.getcwd, case generators)",
    "harness/c20_exec.py (stubs around the real Executor._run_command; launch_command replaced by a recorder; "
    "it checks on every case that Path.cwd() honours the patched os.getcwd)",
    "no extraction is used: the model is evaluated inside Coq by vm_compute",
]
ASSUMPTIONS = [
    "lexical path resolution: no symbolic links on the paths involved (resolve = normpath(join(dir, p)))",
    "path arguments are str or path.Path (os.fspath is the identity on them); no NUL characters",
    "os.getcwd() returns an absolute normalised path; the director exports STEPUP_ROOT = str(Path.cwd()) and "
    "launches a step with cwd=workdir (both facts are checked from the source by the translator)",
    "POSIX platform (posixpath); the `path` library's relpathto/splitall as installed in /venv",
]

COMPS = ["a", "b", "c", "ab", "x.txt", "..", ".", "", "...", "é", "..", "a"]
NAMES = ["a", "b", "c", "ab", "proj", "r", "é"]
FIXED = ["", ".", "..", "/", "//", "///", "//x", "///x", "a/../..", "/..", "//..", "/../a", "a//b", "./a", "a/.",
         "./", "./.", "././", ".//", "/.", "/./", "a/", "./a/", "../a/", "./../a", "a/b/../../..", "x/", "/a/b/", ".a", "..a",
         "a/..", "//a/..", "/a/../..", "./..", ".../x", "a/./b/", "./a/../"]


def generate(ctx):
    from translator import gen_path
    text, facts = gen_path.generate()
    ctx.write_gen("GenPath.v", text)
    ctx.facts = facts
    ctx.stats["translated_functions"] = sorted(facts["functions"])
    ctx.stats["call_sites"] = len(facts["sites"])


# ---------------------------------------------------------------------------------------------
# generators
# ---------------------------------------------------------------------------------------------


def rand_path(rng, maxlen=5):
    if rng.random() < 0.12:
        return rng.choice(FIXED)
    n = rng.randint(0, maxlen)
    s = "/".join(rng.choice(COMPS) for _ in range(n))
    r = rng.random()
    if r < 0.15:
        s = "/" + s
    elif r < 0.20:
        s = "//" + s
    elif r < 0.23:
        s = "///" + s
    elif r < 0.35:
        s = "./" + s
    if rng.random() < 0.2:
        s += "/"
    return s


def rand_rel_path(rng, maxlen=4):
    while True:
        s = rand_path(rng, maxlen)
        if not s.startswith("/"):
            return s


def rand_root(rng):
    r = rng.random()
    if r < 0.06:
        return "/"
    if r < 0.12:
        return "//" + "/".join(rng.choice(NAMES) for _ in range(rng.randint(1, 2)))
    return "/" + "/".join(rng.choice(NAMES) for _ in range(rng.randint(1, 3)))


def rand_here(rng):
    r = rng.random()
    if r < 0.2:
        return "."
    if r < 0.85:
        up = rng.choice([0, 0, 0, 1, 2, 3])
        parts = [".."] * up + [rng.choice(NAMES) for _ in range(rng.randint(0 if up else 1, 2))]
        return "/".join(parts) or "."
    return rand_path(rng, 3)  # unnormalised / absolute / empty: outside what the executor produces


def rand_workdir(rng):
    r = rng.random()
    if r < 0.3:
        return "."
    if r < 0.4:
        return "./"
    if r < 0.55:
        return "/" + "/".join(rng.choice(NAMES) for _ in range(rng.randint(0, 2))) + rng.choice(["", "/"])
    return rand_path(rng, 3)


def nontrivial(*strs):
    for s in strs:
        if s in (".",):
            continue
        if ".." in s or "//" in s or s.endswith("/") or s.startswith("./") or "/./" in s or s in ("", "./"):
            return True
    return False


@contextlib.contextmanager
def patched(cwd, root, here):
    """os.getcwd() = cwd, STEPUP_ROOT = root, HERE = here (None = unset) for the real functions."""
    saved_env = {k: os.environ.get(k) for k in ("STEPUP_ROOT", "HERE")}
    saved_getcwd = os.getcwd
    try:
        for k, v in (("STEPUP_ROOT", root), ("HERE", here)):
            if v is None:
                os.environ.pop(k, None)
            else:
                os.environ[k] = v
        os.getcwd = lambda: cwd
        yield
    finally:
        os.getcwd = saved_getcwd
        for k, v in saved_env.items():
            if v is None:
                os.environ.pop(k, None)
            else:
                os.environ[k] = v


def coq_env(root, here):
    items = []
    if root is not None:
        items.append(f"(k_STEPUP_ROOT, {coq_str(root)})")
    if here is not None:
        items.append(f"(k_HERE, {coq_str(here)})")
    return "[" + "; ".join(items) + "]"


HEADER = (
    "From Coq Require Import List NArith Bool.\nImport ListNotations.\n"
    "From SV Require Import lib.Bytes lib.PosixPath gen.GenPath model.PathModel.\n"
    "Open Scope N_scope.\n"
    "Definition oeqb (a b : option str) := match a, b with Some x, Some y => str_eqb x y"
    " | None, None => true | _, _ => false end.\n"
    "Fixpoint leqb (a b : list str) := match a, b with [], [] => true | x :: a', y :: b' => str_eqb x y && leqb a' b'"
    " | _, _ => false end.\n"
)


def coq_res(r):
    """r = ('ok', str) | ('raise', site)"""
    return f"(Ok {coq_str(r[1])})" if r[0] == "ok" else f"(Raise {r[1]})"


def call_raising(fn, msgs, *args):
    """Run a real function that may raise PathError; identify the raise site by its message."""
    from stepup.core.exceptions import PathError
    try:
        return ("ok", str(fn(*args)))
    except PathError as e:
        text = str(e)
        hits = [i + 1 for i, m in enumerate(msgs) if text.startswith(m)]
        if len(hits) != 1:
            return ("raise", 0)
        return ("raise", hits[0])


# ---------------------------------------------------------------------------------------------
# E1 correspondence
# ---------------------------------------------------------------------------------------------


def correspondence(ctx):
    from path import Path
    from stepup.core import api as su_api
    from stepup.core.path import apply_affixes, get_affixes, translate, translate_back
    rng = ctx.rng
    if not hasattr(ctx, "facts"):
        # the translator failed closed: gen/GenPath.v is stale, so model-versus-code comparison would
        # be meaningless; the implementation-only parts (real tree, oracle, search) still run
        ctx.notes.append("E1 model comparison skipped: translator failed, generated model is stale")
        realtree(ctx)
        return
    facts = ctx.facts
    msgs = facts["functions"]["apply_affixes"]["raise_msgs"]
    checks, descr = [], []

    def add(kind, term, info, nontriv=True):
        checks.append(term)
        descr.append((kind,) + tuple(info))
        ctx.case((kind,) + tuple(info), nontriv)
        ctx.count("E1_" + kind)

    # (a) primitives
    prim = list(FIXED) + [rand_path(rng) for _ in range(ctx.scale(250, 2500))]
    for s in prim:
        add("normpath", f"str_eqb (normpath {coq_str(s)}) {coq_str(posixpath.normpath(s))}", (s,), nontrivial(s))
        add("split", f"leqb (split_slash {coq_str(s)}) [{'; '.join(coq_str(x) for x in s.split('/'))}]", (s,), "/" in s)
        add("isabs", f"Bool.eqb (isabs {coq_str(s)}) {coq_bool(posixpath.isabs(s))}", (s,), bool(s))
        t = rand_path(rng)
        add("join", f"str_eqb (join2 {coq_str(s)} {coq_str(t)}) {coq_str(posixpath.join(s, t))}", (s, t), True)
        cwd = rand_root(rng) if rng.random() < 0.9 else "/"
        if cwd.startswith("//"):
            cwd = cwd[1:]
        with patched(cwd, None, None):
            try:
                e = posixpath.relpath(s, t)
            except ValueError:
                e = None
            add("posix_relpath", f"oeqb (posix_relpath {coq_str(cwd)} {coq_str(s)} {coq_str(t)}) {coq_option(e, coq_str)}",
                (cwd, s, t), True)
            e = str(Path(s).relpath(t))
            add("plib_relpath", f"str_eqb (plib_relpath {coq_str(cwd)} {coq_str(s)} {coq_str(t)}) {coq_str(e)}", (cwd, s, t), True)
            e = str(Path(s).absolute())
            add("abspath", f"str_eqb (abspath {coq_str(cwd)} {coq_str(s)}) {coq_str(e)}", (cwd, s), True)

    # (b) path.py functions, environment set the way the executor sets it, or unset
    tuples = list(CORPUS_TUPLES)
    for _ in range(ctx.scale(350, 4000)):
        root = rand_root(rng)
        cwd = posixpath.normpath(posixpath.join(root, rand_here(rng))) if rng.random() < 0.8 else rand_root(rng)
        if not cwd.startswith("/"):
            cwd = "/" + cwd
        if cwd.startswith("//"):
            cwd = cwd[1:]
        r = rng.random()
        env_root = root if r < 0.85 else None
        env_here = rand_here(rng) if rng.random() < 0.85 else None
        tuples.append((cwd, env_root, env_here, rand_workdir(rng), rand_path(rng)))
    for cwd, root, here, wd, p in tuples:
        env = coq_env(root, here)
        with patched(cwd, root, here):
            tr = str(translate(p, wd))
            tb = str(translate_back(p, wd))
            ka = call_raising(su_api._keep_affixes, msgs, p, translate)
            kb = call_raising(su_api._keep_affixes, msgs, p, translate_back)
        info = (cwd, root, here, wd, p)
        nt = nontrivial(wd, p) or here not in (".", None)
        add("translate", f"str_eqb (translate {coq_str(cwd)} {env} {coq_str(p)} {coq_str(wd)}) {coq_str(tr)}", info, nt)
        add("translate_back", f"str_eqb (translate_back {coq_str(cwd)} {env} {coq_str(p)} {coq_str(wd)}) {coq_str(tb)}", info, nt)
        add("keep_translate", f"res_eqb (keep_translate {coq_str(cwd)} {env} {coq_str(p)}) {coq_res(ka)}", info + (ka,), nt)
        add("keep_translate_back", f"res_eqb (keep_translate_back {coq_str(cwd)} {env} {coq_str(p)}) {coq_res(kb)}", info + (kb,), nt)

    # (c) affix functions on their own
    for _ in range(ctx.scale(300, 3000)):
        p = rand_path(rng)
        l, t = get_affixes(p)
        add("get_affixes", f"pair_eqb (get_affixes {coq_str(p)}) ({coq_str(l)}, {coq_str(t)})", (p,), nontrivial(p))
        lead = rng.choice(["", "./", "./", "../", ".", "/"])
        trail = rng.choice(["", "/", "/", "//", "."])
        q = rand_path(rng, 3)
        res = call_raising(apply_affixes, msgs, q, lead, trail)
        add("apply_affixes", f"res_eqb (apply_affixes {coq_str(q)} {coq_str(lead)} {coq_str(trail)}) {coq_res(res)}",
            (q, lead, trail, res), True)
        kn = call_raising(su_api._keep_affixes, msgs, p, Path.normpath)
        add("keep_normpath", f"res_eqb (keep_normpath {coq_str(p)}) {coq_res(kn)}", (p, kn), nontrivial(p))

    # (d) ROOT / HERE of Executor._run_command: what the REAL function hands to launch_command (c20_exec),
    # versus the generated exec_ROOT / exec_HERE, versus the translated expressions evaluated from their text
    exprs = facts["exec_exprs"]
    tie_bad = None
    with c20_exec.RealExec() as rx:
        for _ in range(ctx.scale(150, 1500)):
            root = rand_root(rng)
            if root.startswith("//"):
                root = root[1:]
            wd = posixpath.normpath(rand_workdir(rng)) if rng.random() < 0.8 else rand_workdir(rng)
            vals = eval_exec_exprs(exprs, root, wd)
            try:
                real = rx.run(root, wd)
            except c20_exec.RealExecError as e:
                real = {"ROOT": None, "HERE": None, "error": str(e)}
            if tie_bad is None and any(real[k] != vals[k] for k in ("ROOT", "HERE")):
                tie_bad = (root, wd, vals, real)
            for k in ("ROOT", "HERE"):
                got = real[k] if real[k] is not None else "<not produced>"
                add("exec_" + k, f"str_eqb (exec_{k} {coq_str(root)} [] {coq_str(wd)}) {coq_str(got)}", (root, wd), wd != ".")
        ctx.stats["exec_real_mode"] = rx.mode
    if tie_bad is not None:
        root, wd, vals, real = tie_bad
        ctx.add_failure("correspondence", "E1:exec-real-vs-translated", "E1:exec-real-vs-translated",
                        f"root {root!r} workdir {wd!r}: the real Executor._run_command produced ROOT={real['ROOT']!r} "
                        f"HERE={real['HERE']!r}{' (' + real['error'] + ')' if 'error' in real else ''}, the translated "
                        f"expressions {exprs!r} give ROOT={vals['ROOT']!r} HERE={vals['HERE']!r}",
                        witness={"root": root, "workdir": wd})

    for d in descr[::max(1, len(descr) // 5)][:5]:
        ctx.sample({"E1": d})
    bad = common.run_cases(ctx, "e1", HEADER, checks)
    ctx.traces_validated += len(checks) - len(bad)
    seen = set()
    for i in bad:
        kind = descr[i][0]
        if kind in seen:
            continue
        seen.add(kind)
        ctx.add_failure("correspondence", "E1:" + kind, f"E1:{kind}",
                        f"model and implementation disagree on {descr[i]!r}", witness={"e1_case": list(descr[i])})

    realtree(ctx)


# The witnesses of the two `_refuted` theorems of props/C20.v and a few hand-picked tuples:
# (cwd, STEPUP_ROOT, HERE, workdir, path)
CORPUS_TUPLES = [
    ("/r", "/r", ".", "/egg", "../x"),            # C20_translate_pre_D11_refuted (finding D11, fixed in 5ab2cfe)
    ("/r", "/r", ".", ".", "../r/x"),             # C20_translate_fixpoint_outside_root_refuted
    ("/r/proj/a/b", "/r/proj", "a/b", ".", "x.txt"),
    ("/r/proj/a", "/r/proj", "a", "../b", "../x.txt"),
    ("/r/proj/a", "/r/proj", "a", "/egg/", "."),
    ("/bar/egg", "/home/dude/project/source", "../../bar/egg", ".", "../public"),
    ("/", "/", ".", ".", "../x"),
    ("/r", "/r", "//net", ".", "x"),
    ("/r", None, None, ".", "./a/"),
    ("/r/a", "/r", None, ".", "x"),
]


def realtree(ctx):
    """translate against os.path.realpath in a real directory tree without symbolic links."""
    from stepup.core.path import translate, translate_back
    rng = ctx.rng
    old_cwd = os.getcwd()
    saved_env = {k: os.environ.get(k) for k in ("STEPUP_ROOT", "HERE")}
    n = 0
    try:
        with tempfile.TemporaryDirectory(prefix="verif-c20-") as tmp:
            base = os.path.realpath(tmp)
            root = os.path.join(base, "w", "proj")
            dirs = ["", "a", "a/b", "a/b/c", "d", "../out", "../out/egg", "../.."]
            for d in dirs:
                os.makedirs(os.path.normpath(os.path.join(root, d)), exist_ok=True)
            files = ["f.txt", "a/g.txt", "a/b/h.txt", "../out/egg/o.txt", "d/k.txt"]
            for f in files:
                with open(os.path.normpath(os.path.join(root, f)), "w") as fh:
                    fh.write("x")
            os.environ["STEPUP_ROOT"] = root
            for _ in range(ctx.scale(200, 2000)):
                here = rng.choice(dirs) or "."
                here_abs = os.path.normpath(os.path.join(root, here))
                target_wd = rng.choice(dirs)
                wd_abs = os.path.normpath(os.path.join(root, target_wd))
                wd = os.path.relpath(wd_abs, here_abs) if rng.random() < 0.8 else wd_abs
                wd = rng.choice([wd, wd + "/", "./" + wd if not wd.startswith("/") else wd, wd + "/."])
                target = os.path.normpath(os.path.join(root, rng.choice(files + dirs + ["nope/new.txt", "a/new.txt"])))
                p = os.path.relpath(target, wd_abs) if rng.random() < 0.85 else target
                p = rng.choice([p, "./" + p if not p.startswith("/") else p, p.replace("/", "//", 1), p])
                os.environ["HERE"] = here
                os.chdir(here_abs)
                want = os.path.realpath(os.path.join(wd, p))
                tr = str(translate(p, wd))
                got = os.path.realpath(os.path.join(root, tr))
                ctx.case(("realtree", here, wd, p), nontrivial(here, wd, p))
                n += 1
                if want != got:
                    ctx.add_failure("correspondence", "realtree:translate", "realtree:translate",
                                    f"HERE={here!r} workdir={wd!r} path={p!r}: step means {want!r}, director means {got!r}",
                                    witness={"here": here, "workdir": wd, "path": p, "translated": tr})
                    break
                tb = str(translate_back(tr, wd))
                back = os.path.realpath(os.path.join(wd, tb))
                if back != want:
                    ctx.add_failure("correspondence", "realtree:translate_back", "realtree:translate_back",
                                    f"HERE={here!r} workdir={wd!r} stored={tr!r}: handed back {tb!r} means {back!r}, not {want!r}",
                                    witness={"here": here, "workdir": wd, "stored": tr, "back": tb})
                    break
    finally:
        os.chdir(old_cwd)
        for k, v in saved_env.items():
            if v is None:
                os.environ.pop(k, None)
            else:
                os.environ[k] = v
    ctx.count("realtree_cases", n)
    ctx.traces_validated += n


# ---------------------------------------------------------------------------------------------
# Oracle: the property on the implementation alone
# ---------------------------------------------------------------------------------------------


def lex(base, p):
    return posixpath.normpath(posixpath.join(base, p))


def is_inside_normalized(q):
    return q == posixpath.normpath(q) and not q.startswith("/") and q.split("/")[0] != ".."


def check_tuple(cwd, root, here, wd, p, facts):
    """All oracle clauses for one tuple; returns a list of (signature, detail)."""
    from path import Path
    from stepup.core import api as su_api
    from stepup.core.path import get_affixes, translate, translate_back
    msgs = facts["functions"]["apply_affixes"]["raise_msgs"]
    out = []
    with patched(cwd, root, here):
        tr = str(translate(p, wd))
        caller = lex(lex(root, here), wd)
        want = lex(caller, p)
        got = lex(root, tr)
        if want != got:
            out.append(("oracle:translate:same-file", f"translate({p!r}, {wd!r}) = {tr!r} designates {got!r}, the caller means {want!r}"))
        if posixpath.normpath(tr) != tr:
            cls = ("absolute-workdir-relative-path" if posixpath.isabs(posixpath.normpath(wd)) and not posixpath.isabs(p)
                   else "other")
            out.append((f"oracle:translate:not-normalized:{cls}",
                        f"translate({p!r}, {wd!r}) = {tr!r} is recorded without normalisation (normalised: {posixpath.normpath(tr)!r})"))
        if posixpath.isabs(p) and tr != posixpath.normpath(p):
            out.append(("oracle:translate:abs-stable", f"translate({p!r}) = {tr!r}"))
        # api.step records translate(workdir) too and the executor launches the command there
        trwd = str(translate(wd))
        if lex(lex(root, trwd), p) != got:
            out.append(("oracle:declared-vs-execution",
                        f"step(workdir={wd!r}) is recorded with workdir {trwd!r}; {p!r} run there means {lex(lex(root, trwd), p)!r}, recorded {tr!r} means {got!r}"))
        # translate_back of an arbitrary stored path q := p
        tb = str(translate_back(p, wd))
        if lex(caller, tb) != lex(root, p):
            out.append(("oracle:translate_back:same-file",
                        f"translate_back({p!r}, {wd!r}) = {tb!r} designates {lex(caller, tb)!r} from {caller!r}, stored path means {lex(root, p)!r}"))
        # round trip: what was recorded comes back as the same file, and is recorded identically again
        tb2 = str(translate_back(tr, wd))
        tr2 = str(translate(tb2, wd))
        if lex(caller, tb2) != want:
            out.append(("oracle:roundtrip:same-file", f"{p!r} -> {tr!r} -> {tb2!r} no longer designates {want!r}"))
        # (with an absolute workdir, re-recording goes through the unnormalised branch reported above)
        if tr2 != tr and not posixpath.isabs(posixpath.normpath(wd)):
            out.append(("oracle:roundtrip:not-stable", f"{p!r} -> {tr!r} -> {tb2!r} -> {tr2!r}"))
        # affixes
        for name, fn in (("translate", translate), ("normpath", Path.normpath), ("translate_back", translate_back)):
            res = call_raising(su_api._keep_affixes, msgs, p, fn)
            bare = str(fn(Path(p)))
            l, t = get_affixes(p)
            expect_raise = 2 if (l and bare.startswith("/")) else 4 if (t and bare.endswith("/")) else None
            if res[0] == "raise":
                if res[1] != expect_raise:
                    out.append((f"oracle:affixes:{name}:unexpected-raise", f"_keep_affixes({p!r}, {name}) raised at site {res[1]}"))
            else:
                if expect_raise is not None:
                    out.append((f"oracle:affixes:{name}:missing-raise", f"_keep_affixes({p!r}, {name}) = {res[1]!r}"))
                elif get_affixes(res[1]) != (l, t) and not bare.endswith("/"):
                    out.append((f"oracle:affixes:{name}:not-preserved",
                                f"_keep_affixes({p!r}, {name}) = {res[1]!r} has affixes {get_affixes(res[1])}, argument had {(l, t)}"))
                elif lex(root, res[1]) != lex(root, bare):
                    out.append((f"oracle:affixes:{name}:other-file", f"{res[1]!r} versus {bare!r}"))
    # nothing set in the environment: root = cwd, HERE = "."
    with patched(root, None, None):
        tr0 = str(translate(p, wd))
        tb0 = str(translate_back(p, wd))
    if lex(root, tr0) != lex(lex(root, wd), p):
        out.append(("oracle:noenv:translate", f"cwd={root!r}, no STEPUP_ROOT/HERE: translate({p!r}, {wd!r}) = {tr0!r}"))
    if lex(lex(root, wd), tb0) != lex(root, p):
        out.append(("oracle:noenv:translate_back", f"cwd={root!r}, no STEPUP_ROOT/HERE: translate_back({p!r}, {wd!r}) = {tb0!r}"))
    # fixpoint
    if is_inside_normalized(p):
        with patched(cwd, root, "."):
            tr = str(translate(p, "."))
        if tr != p:
            out.append(("oracle:fixpoint", f"translate({p!r}) = {tr!r} with HERE = workdir = '.'"))
    return out


def apply_affixes_contract(q, l, t):
    """The documented contract of apply_affixes (same as apply_affixes_spec in model/PathModel.v)."""
    if l not in ("", "./"):
        return ("raise", 1)
    if l and q.startswith(("/", "./")):
        return ("raise", 2)
    if t not in ("", "/"):
        return ("raise", 3)
    if t and (l + q).endswith("/"):
        return ("raise", 4)
    return ("ok", l + q + t)


def check_affix_contract(q, l, t, facts):
    from stepup.core.path import apply_affixes, get_affixes
    msgs = facts["functions"]["apply_affixes"]["raise_msgs"]
    out = []
    res = call_raising(apply_affixes, msgs, q, l, t)
    exp = apply_affixes_contract(q, l, t)
    if res != exp:
        out.append(("oracle:apply_affixes:contract", f"apply_affixes({q!r}, {l!r}, {t!r}) gives {res}, documented contract {exp}"))
    elif res[0] == "ok" and q and not q.endswith("/") and not q.startswith("./") and get_affixes(res[1]) != (l, t):
        out.append(("oracle:get_affixes:reads-back", f"get_affixes({res[1]!r}) = {get_affixes(res[1])}, applied {(l, t)}"))
    return out


def eval_exec_exprs(exprs, root, wd):
    """The translated env["ROOT"] / env["HERE"] expressions evaluated from their source text."""
    from path import Path
    with patched(root, None, None):
        return {k: eval(compile(exprs[k], "<_run_command>", "eval"), {"Path": Path, "str": str, "workdir": wd})  # noqa: S307
                for k in ("ROOT", "HERE")}


def check_exec(root, wd, facts, real=None):
    """ROOT / HERE specification on the TRANSLATED expressions (only when the translator succeeded).

    When the translator failed there are no translated expressions: nothing is pretended about the source;
    the values the real function produced (`real`, from check_exec_real) are handed on for the end-to-end
    clause and the specification is checked on them by check_exec_real alone.
    """
    out = []
    exprs = facts.get("exec_exprs")
    if not exprs:
        vals = None if real is None or real.get("ROOT") is None or real.get("HERE") is None else {
            "ROOT": real["ROOT"], "HERE": real["HERE"]}
        return out, vals
    vals = eval_exec_exprs(exprs, root, wd)
    step_dir = lex(root, wd)
    if lex(step_dir, vals["ROOT"]) != root:
        out.append(("oracle:exec-env:ROOT", f"workdir {wd!r}: ROOT={vals['ROOT']!r} leads from {step_dir!r} to {lex(step_dir, vals['ROOT'])!r}, not {root!r}"))
    if lex(root, vals["HERE"]) != step_dir:
        out.append(("oracle:exec-env:HERE", f"workdir {wd!r}: HERE={vals['HERE']!r} leads from {root!r} to {lex(root, vals['HERE'])!r}, not {step_dir!r}"))
    return out, vals


def check_exec_real(rx, root, wd, facts):
    """The specification on what the REAL Executor._run_command hands to launch_command for (root, wd).

    Returns (list of (signature, detail), produced) where produced = {'ROOT', 'HERE', 'cwd', ...} or
    {'error': ...} when the real function raised.
    """
    out = []
    step_dir = lex(root, wd)
    try:
        real = rx.run(root, wd)
    except c20_exec.RealExecError as e:
        out.append(("oracle:exec-real:raised", f"root {root!r} workdir {wd!r}: {e}"))
        return out, {"error": str(e)}
    produced = f"(real _run_command: ROOT={real['ROOT']!r} HERE={real['HERE']!r} cwd={real['cwd']!r})"
    for k in ("ROOT", "HERE"):
        if real[k] is None or not real[k + "_is_str"]:
            out.append((f"oracle:exec-real:{k}", f"root {root!r} workdir {wd!r}: env[{k!r}] is not a string {produced}"))
    if real["ROOT"] is not None and lex(step_dir, real["ROOT"]) != root:
        out.append(("oracle:exec-real:ROOT",
                    f"root {root!r} workdir {wd!r}: the step runs in {step_dir!r} and is given ROOT={real['ROOT']!r}, which "
                    f"leads to {lex(step_dir, real['ROOT'])!r}, not to the root {produced}"))
    if real["HERE"] is not None and lex(root, real["HERE"]) != step_dir:
        out.append(("oracle:exec-real:HERE",
                    f"root {root!r} workdir {wd!r}: HERE={real['HERE']!r} leads from the root to {lex(root, real['HERE'])!r}, "
                    f"the step runs in {step_dir!r} {produced}"))
    if real["cwd"] is None or lex(root, real["cwd"]) != step_dir:
        out.append(("oracle:exec-real:cwd",
                    f"root {root!r} workdir {wd!r}: the command is launched with cwd={real['cwd']!r}, not in {step_dir!r} {produced}"))
    exprs = facts.get("exec_exprs")
    if exprs:
        vals = eval_exec_exprs(exprs, root, wd)
        if any(vals[k] != real[k] for k in ("ROOT", "HERE")):
            out.append(("E1:exec-real-vs-translated",
                        f"root {root!r} workdir {wd!r}: translated expressions {exprs!r} give ROOT={vals['ROOT']!r} "
                        f"HERE={vals['HERE']!r} {produced}"))
    return out, real


# (root, stored workdir): inside the root, the root itself, outside it (sibling, two levels up, absolute),
# the layout of tests/examples/translate_external (plan in projects/work, step in ../../common), the
# witness of seeded/C20-r2-executor-root-env-from-here-depth, and the file-system root corners.
EXEC_FIXED = [
    ("/r/proj", "."), ("/r/proj", "sub"), ("/r/proj", "sub/deep"), ("/r/proj", "a/b/c"),
    ("/r/proj", "../shared"), ("/r/proj", "../../x/y"), ("/r/proj", ".."), ("/r/proj", "../.."),
    ("/r/proj", "../proj"), ("/r/proj", "../proj/a"), ("/r/proj", "/egg"), ("/r/proj", "/"), ("/r/proj", "/r"),
    ("/r/proj", "/r/proj/a"), ("/x/translate_external/projects/work", "../../common"),
    ("/x/translate_external/projects/work", "../public"), ("/r", "../.."), ("/", "a"), ("/", "."), ("/", "a/b"),
]


def rand_exec_case(rng):
    """(root, workdir as api.step stores it: normalised, relative to the root or absolute)."""
    root = rand_root(rng)
    if root.startswith("//"):
        root = root[1:]
    r = rng.random()
    if r < 0.1:
        wd = "."
    elif r < 0.35:   # nested inside the root
        wd = "/".join(rng.choice(NAMES) for _ in range(rng.randint(1, 3)))
    elif r < 0.65:   # outside: sibling, cousin, ancestors
        wd = "/".join([".."] * rng.randint(1, 3) + [rng.choice(NAMES) for _ in range(rng.randint(0, 2))])
    elif r < 0.8:    # absolute
        wd = posixpath.normpath("/" + "/".join(rng.choice(NAMES) for _ in range(rng.randint(0, 3))))
        if wd.startswith("//"):
            wd = wd[1:]
    else:
        wd = posixpath.normpath(rand_workdir(rng))
    return root, wd


def exec_class(root, wd):
    if wd == ".":
        return "root"
    if wd.startswith("/"):
        return "absolute"
    return "outside" if wd.split("/")[0] == ".." else "inside"


def run_oracle(ctx, n):
    rng = ctx.rng
    facts = ctx.facts
    found = {}
    tuples = [t for t in CORPUS_TUPLES if t[1] is not None and t[2] is not None]
    for _ in range(n):
        root = rand_root(rng)
        if root.startswith("//"):
            root = root[1:]
        here = rand_here(rng)
        while here.startswith("/") or here == "":
            here = rand_here(rng)
        tuples.append((lex(root, here), root, posixpath.normpath(here), rand_workdir(rng), rand_path(rng)))
    for cwd, root, here, wd, p in tuples:
        ctx.case(("oracle", cwd, root, here, wd, p), nontrivial(wd, p) or here != ".")
        ctx.count("oracle_abs_path" if p.startswith("/") else "oracle_abs_workdir" if wd.startswith("/") else "oracle_relative")
        for sig, detail in check_tuple(cwd, root, here, wd, p, facts):
            found.setdefault(sig, (detail, {"cwd": cwd, "root": root, "here": here, "workdir": wd, "path": p}))
    for _ in range(n // 3):
        q, l, t = rand_path(rng, 3), rng.choice(["", "./", "./", "../", "."]), rng.choice(["", "/", "/", "//"])
        ctx.case(("oracle-affix", q, l, t), bool(l or t))
        for sig, detail in check_affix_contract(q, l, t, facts):
            found.setdefault(sig, (detail, {"apply_affixes": [q, l, t]}))
    from stepup.core.path import translate
    cases = list(EXEC_FIXED) + [rand_exec_case(rng) for _ in range(n // 3)]
    with c20_exec.RealExec() as rx:
        for root, wd in cases:
            ctx.case(("oracle-exec", root, wd), wd != ".")
            ctx.count("oracle_exec_" + exec_class(root, wd))
            # the real Executor._run_command, executed with a recording launch_command
            res_real, real = check_exec_real(rx, root, wd, facts)
            for sig, detail in res_real:
                found.setdefault(sig, (detail, {"root": root, "workdir": wd}))
            # the translated expressions (absent when the translator failed closed)
            res, vals = check_exec(root, wd, facts, real)
            for sig, detail in res:
                found.setdefault(sig, (detail, {"root": root, "workdir": wd}))
            # end to end with the environment the executor builds
            p = rand_path(rng)
            if not res and not res_real and vals is not None:
                step_dir = lex(root, wd)
                with patched(step_dir, root, vals["HERE"]):
                    tr = str(translate(p))
                if lex(root, tr) != lex(step_dir, p):
                    found.setdefault("oracle:end-to-end", (
                        f"step in {step_dir!r} (HERE={vals['HERE']!r}) means {lex(step_dir, p)!r} by {p!r}; director records {tr!r} = {lex(root, tr)!r}",
                        {"root": root, "workdir": wd, "path": p}))
        ctx.stats["exec_real_mode"] = rx.mode
    return found


def ensure_facts(ctx, who):
    if not hasattr(ctx, "facts"):
        ctx.facts = _fallback_facts()
        ctx.notes.append(f"{who} ran without translated facts because the translator failed: built-in raise messages of "
                         "apply_affixes; ROOT/HERE are taken from the real Executor._run_command only (harness/c20_exec.py)")


TARGET_FIXED = [
    ("/r/proj", "/r/proj", "out.txt"), ("/r/proj", "/r/proj/sub", "out.txt"), ("/r/proj", "/r/proj/sub", "../out.txt"),
    ("/r/proj", "/r/proj/sub", "d/"), ("/r/proj", "/r/proj/sub/deep", "../../d/e/"), ("/r/proj", "/r/proj", "./d/"),
    ("/r/proj", "/r/proj/sub", "/r/proj/x/y.txt"), ("/r/proj", "/r/proj/sub", "/r/proj/x/"), ("/r/proj", "/r/other", "../proj/a"),
    ("/r/proj", "/r/proj/sub", "a//b/./c"), ("/r/proj", "/r/proj", "sub/../sub/x/"), ("/", "/a", "b/"),
]


def check_targets(ctx, n):
    """`stepup build TARGET...` typed in any directory: tui._normalize_targets (the CLI-side counterpart of
    translate: Path.absolute, relpath to the root, normpath, the trailing separator as the only classifier)
    must record the normalized root-relative path that designates the same file, as a directory target exactly
    when the argument ends in a separator.  Implementation only; os.getcwd is patched, nothing touches the disk."""
    from path import Path
    try:
        from stepup.core.tui import _normalize_targets
    except Exception as e:  # noqa: BLE001
        return {"oracle:targets:import": (f"tui._normalize_targets cannot be imported: {e}", None)}
    rng = ctx.rng
    found = {}
    cases = list(TARGET_FIXED)
    for _ in range(n):
        root = rand_root(rng)
        r = rng.random()
        cwd = root if r < 0.2 else (lex(root, rand_here(rng)) if r < 0.85 else rand_root(rng))
        raw = rand_path(rng) if rng.random() < 0.5 else rand_rel_path(rng)
        if rng.random() < 0.35 and raw and not raw.endswith("/"):
            raw += "/"
        cases.append((root, cwd, raw))
    for root, cwd, raw in cases:
        if raw == "" or "\x00" in raw:
            continue
        wit = {"targets": {"root": root, "cwd": cwd, "raw": raw}}
        try:
            with patched(cwd, root, None):
                files, dirs = _normalize_targets([raw], Path(root))
        except Exception as e:  # noqa: BLE001
            found.setdefault("oracle:targets:raises", (f"_normalize_targets([{raw!r}]) in {cwd!r} raised {type(e).__name__}: {e}", wit))
            continue
        is_dir = raw.endswith("/")
        ctx.case(("targets", root, cwd, raw), nontrivial(raw, cwd))
        got = [str(x) for x in (dirs if is_dir else files)]
        other = [str(x) for x in (files if is_dir else dirs)]
        if other or len(got) != 1:
            found.setdefault("oracle:targets:classification",
                             (f"{raw!r} typed in {cwd!r}: files={files} dirs={dirs}; the trailing separator is the only classifier", wit))
            continue
        t = got[0]
        meant = lex(cwd, raw)
        if lex(root, t) != meant:
            found.setdefault("oracle:targets:same-file",
                             (f"{raw!r} typed in {cwd!r} means {meant!r}; recorded target {t!r} designates {lex(root, t)!r} from the root {root!r}", wit))
        body = t[:-1] if (is_dir and t.endswith("/") and len(t) > 1) else t
        if posixpath.normpath(body) != body and body != "":
            found.setdefault("oracle:targets:normalized", (f"{raw!r} typed in {cwd!r}: recorded target {t!r} is not normalized", wit))
        if is_dir and not t.endswith("/"):
            found.setdefault("oracle:targets:trailing-separator-lost", (f"{raw!r} typed in {cwd!r}: directory target recorded as {t!r}", wit))
    return found


# ---------------------------------------------------------------------------------------------
# api.step() -> real Workflow -> api.get_info(): the paths handed back to the step
# ---------------------------------------------------------------------------------------------

GETINFO_FIXED = [
    # (root, HERE of the declaring step, workdir argument, input path, output path)
    ("/T/project", ".", "sub/", "/T/ext/table.csv", "out.txt"),          # absolute input, nested workdir
    ("/T/project", ".", "../shared/", "inp.txt", "out.txt"),             # workdir outside the root
    ("/T/project", "sub", "./", "../data/a.txt", "b.txt"),
    ("/T/project", "sub", "../other/", "x.txt", "../sub/y.txt"),
    ("/T/project", "../shared", "./", "in.txt", "/T/project/gen/out.txt"),
    ("/T/project", ".", "./", "a.txt", "d/e/o.txt"),
    ("/T/project", "a/b", "../../", "/abs/elsewhere.txt", "o.txt"),
]


class _LoopbackRPC:
    """What the director does with the two RPCs of this round trip, on a REAL in-memory Workflow: define_step ->
    Workflow.define_step (creator: the plan step), get_step_info -> the real Step.get_info() of that step."""

    def __init__(self, w):
        self.w, self.step = w, None

    @property
    def call(self):
        return self

    def define_step(self, job_i, command, inp, env, out, vol, workdir, need, resources, shell, env_overrides, duration):
        from stepup.core.enums import Need
        from stepup.core.step import Step
        # the inputs exist as confirmed static files (Step.get_info lists declared inputs only)
        self.w.confirm_static(self.w.plan, sorted(set(map(str, inp))))
        self.w.wf.define_step(self.w.plan, command, inp_paths=list(map(str, inp)), env_deps=list(env),
                              out_paths=list(map(str, out)), vol_paths=list(map(str, vol)), workdir=str(workdir),
                              need=Need(need))
        label = Step.adjust_label(command, str(workdir)) if hasattr(Step, "adjust_label") else command
        self.step = self.w.wf.find(Step, label)

    def get_step_info(self, job_i):
        return self.step.get_info()


async def _getinfo_cases(ctx, cases):
    from stepup.core import api
    from stepup.core.exceptions import GraphError
    found = {}
    saved = api.get_rpc_client
    saved_job = os.environ.get("STEPUP_JOB_I")
    os.environ["STEPUP_JOB_I"] = "1"
    try:
        for root, here, wd, pin, pout in cases:
            wit = {"get_info": {"root": root, "here": here, "workdir": wd, "inp": pin, "out": pout}}
            async with WF() as w:
                rpc = _LoopbackRPC(w)
                api.get_rpc_client = lambda path=None, rpc=rpc: rpc
                parent_cwd = lex(root, here)
                try:
                    async with w.db:
                        with patched(parent_cwd, root, here):
                            api.step("work", inp=[pin], out=[pout], workdir=wd)
                        if rpc.step is None:
                            raise LookupError("the defined step was not found")
                        rec = rpc.step.get_info()
                        tr_wd = str(rec.workdir)
                        step_cwd = lex(root, tr_wd)
                        # the executor runs the step in root/workdir with HERE = workdir (C20_exec_ROOT_HERE)
                        with patched(step_cwd, root, posixpath.normpath(tr_wd)):
                            info = api.get_info()
                except (GraphError, ValueError, LookupError) as e:
                    ctx.count(f"get_info:skipped:{type(e).__name__}")
                    continue
                except Exception as e:  # noqa: BLE001
                    found.setdefault("oracle:get_info:raises", (f"{type(e).__name__}: {e} for {wit}", wit))
                    continue
            ctx.case(("get_info", root, here, wd, pin, pout), nontrivial(wd, pin) or here != ".")
            named_dir = lex(parent_cwd, wd)          # paths given to api.step are relative to the new step's workdir
            for field, given in (("inp", pin), ("out", pout)):
                recorded = sorted(lex(root, str(q)) for q in getattr(rec, field))
                back = sorted(lex(step_cwd, str(r)) for r in getattr(info, field))
                if back != recorded:
                    found.setdefault(f"oracle:get_info:{field}:not-the-recorded-file",
                                     (f"step in {step_cwd!r} (root {root!r}): the director recorded {field} "
                                      f"{[str(q) for q in getattr(rec, field)]} = {recorded}; get_info() hands back "
                                      f"{[str(r) for r in getattr(info, field)]}, which designate {back} from the step's directory", wit))
                elif lex(named_dir, given) not in back:
                    found.setdefault(f"oracle:get_info:{field}:not-the-declared-file",
                                     (f"declared {given!r} in {named_dir!r}; get_info() designates {back}", wit))
    finally:
        api.get_rpc_client = saved
        if saved_job is None:
            os.environ.pop("STEPUP_JOB_I", None)
        else:
            os.environ["STEPUP_JOB_I"] = saved_job
    return found


def check_get_info(ctx, n):
    """Real api.step() in the declaring step's context, a real Workflow behind a loopback RPC client, real
    Step.get_info() and real api.get_info() in the context the executor gives the new step: every inp / out path
    handed back must designate, from the step's working directory, the file the director recorded (and the file that
    was declared).  Absolute inputs, workdirs outside the root, HERE outside the root.  Implementation only."""
    from .wfutil import run
    rng = ctx.rng
    cases = list(GETINFO_FIXED)
    for _ in range(n):
        root = rand_root(rng)
        here = rand_here(rng)
        wd = rand_workdir(rng)
        pin = rand_path(rng) if rng.random() < 0.4 else rand_rel_path(rng)
        pout = rand_rel_path(rng)
        if not pin or not pout or pin.endswith("/") or pout.endswith("/") or "\x00" in pin + pout + wd:
            continue
        cases.append((root, here, wd if wd.endswith("/") else wd + "/", pin, pout))
    return run(_getinfo_cases(ctx, cases))


# ---------------------------------------------------------------------------------------------
# api.amend(): sequences of calls from one step process (the history is step-side state)
# ---------------------------------------------------------------------------------------------

AMEND_FIXED = [
    # (root, HERE = the step's working directory, field, requests in order)
    ("/r/proj", "W", "inp", ["p", "W/p"]),               # the later spelling equals the recorded path of the first
    ("/r/proj", "W", "out", ["p", "W/p"]),
    ("/r/proj", "W", "vol", ["q.txt", "W/q.txt", "./q.txt"]),
    ("/r/proj", "a/b", "inp", ["x", "a/b/x", "b/x"]),
    ("/r/proj", "sub", "inp", ["../x", "x"]),            # recorded "x"; the later "x" is sub/x
    ("/r/proj", "../shared", "out", ["../proj/o", "o"]),
    ("/r/proj", ".", "inp", ["p", "./p", "d/../p"]),      # same file three times: sent once
]


class _AmendRecorder:
    def __init__(self):
        self.sent = {"inp": [], "out": [], "vol": []}

    @property
    def call(self):
        return self

    def amend_step(self, job_i, inp, env, out, vol, **kw):
        for k, v in (("inp", inp), ("out", out), ("vol", vol)):
            self.sent[k] += sorted(str(x) for x in v)
        return True


def run_amend_sequence(root, here, field, requests):
    """The real api.amend() called once per request, in one process context (cwd = root/HERE), with a recording
    RPC client; the file-system checks of amend() are switched off (they are not about path translation) and the
    history is emptied before and after.  Returns the root-relative paths that reached the director, in order."""
    from stepup.core import api
    rec = _AmendRecorder()
    saved = (api.get_rpc_client, api._check_no_directories, api._check_inp_paths)
    hist = api._AMEND_HISTORY
    backup = {k: set(v) for k, v in hist.items()}
    saved_job = os.environ.get("STEPUP_JOB_I")
    os.environ["STEPUP_JOB_I"] = "1"
    try:
        for v in hist.values():
            v.clear()
        api.get_rpc_client = lambda path=None: rec
        api._check_no_directories = lambda paths: None
        api._check_inp_paths = lambda paths: None
        with patched(lex(root, here), root, here):
            for r in requests:
                api.amend(**{field: [r]})
    finally:
        api.get_rpc_client, api._check_no_directories, api._check_inp_paths = saved
        for k, v in hist.items():
            v.clear()
            v.update(backup[k])
        if saved_job is None:
            os.environ.pop("STEPUP_JOB_I", None)
        else:
            os.environ["STEPUP_JOB_I"] = saved_job
    return rec.sent[field]


def check_amend_sequences(ctx, n, cases=None):
    """Every path a step amends must reach the director as the root-relative path of the same file; a request is
    dropped only when an earlier request of the same process designates the same file (then it is sent once)."""
    rng = ctx.rng
    found = {}
    if cases is None:
        cases = list(AMEND_FIXED)
        for _ in range(n):
            root = rand_root(rng)
            here = rand_here(rng)
            hn = posixpath.normpath(here)
            p = rand_rel_path(rng)
            if not p or p.endswith("/") or "\x00" in p + here:
                continue
            field = rng.choice(["inp", "out", "vol"])
            kind = rng.random()
            if kind < 0.45:
                reqs = [p, posixpath.join(hn, p)]
            elif kind < 0.65:
                reqs = ["../" + p, p]
            elif kind < 0.8:
                reqs = [p, "./" + p, posixpath.join(hn, p)]
            else:
                reqs = [p, rand_rel_path(rng) or "z", p]
            cases.append((root, here, field, [r for r in reqs if r and not r.endswith("/")]))
    for root, here, field, reqs in cases:
        wit = {"amend": {"root": root, "here": here, "field": field, "requests": reqs}}
        try:
            sent = run_amend_sequence(root, here, field, reqs)
        except Exception as e:  # noqa: BLE001
            if type(e).__name__ in ("PathError", "ValueError"):
                ctx.count(f"amend:skipped:{type(e).__name__}")
                continue
            found.setdefault("oracle:amend:raises", (f"{type(e).__name__}: {e} for {wit}", wit))
            continue
        step_cwd = lex(root, here)
        wanted = [lex(step_cwd, r) for r in reqs]
        got = [lex(root, q) for q in sent]
        ctx.case(("amend", root, here, field, tuple(reqs)), here not in (".", "./") and len(set(wanted)) > 1)
        missing = [r for r, f in zip(reqs, wanted) if f not in got]
        if missing:
            found.setdefault(f"oracle:amend:{field}:request-never-reached-the-director",
                             (f"step in {step_cwd!r} (root {root!r}) amended {field}={reqs} in this order; the director "
                              f"received {sent}; {missing} (= {[lex(step_cwd, r) for r in missing]}) was dropped although no "
                              f"earlier request designates that file", wit))
        extra = [q for q, f in zip(sent, got) if f not in wanted]
        if extra:
            found.setdefault(f"oracle:amend:{field}:sent-path-designates-another-file",
                             (f"amend {field}={reqs} in {step_cwd!r}: sent {extra}", wit))
        if len(set(got)) != len(got):
            # not demanded by the property: an absolute and a relative spelling of one file translate to two
            # different recorded paths (absolute paths are stable under translate), so both are sent
            ctx.count("amend:same-file-sent-under-two-spellings")
        if any(posixpath.normpath(q) != q for q in sent):
            found.setdefault(f"oracle:amend:{field}:sent-path-not-normalized", (f"amend {field}={reqs}: sent {sent}", wit))
    return found


CLI_CASES = [("sub", "here.txt"), ("sub", "./here.txt"), ("sub/deep", "../x/"), ("", "out.txt"), ("sub", "../top.txt"),
             ("sub", "d/e/"), ("sub/deep", "../../a/b.txt")]


class _StopBuild(Exception):
    pass


def run_cli_build(root, sub, raws):
    """The REAL `stepup build` entry tui._async_build, started in root/sub with STEPUP_ROOT=root, up to the point
    where the director's command line is built: `_build_director_argv` is replaced by a recorder that raises, so
    no director is started; everything before it (get_stepup_root, the cd to the root, the plan.py check,
    _normalize_targets wherever it is called, the reporter server) runs as it is.  Returns (targets, target_dirs)."""
    import argparse
    import asyncio
    from stepup.core import tui
    seen = {}

    def recorder(args, targets, target_dirs, *a, **kw):
        seen["targets"] = [str(t) for t in targets]
        seen["target_dirs"] = [str(t) for t in target_dirs]
        raise _StopBuild()

    saved = tui._build_director_argv
    saved_cwd = os.getcwd()
    saved_env = {k: os.environ.get(k) for k in ("STEPUP_ROOT", "HERE")}
    tui._build_director_argv = recorder
    try:
        os.environ["STEPUP_ROOT"] = root
        os.environ.pop("HERE", None)
        os.chdir(os.path.join(root, sub) if sub else root)
        args = argparse.Namespace(targets=list(raws), progress=False)
        with contextlib.redirect_stdout(io.StringIO()):
            try:
                asyncio.run(asyncio.wait_for(tui._async_build(args), 60))
            except _StopBuild:
                pass
    finally:
        tui._build_director_argv = saved
        os.chdir(saved_cwd)
        for k, v in saved_env.items():
            if v is None:
                os.environ.pop(k, None)
            else:
                os.environ[k] = v
    return seen.get("targets"), seen.get("target_dirs")


def check_cli_call_site(ctx, cases=CLI_CASES):
    """`stepup build <target>` typed in a sub-directory of the project: the target handed to the director must
    designate, from the root, the file the user named from where the command was typed.  Implementation only, real
    temporary project (plan.py in the root), the process really changes directory as the CLI does."""
    found = {}
    with tempfile.TemporaryDirectory(prefix="c20-cli-") as tmp:
        root = os.path.realpath(os.path.join(tmp, "proj"))
        os.makedirs(os.path.join(root, "sub", "deep"))
        with open(os.path.join(root, "plan.py"), "w") as fh:
            fh.write("#!/usr/bin/env python3\n")
        os.chmod(os.path.join(root, "plan.py"), 0o755)
        for sub, raw in cases:
            wit = {"cli": {"typed_in": sub or ".", "raw": raw}}
            try:
                files, dirs = run_cli_build(root, sub, [raw])
            except Exception as e:  # noqa: BLE001
                found.setdefault("oracle:targets:call-site:raises",
                                 (f"`stepup build {raw}` typed in <root>/{sub}: {type(e).__name__}: {e}", wit))
                continue
            if files is None:
                found.setdefault("oracle:targets:call-site:not-reached",
                                 (f"`stepup build {raw}`: the director command line was never built", wit))
                continue
            ctx.case(("cli-target", sub, raw), bool(sub))
            got = dirs if raw.endswith("/") else files
            other = files if raw.endswith("/") else dirs
            meant = lex(lex(root, sub) if sub else root, raw)
            if other or len(got) != 1:
                found.setdefault("oracle:targets:call-site:classification",
                                 (f"`stepup build {raw}` typed in <root>/{sub}: files={files} dirs={dirs}", wit))
            elif lex(root, got[0]) != meant:
                found.setdefault("oracle:targets:call-site:same-file",
                                 (f"`stepup build {raw}` typed in <root>/{sub or '.'} names {os.path.relpath(meant, root)!r} "
                                  f"(root-relative); the director is given target {got[0]!r}", wit))
    return found


def oracle(ctx):
    ensure_facts(ctx, "oracle")
    for sig, (detail, witness) in sorted(check_cli_call_site(ctx).items()):
        ctx.add_failure("oracle", sig, sig, detail, witness=witness)
    for sig, (detail, witness) in sorted(check_get_info(ctx, ctx.scale(150, 1500)).items()):
        ctx.add_failure("oracle", sig, sig, detail, witness=witness)
    for sig, (detail, witness) in sorted(check_amend_sequences(ctx, ctx.scale(400, 5000)).items()):
        ctx.add_failure("oracle", sig, sig, detail, witness=witness)
    for sig, (detail, witness) in sorted(check_targets(ctx, ctx.scale(400, 5000)).items()):
        ctx.add_failure("oracle", sig, sig, detail, witness=witness)
    found = run_oracle(ctx, ctx.scale(1500, 20000))
    ctx.count("oracle_signatures", len(found))
    for sig, (detail, witness) in sorted(found.items()):
        ctx.add_failure("oracle", sig, sig, detail, witness=witness)
    ctx.sample({"oracle": "translate/translate_back/affixes/ROOT-HERE checked by lexical resolution; ROOT/HERE/cwd taken "
                          "from the real Executor._run_command", "violated_clauses": sorted(found)})


def _fallback_facts():
    """Facts needed by the oracle when the translator failed closed.

    Only the raise messages of apply_affixes (used to tell the raise sites apart) are built in.  There are
    deliberately NO ROOT/HERE expressions here: when the source could not be translated, the oracle uses what
    the real Executor._run_command produces (check_exec_real), never a remembered copy of the old code.
    """
    return {"functions": {"apply_affixes": {"raise_msgs": [
                "Leading affix must be", "Path already has a leading slash", "Trailing affix must be",
                "Path already has a trailing slash"]}},
            "exec_exprs": None}


def search(ctx):
    """An obligation broke and nothing produced a witness: run the oracle much deeper."""
    ensure_facts(ctx, "search")
    found = run_oracle(ctx, 40000 if ctx.thorough() else 12000)
    found.update(check_targets(ctx, 4000))
    found.update(check_cli_call_site(ctx))
    found.update(check_get_info(ctx, 1500))
    found.update(check_amend_sequences(ctx, 4000))
    for sig, (detail, witness) in sorted(found.items()):
        ctx.add_failure("oracle", sig, sig + ":search", detail, witness=witness)


def replay(ctx, obj):
    w = obj["failure"].get("witness") or {}
    ensure_facts(ctx, "replay")
    print("replaying", w)
    if "amend" in w:
        a = w["amend"]
        print("sent:", run_amend_sequence(a["root"], a["here"], a["field"], a["requests"]))
        for sig, (detail, witness) in sorted(check_amend_sequences(ctx, 0, [(a["root"], a["here"], a["field"], a["requests"])]).items()):
            ctx.add_failure("oracle", sig, sig, detail, witness=witness)
    elif "get_info" in w:
        from .wfutil import run
        g = w["get_info"]
        for sig, (detail, witness) in sorted(run(_getinfo_cases(ctx, [(g["root"], g["here"], g["workdir"], g["inp"], g["out"])])).items()):
            ctx.add_failure("oracle", sig, sig, detail, witness=witness)
    elif "cli" in w:
        c = w["cli"]
        for sig, (detail, witness) in sorted(check_cli_call_site(ctx, [("" if c["typed_in"] == "." else c["typed_in"], c["raw"])]).items()):
            ctx.add_failure("oracle", sig, sig, detail, witness=witness)
    elif "targets" in w:
        t = w["targets"]
        from path import Path
        from stepup.core.tui import _normalize_targets
        with patched(t["cwd"], t["root"], None):
            print("tui._normalize_targets ->", _normalize_targets([t["raw"]], Path(t["root"])))
        for sig, (detail, witness) in sorted(check_targets(ctx, 0).items()):
            ctx.add_failure("oracle", sig, sig, detail, witness=witness)
    elif {"cwd", "root", "here", "workdir", "path"} <= set(w):
        for sig, detail in check_tuple(w["cwd"], w["root"], w["here"], w["workdir"], w["path"], ctx.facts):
            ctx.add_failure("oracle", sig, sig, detail, witness=w)
    elif "apply_affixes" in w:
        for sig, detail in check_affix_contract(*w["apply_affixes"], ctx.facts):
            ctx.add_failure("oracle", sig, sig, detail, witness=w)
    elif {"root", "workdir"} <= set(w):
        root, wd = w["root"], w["workdir"]
        with c20_exec.RealExec() as rx:
            res_real, real = check_exec_real(rx, root, wd, ctx.facts)
            print(f"real Executor._run_command ({rx.mode}) for root={root!r} workdir={wd!r} (step directory "
                  f"{lex(root, wd)!r}):", {k: real.get(k) for k in ("ROOT", "HERE", "cwd", "error") if k in real})
        res, vals = check_exec(root, wd, ctx.facts, real)
        if ctx.facts.get("exec_exprs"):
            print("translated expressions:", ctx.facts["exec_exprs"], "->", vals)
        for sig, detail in res_real + res:
            ctx.add_failure("oracle", sig, sig, detail, witness=w)
        if "path" in w and vals is not None and not res and not res_real:
            from stepup.core.path import translate
            step_dir = lex(root, wd)
            with patched(step_dir, root, vals["HERE"]):
                tr = str(translate(w["path"]))
            if lex(root, tr) != lex(step_dir, w["path"]):
                ctx.add_failure("oracle", "oracle:end-to-end", "oracle:end-to-end",
                                f"step in {step_dir!r} (HERE={vals['HERE']!r}) means {lex(step_dir, w['path'])!r} by "
                                f"{w['path']!r}; director records {tr!r} = {lex(root, tr)!r}", witness=w)
    else:
        correspondence(ctx)
        oracle(ctx)
