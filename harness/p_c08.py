"""C08: every path has one owner and conflicts are rejected in either order."""
from __future__ import annotations

import re

from . import common
from .common import coq_list, coq_str
from .wfutil import WF, run

PID = "C08"
PROPS_FILE = "props/C08.v"
MODEL_TARGETS = ["model/Claims.vo", "model/GlobRows.vo"]
RULE = ("E2c: request sequences (1-6 requests of declare_static_files / register_static_tree / register_nglob / "
        "define_step / amend_step, each in its own transaction on a real Workflow over in-memory SQLite with a "
        "RUNNING plan step and RUNNING steps A, B, C as creators) and every ordered pair of request kinds "
        "{static, tree, glob, define-out, define-vol, define-inp, amend-out, amend-vol, amend-inp} executed in "
        "BOTH orders, systematically (every kind pair x identical/distinct creators x 4 path relations, no "
        "randomness) and randomly after a random prefix (identical and distinct creators alternating), with path spellings: same path, path under the tree, the tree's own "
        "name as a file, siblings sharing a name prefix, differing ASCII case, '%' and '_' in names, directories; "
        "model (coq/model/Claims.v evaluated by vm_compute) versus implementation: per request accept/reject, "
        "exception class, exact message text; after the sequence the attached file nodes with role and creator "
        "and the attached trees with creator. Oracle on the implementation: ownership invariants after every "
        "sequence and both-orders agreement for every pair. Non-trivial: at least one request touches a path "
        "that an earlier request of the same sequence touched (same path or tree/pattern relation); distinct by "
        "the request list")
TRUSTED_BASE = [
    "Coq 8.16.1 kernel (vm_compute in Examples, finite sweeps and the correspondence evaluation; no native_compute)",
    "Print Assumptions: Closed under the global context for every C08 theorem (no axioms)",
    "translator/gen_claims.py (FileRole/FileState tables, message templates, hint tables, Decl field order; "
    "control-flow skeletons of the message builders pinned in translator/gen_claims_skeletons.json)",
    "correspondence harness harness/p_c08.py (Gallina literal printer, canonical dump of node/file tables, "
    "the regex of each pattern evaluated by Python re.fullmatch and handed to the model as a finite table)",
    "hand-written model coq/model/Claims.v of workflow.py's declaration functions (checked by E2c, not translated)",
    "no extraction is used: the model is evaluated inside Coq by vm_compute",
]
ASSUMPTIONS = [
    "declaration layer only: no detached steps to recycle, no build targets, workdir '.', no named-wildcard substitutions",
    "static tree paths contain no glob wildcards (has_any_wildcards raises a ConsistencyError before anything else)",
    "dependency cycles are outside the model: a generated sequence on which the implementation raises CyclicError "
    "is truncated at that request (counted in the evidence)",
    "a rejected request is rolled back by DBSession.__aexit__ (C15) so that the next request sees the old state",
    "the glob regex is abstract (C17): the model receives, per case, the table of re.fullmatch results",
]

PLAN = "./plan.py"
CREATORS = [PLAN, "A", "B", "C"]


def generate(ctx):
    from translator import gen_claims
    from translator.astutil import TranslatorError
    text, facts = gen_claims.generate()
    ctx.write_gen("GenClaims.v", text)
    ctx.facts = facts
    ctx.stats["skeletons"] = facts["skeletons"]
    ctx.stats["nglob_writes"] = [list(w) for w in facts["nglob_sites"]["writes"]]
    # The generated file is complete and written (the correspondence keeps working on it); the set
    # of statements that write the nglob table is tied separately and fails closed.
    if facts["nglob_sites_error"]:
        raise TranslatorError("nglob table writers: " + facts["nglob_sites_error"])


# ---------------------------------------------------------------------------------------------
# Requests: Python representation, execution on the implementation, Gallina literal
# ---------------------------------------------------------------------------------------------
# ("static", creator, [paths]) ("tree", creator, path) ("glob", step, pattern, [matches][, subs])
# ("define", creator, label, inps, outs, vols) ("amend", step, inps, outs, vols)
# subs: the substitution constraints of the named wildcards, a list of [name, sub-pattern] pairs.


def glob_subs(rq):
    """NamedGlob.subs of a glob request, sorted by name (the key of a registration is
    (step, pattern, subs))."""
    return sorted((str(a), str(b)) for a, b in (rq[4] if len(rq) > 4 else []))


def gkey(pattern, subs):
    """model/Claims.v gkey: the key of the stored regex in the abstract matcher."""
    return pattern + "".join("\0" + n + "\0" + v for n, v in subs)


def glob_regex(rq):
    from stepup.core.nglob import convert_nglob_to_regex
    return re.compile(convert_nglob_to_regex(rq[2], dict(glob_subs(rq))), re.DOTALL)


def _find_step(w, label):
    from stepup.core.step import Step
    st = w.wf.find(Step, label)
    if st is None:
        raise KeyError(label)
    return st


def apply_request(w, rq):
    from stepup.core.nglob import NamedGlob
    kind = rq[0]
    if kind == "static":
        w.wf.declare_static_files(_find_step(w, rq[1]), list(rq[2]))
    elif kind == "tree":
        w.wf.register_static_tree(_find_step(w, rq[1]), rq[2])
    elif kind == "glob":
        ng = NamedGlob(rq[2], dict(glob_subs(rq)))
        ng.extend(list(rq[3]))
        w.wf.register_nglob(_find_step(w, rq[1]), ng)
    elif kind == "define":
        w.wf.define_step(_find_step(w, rq[1]), rq[2], inp_paths=list(rq[3]), out_paths=list(rq[4]),
                         vol_paths=list(rq[5]))
    elif kind == "amend":
        w.wf.amend_step(_find_step(w, rq[1]), inp_paths=list(rq[2]), out_paths=list(rq[3]),
                        vol_paths=list(rq[4]), ran_concurrently=lambda a, b: False)
    else:
        raise ValueError(kind)


def dump_state(w):
    from stepup.core.enums import FILE_ROLE_BY_STATE, FileState
    kinds = {"root": 0, "step": 1, "st": 2}
    rows = w.db.execute(
        "SELECT n.label, f.state, c.kind, c.label, c.detached FROM node n JOIN file f ON f.node = n.i "
        "LEFT JOIN node c ON c.i = n.creator WHERE n.kind = 'file' AND NOT n.detached ORDER BY n.label").fetchall()
    claims = []
    for label, state, ckind, clabel, cdet in rows:
        role = FILE_ROLE_BY_STATE.get(FileState(state))
        claims.append((label, None if role is None else int(role.value), kinds.get(ckind, 9), clabel, bool(cdet)))
    trees = w.db.execute(
        "SELECT n.label, c.kind, c.label FROM node n LEFT JOIN node c ON c.i = n.creator "
        "WHERE n.kind = 'st' AND NOT n.detached ORDER BY n.label").fetchall()
    trees = [(label, kinds.get(ckind, 9), clabel) for label, ckind, clabel in trees]
    globs = w.db.execute(
        "SELECT n.label, g.pattern, g.regex, g.data FROM nglob g JOIN node n ON n.i = g.node "
        "WHERE NOT n.detached ORDER BY g.i").fetchall()
    import json
    from stepup.core.cattrs import json_converter
    from stepup.core.nglob import NamedGlob
    glob_rows = []
    for label, pattern, _regex, data in globs:
        ng = json_converter.structure(json.loads(data), NamedGlob)
        glob_rows.append((label, pattern, sorted((str(a), str(b)) for a, b in ng.subs.items()),
                          [str(f) for f in ng.files()], str(ng.pattern)))
    dup = w.db.execute(
        "SELECT label, count(*) FROM node WHERE kind = 'file' AND NOT detached GROUP BY label HAVING count(*) > 1"
    ).fetchall()
    return {"claims": claims, "trees": trees, "globs": globs, "dup": dup, "glob_rows": glob_rows}


async def execute(reqs, dump_each=False):
    """Run the requests on a fresh real workflow, one transaction each. Returns (outcomes, dump,
    truncated_at): outcomes[i] is None (accepted) or (exception class name, text)."""
    from stepup.core.enums import StepState
    from stepup.core.exceptions import CyclicError, GraphError, ConsistencyError, PathError
    outcomes = []
    truncated = None
    dumps = []
    async with WF() as w:
        async with w.db:
            for lbl in CREATORS[1:]:
                w.wf.define_step(w.plan, lbl)
                _find_step(w, lbl).set_state(StepState.RUNNING)
        for i, rq in enumerate(reqs):
            try:
                async with w.db:
                    apply_request(w, rq)
                    if rq[0] == "define":
                        _find_step(w, rq[2]).set_state(StepState.RUNNING)
                outcomes.append(None)
            except KeyError as e:
                # the request names a step that was never created (its definition was rejected);
                # the director could not resolve such a job either
                outcomes.append(("GraphError", f"<model> no such step: {e.args[0]}"))
            except CyclicError:
                truncated = i
                break
            except (GraphError, ConsistencyError, PathError) as e:
                outcomes.append((type(e).__name__, str(e)))
            if dump_each:
                async with w.db:
                    dumps.append(dump_state(w))
        async with w.db:
            final = dump_state(w)
    return outcomes, final, truncated, dumps


def coq_creator(label):
    return f"(CStep {coq_str(label)})"


def coq_strs(paths):
    return coq_list([coq_str(p) for p in paths])


def coq_req(rq):
    k = rq[0]
    if k == "static":
        return f"RqStatic {coq_creator(rq[1])} {coq_strs(rq[2])}"
    if k == "tree":
        return f"RqTree {coq_creator(rq[1])} {coq_str(rq[2])}"
    if k == "glob":
        subs = coq_list([f"({coq_str(n)}, {coq_str(v)})" for n, v in glob_subs(rq)])
        return f"RqGlob {coq_str(rq[1])} {coq_str(rq[2])} {subs} {coq_strs(rq[3])}"
    if k == "define":
        return f"RqDefine {coq_creator(rq[1])} {coq_str(rq[2])} {coq_strs(rq[3])} {coq_strs(rq[4])} {coq_strs(rq[5])}"
    if k == "amend":
        return f"RqAmend {coq_str(rq[1])} {coq_strs(rq[2])} {coq_strs(rq[3])} {coq_strs(rq[4])}"
    raise ValueError(k)


HEADER = (
    "From Coq Require Import List NArith Bool String.\nImport ListNotations.\n"
    "From SV Require Import lib.Bytes lib.Tmpl gen.GenClaims model.Claims.\n"
    "Open Scope N_scope.\n"
    "Definition nomatch (a b : str) := false.\n"
    "Definition OW := owner_appends_slash.\nDefinition GR := glob_scans_products.\n"
    "Definition boot : state := Eval vm_compute in run_skip nomatch OW GR empty_state [\n"
    f"  RqStatic CRoot [{coq_str('plan.py')}];\n"
    f"  RqDefine CRoot {coq_str(PLAN)} [{coq_str('plan.py')}] [] [];\n"
    + ";\n".join(f"  RqDefine {coq_creator(PLAN)} {coq_str(l)} [] [] []" for l in CREATORS[1:]) + "].\n"
    "Definition tag (m : msg) : str := (if is_internal m then s2l \"ConsistencyError: \" else if is_path_error m then s2l \"PathError: \" else s2l \"GraphError: \") ++ render m.\n"
    "Definition oeq (a : option msg) (b : option str) : bool := opt_str_eqb (option_map tag a) b.\n"
    "Fixpoint leq2 {A B} (e : A -> B -> bool) (a : list A) (b : list B) : bool :=\n"
    "  match a, b with [], [] => true | x :: a', y :: b' => e x y && leq2 e a' b' | _, _ => false end.\n"
    "Definition grow_eqb (a b : str * (str * list str)) : bool :=\n"
    "  str_eqb (fst a) (fst b) && str_eqb (fst (snd a)) (fst (snd b)) && list_eqb str_eqb (snd (snd a)) (snd (snd b)).\n"
    "Definition agree (tbl : list (str * list str)) (rs : list req) (exp : list (option str))\n"
    "  (cl tr : list (str * (N * (N * str)))) (gl : list (str * (str * list str))) : bool :=\n"
    "  let gm := table_match tbl in\n"
    "  let st := run_skip gm OW GR boot rs in\n"
    "  leq2 oeq (outcomes gm OW GR boot rs) exp && list_eqb row_eqb (claim_rows st) cl\n"
    "  && list_eqb row_eqb (tree_rows st) tr\n"
    "  && list_eqb grow_eqb (map (fun g => (g_step g, (g_key g, g_ms g))) (globs st)) gl.\n"
)


def paths_of(rq):
    k = rq[0]
    if k == "static":
        return list(rq[2])
    if k == "tree":
        return []
    if k == "glob":
        return list(rq[3])
    if k == "define":
        return list(rq[3]) + list(rq[4]) + list(rq[5])
    return list(rq[2]) + list(rq[3]) + list(rq[4])


def match_table(reqs):
    """(pattern, [paths of the case that the stored regex fullmatches])."""
    keys = {}
    for rq in reqs:
        if rq[0] == "glob":
            keys.setdefault(gkey(rq[2], glob_subs(rq)), glob_regex(rq))
    paths = sorted({p for rq in reqs for p in paths_of(rq)})
    return [(k, [p for p in paths if rx.fullmatch(p)]) for k, rx in sorted(keys.items())]


def coq_case(reqs, outcomes, final):
    tbl = match_table(reqs)
    t = coq_list([f"({coq_str(p)}, {coq_strs(ms)})" for p, ms in tbl])
    rs = coq_list([coq_req(r) for r in reqs])
    exp = coq_list(["None" if o is None else f"(Some {coq_str(o[0] + ': ' + o[1])})" for o in outcomes])
    cl = coq_list([f"({coq_str(l)}, ({role if role is not None else 0}, ({ck}, {coq_str(cl_)})))"
                   for l, role, ck, cl_, _ in final["claims"]])
    tr = coq_list([f"({coq_str(l)}, (0, ({ck}, {coq_str(cl_)})))" for l, ck, cl_ in final["trees"]])
    gl = coq_list([f"({coq_str(lbl)}, ({coq_str(gkey(pat, subs))}, {coq_strs(files)}))"
                   for lbl, pat, subs, files, _ in final["glob_rows"]])
    return f"agree {t} {rs} {exp} {cl} {tr} {gl}"


# ---------------------------------------------------------------------------------------------
# Generators
# ---------------------------------------------------------------------------------------------

NAMES = ["a", "A", "b", "ab", "a%", "a_", "%", "_", "é", "a.b", "aa", "x"]
KINDS = ["static", "tree", "glob", "define-out", "define-vol", "define-inp", "amend-out", "amend-vol", "amend-inp"]


class Pool:
    """Paths related to one directory name `d`: the spellings that make the two code paths of an
    either-order check (prefix scan versus owner lookup) disagree if either is imprecise."""

    def __init__(self, rng):
        self.rng = rng
        d = rng.choice(NAMES)
        self.d = d
        sib = rng.choice([d + "0", d + "a", d + "_", d + "%", d.swapcase() if d.swapcase() != d else d + "-", d[:-1] or "q"])
        self.sib = sib
        leaf = [rng.choice(["x", "y.txt", "a", "%", "_x"]) for _ in range(2)]
        self.files = sorted({
            f"{d}/{leaf[0]}", f"{d}/{leaf[1]}", f"{d}/sub/{leaf[0]}", d, f"{sib}/{leaf[0]}", sib,
            f"{d}.txt", "top.txt", f"{leaf[0]}", f"{d}/sub/", f"{d}/", f"{d}/sub",
        })
        self.trees = sorted({d, d + "/", f"{d}/sub", f"{d}/sub/", sib, sib + "/"})
        self.patterns = sorted({f"{d}/*", "*.txt", f"{d}/*.txt", "*", f"{d}/**", f"{sib}/*", f"{d}/sub/*"})
        # named wildcards with substitution constraints: one pattern text, several regexes
        self.named = [("${*n}.txt", [[], [["n", d]], [["n", d + "*"]], [["n", "t*"]], [["n", "?"]]]),
                      (d + "/${*n}", [[], [["n", leaf[0]]], [["n", "s*"]], [["n", "[xy]*"]]]),
                      ("${*a}/${*b}", [[], [["a", d]], [["a", sib], ["b", "*"]], [["b", leaf[0]]]])]
        self.glob_hist = []     # (step, pattern) of the registrations requested so far
        self.counter = 0

    def path(self):
        r = self.rng
        if r.random() < 0.04:
            return r.choice([".stepup/x", ".stepup", ".stepupx/y"])
        return r.choice(self.files)

    def file_path(self):
        while True:
            p = self.path()
            if p:
                return p

    def tree(self):
        r = self.rng
        if r.random() < 0.03:
            return r.choice([".stepup", ".stepup/sub", "./", "/"])
        return r.choice(self.trees)

    def matches(self, pat, subs=()):
        """A plausible result of the client-side scan: matching pool files that 'exist', sometimes
        with a stray non-matching path (NamedGlob.extend drops it)."""
        rx = glob_regex(("glob", None, pat, [], list(subs)))
        cand = [p for p in self.files if rx.fullmatch(p)]
        r = self.rng
        ms = [p for p in cand if r.random() < 0.6]
        if r.random() < 0.15:
            ms.append(r.choice(self.files))
        if r.random() < 0.05:
            ms.append(".stepup/x")
        return sorted(set(ms))

    def fresh_label(self):
        self.counter += 1
        return f"s{self.counter}"

    def request(self, kind, creator, known_steps):
        r = self.rng
        if kind == "static":
            n = 1 if r.random() < 0.7 else 2
            return ("static", creator, sorted({self.file_path() for _ in range(n)}))
        if kind == "tree":
            return ("tree", creator, self.tree())
        if kind == "glob":
            x = r.random()
            if x < 0.25 and self.glob_hist:
                # the same step registers a pattern it has registered before (same or other subs)
                creator, pat = r.choice(self.glob_hist)
            elif x < 0.55:
                pat = r.choice(self.named)[0]
            else:
                pat = r.choice(self.patterns)
            self.glob_hist.append((creator, pat))
            named = dict(self.named)
            if pat in named:
                subs = r.choice(named[pat])
                return ("glob", creator, pat, self.matches(pat, subs), [list(x) for x in subs])
            return ("glob", creator, pat, self.matches(pat))
        if kind.startswith("define"):
            lbl = self.fresh_label() if r.random() < 0.9 else r.choice(known_steps)
            p = self.file_path()
            inps, outs, vols = [], [], []
            {"define-out": outs, "define-vol": vols, "define-inp": inps}[kind].append(p)
            if r.random() < 0.2:
                r.choice([inps, outs, vols]).append(self.file_path())
            return ("define", creator, lbl, sorted(set(inps)), sorted(set(outs)), sorted(set(vols)))
        p = self.file_path()
        inps, outs, vols = [], [], []
        {"amend-out": outs, "amend-vol": vols, "amend-inp": inps}[kind].append(p)
        if r.random() < 0.2:
            r.choice([inps, outs, vols]).append(self.file_path())
        return ("amend", creator, sorted(set(inps)), sorted(set(outs)), sorted(set(vols)))


def gen_sequence(rng, n, pool=None):
    pool = pool or Pool(rng)
    known = list(CREATORS)
    reqs = []
    for _ in range(n):
        kind = rng.choice(KINDS)
        creator = rng.choice(known)
        rq = pool.request(kind, creator, known)
        reqs.append(rq)
        if rq[0] == "define" and rq[2] not in known:
            known.append(rq[2])
    return reqs


def related_variants(rng, pool, kind):
    """The single related path/tree used for pair generation."""
    d = pool.d
    leaf = rng.choice(["x", "y.txt", "%"])
    file_opts = [f"{d}/{leaf}", d, f"{d}/", f"{pool.sib}/{leaf}", f"{d}/sub/{leaf}", f"{d}.txt", f"{d.swapcase()}/{leaf}"]
    return rng.choice(file_opts)


def gen_pair(rng, k1, k2, same_creator=False):
    """(prefix, r1, r2): two requests of the given kinds about related paths, by two different
    creators or (same_creator) by one and the same creator."""
    pool = Pool(rng)
    prefix = gen_sequence(rng, rng.choice([0, 0, 1, 2]), pool)
    c1, c2 = rng.sample(CREATORS, 2)
    if same_creator:
        c2 = c1
    p = related_variants(rng, pool, k1)
    q = p if rng.random() < 0.6 else related_variants(rng, pool, k2)

    def mk(kind, creator, path):
        if kind == "static":
            return ("static", creator, [path])
        if kind == "tree":
            t = rng.choice([pool.d, pool.d + "/", pool.d, f"{pool.d}/sub", pool.sib])
            return ("tree", creator, t)
        if kind == "glob":
            pat = rng.choice([f"{pool.d}/*", "*.txt", "*", f"{pool.d}/**", f"{pool.d}/*.txt", pool.d + "/${*n}"])
            subs = rng.choice([[], [["n", "x*"]], [["n", "?"]]]) if "${*n}" in pat else []
            rx = glob_regex(("glob", None, pat, [], subs))
            ms = [m for m in sorted({p, q}) if rx.fullmatch(m) and rng.random() < 0.5]
            return ("glob", creator, pat, sorted(ms), subs) if subs else ("glob", creator, pat, sorted(ms))
        role = kind.split("-")[1]
        inps, outs, vols = [], [], []
        {"out": outs, "vol": vols, "inp": inps}[role].append(path)
        if kind.startswith("define"):
            return ("define", creator, pool.fresh_label(), inps, outs, vols)
        return ("amend", creator, inps, outs, vols)

    return prefix, mk(k1, c1, p), mk(k2, c2, q)


# Path relations of the systematic pair block: (path of r1, path of r2, tree of r1, tree of r2).
RELATIONS = {
    "same-path-under-tree": ("data/x", "data/x", "data", "data/sub"),
    "both-under-tree": ("data/x", "data/sub/y", "data", "data"),
    "tree-name": ("data", "data", "data", "data/"),
    "sibling-prefix": ("data0/x", "data/x", "data", "data0"),
}


def systematic_pairs():
    """Every ordered pair of the nine request kinds, with identical and with distinct creators, for
    every path relation; no randomness, so this class is covered on every run and seed."""
    from stepup.core.nglob import convert_nglob_to_regex
    rx = re.compile(convert_nglob_to_regex("data/*", {}))
    out = []
    n = 0
    for rel, (p, q, t1, t2) in RELATIONS.items():
        for same in (True, False):
            for k1 in KINDS:
                for k2 in KINDS:
                    n += 1

                    def mk(kind, creator, path, tree, label):
                        if kind == "static":
                            return ("static", creator, [path])
                        if kind == "tree":
                            return ("tree", creator, tree)
                        if kind == "glob":
                            # the match is recorded: what a client-side scan of an existing file reports
                            return ("glob", creator, "data/*", [path] if rx.fullmatch(path) else [])
                        role = kind.split("-")[1]
                        inps, outs, vols = [], [], []
                        {"out": outs, "vol": vols, "inp": inps}[role].append(path)
                        if kind.startswith("define"):
                            return ("define", creator, label, inps, outs, vols)
                        return ("amend", creator, inps, outs, vols)

                    c1 = "A"
                    c2 = "A" if same else "B"
                    out.append((rel, same, [], mk(k1, c1, p, t1, f"n{n}a"), mk(k2, c2, q, t2, f"n{n}b")))
    return out


def directed_sequences():
    """Directed scenarios for the mechanisms of the property record, no randomness.
    register_nglob versus _raise_if_glob_match with SEVERAL registrations: a first registration G1,
    a second one G2 (same or other step; same pattern with equal / other / no constraints, or another
    pattern), and a product declared before, between or after them that G1, G2 or neither matches."""
    pat = "${*name}.txt"
    firsts = [("glob", "A", pat, [], [["name", "a*"]])]
    seconds = [("glob", "A", pat, [], [["name", "b*"]]), ("glob", "A", pat, [], [["name", "a*"]]),
               ("glob", "A", pat, []), ("glob", "B", pat, [], [["name", "b*"]]),
               ("glob", "A", "b*.txt", []), ("glob", "A", pat, ["b0.txt"], [["name", "b*"]])]
    out = []
    n = 0
    for g1 in firsts:
        for g2 in seconds:
            for path in ("a1.txt", "b1.txt", "c1.txt"):
                for kind in ("define-out", "define-vol", "amend-out", "amend-vol"):
                    n += 1
                    outs, vols = ([path], []) if kind.endswith("out") else ([], [path])
                    prod = (("define", "C", f"d{n}", [], outs, vols) if kind.startswith("define")
                            else ("amend", "C", [], outs, vols))
                    out.append([g1, g2, prod])
                    if kind == "amend-out":
                        out.append([g1, prod, g2])
                        out.append([prod, g1, g2])
                        out.append([g1, g2, g1, prod])
    return out


def nontrivial(reqs):
    seen_paths, seen_trees, seen_pats = set(), set(), []
    from stepup.core.nglob import convert_nglob_to_regex
    for rq in reqs:
        ps = paths_of(rq) if rq[0] != "glob" else []
        hit = False
        if rq[0] == "tree":
            t = rq[2].rstrip("/") + "/"
            hit = any(p.startswith(t) or p + "/" == t for p in seen_paths) or any(
                t.startswith(u) or u.startswith(t) for u in seen_trees)
            seen_trees.add(t)
        elif rq[0] == "glob":
            rx = glob_regex(rq)
            hit = any(rx.fullmatch(p) for p in seen_paths)
            seen_pats.append(rx)
        else:
            hit = any(p in seen_paths or any((p + "/").startswith(t) for t in seen_trees)
                      or any(rx.fullmatch(p) for rx in seen_pats) for p in ps)
        if hit:
            return True
        seen_paths.update(ps)
    return False


# ---------------------------------------------------------------------------------------------
# Oracle on the implementation
# ---------------------------------------------------------------------------------------------

ROLE_STATIC, ROLE_OUTPUT, ROLE_VOLATILE = 61, 62, 63


def invariant_violations(reqs, outcomes, final):
    """Ownership invariants of the property text, checked on the dump of the real tables."""
    out = []
    if final["dup"]:
        out.append(("inv:two-attached-nodes-for-one-path", f"{final['dup']}"))
    for label, role, ckind, clabel, cdet in final["claims"]:
        if role is None:
            out.append(("inv:attached-file-without-role", label))
        if ckind == 9 or clabel is None:
            out.append(("inv:attached-file-without-creator", label))
        if cdet:
            out.append(("inv:attached-file-with-detached-creator", label))
    tree_labels = [t for t, _, _ in final["trees"]]
    for i, t in enumerate(tree_labels):
        for u in tree_labels[i + 1:]:
            if t.startswith(u) or u.startswith(t):
                out.append(("inv:nested-static-trees", f"{t} {u}"))
    for label, role, ckind, clabel, _ in final["claims"]:
        for t in tree_labels:
            if label.startswith(t):
                if role != ROLE_STATIC:
                    out.append(("inv:product-under-static-tree", f"{label} under {t}"))
                elif not (ckind == 2 and clabel == t):
                    out.append(("inv:file-under-static-tree-not-owned-by-it", f"{label} under {t} creator {clabel}"))
    out.extend(registration_violations(reqs, outcomes, final))
    return out


def _product_requests(reqs, outcomes):
    """path -> index of the accepted request that declared it as an output / a volatile output."""
    first = {}
    for i, (rq, o) in enumerate(zip(reqs, outcomes)):
        if o is not None or rq[0] not in ("define", "amend"):
            continue
        prods = (rq[4] + rq[5]) if rq[0] == "define" else (rq[3] + rq[4])
        for p in prods:
            first.setdefault(p, i)
    return first


def registration_violations(reqs, outcomes, final):
    """The glob clause, judged against the HISTORY of accepted registrations and not only against
    the rows that are (still) in the nglob table: no request of this layer removes a registration,
    so every accepted register_nglob must still have its row, and neither a row nor a lost
    registration may match an attached product. The signature names the circumstance:
      order            product-first (register_nglob had to reject) / pattern-first
                       (_raise_if_glob_match had to reject)
      recorded         was the product among the recorded matches of the registration
      row              is the registration's row still in the table
      regs-of-pattern  how many registrations of this pattern text the step had made."""
    out = []
    regs = []      # (index, step, pattern, subs, regex, recorded matches)
    for i, (rq, o) in enumerate(zip(reqs, outcomes)):
        if rq[0] == "glob" and o is None:
            rx = glob_regex(rq)
            regs.append((i, rq[1], rq[2], glob_subs(rq), rx, sorted({m for m in rq[3] if rx.fullmatch(m)})))
    have = {}
    for lbl, pat, subs, files, _ in final["glob_rows"]:
        have[(lbl, pat, tuple(map(tuple, subs)))] = have.get((lbl, pat, tuple(map(tuple, subs))), 0) + 1
    want = {}
    for i, step, pat, subs, _, _ in regs:
        want.setdefault((step, pat, tuple(subs)), []).append(i)
    lost = set()
    for key, idxs in want.items():
        missing = len(idxs) - have.get(key, 0)
        if missing > 0:
            # with equal keys the rows are indistinguishable: call the oldest ones lost
            for i in idxs[:missing]:
                lost.add(i)
                later = [r for r in regs if r[0] > i and r[2] == key[1]]
                if any(r[1] == key[0] and tuple(r[3]) != key[2] for r in later):
                    circ = "same-step-registered-the-pattern-again-with-other-subs"
                elif any(r[1] == key[0] for r in later):
                    circ = "same-step-registered-the-pattern-again-with-equal-subs"
                elif later:
                    circ = "another-step-registered-the-pattern"
                else:
                    circ = "no-later-registration-of-the-pattern"
                n = sum(1 for r in regs if r[1] == key[0] and r[2] == key[1])
                out.append((f"inv:glob-registration-lost:{circ}:regs-of-pattern-by-step={min(n, 3)}",
                            f"request {i} registered pattern {key[1]} subs {dict(key[2])} for step {key[0]} and was "
                            f"accepted, no later request removes registrations, but the nglob table holds "
                            f"{have.get(key, 0)} row(s) of this key instead of {len(idxs)}: {final['glob_rows']!r}"))
    for key, n in have.items():
        if n > len(want.get(key, [])):
            out.append(("inv:glob-registration-unexpected-row",
                        f"the nglob table holds {n} row(s) of {key!r}, accepted registrations: {len(want.get(key, []))}"))
    products = {label: clabel for label, role, _, clabel, _ in final["claims"] if role in (ROLE_OUTPUT, ROLE_VOLATILE)}
    declared_at = _product_requests(reqs, outcomes)
    for i, step, pat, subs, rx, recorded in regs:
        for p in sorted(products):
            if not rx.fullmatch(p):
                continue
            at = declared_at.get(p)
            order = "order-unknown" if at is None else ("product-first" if at < i else "pattern-first")
            rec = "recorded-match" if p in recorded else "unrecorded-match"
            row = "row-lost" if i in lost else "row-present"
            sig = f"inv:glob-matches-product:{order}:{rec}:{row}"
            if i in lost:
                n = sum(1 for r in regs if r[1] == step and r[2] == pat)
                sig += f":regs-of-pattern-by-step={min(n, 3)}"
            out.append((sig, f"pattern {pat} subs {dict(subs)} registered by step {step} in request {i} (accepted) "
                             f"matches product {p} of {products[p]} declared in request {at}"))
    # rows that no accepted registration of this sequence explains are judged as they are
    for lbl, pat, regex, _data in final["globs"]:
        if not any(r[1] == lbl and r[2] == pat for r in regs):
            rx = re.compile(regex, re.DOTALL)
            for p in sorted(products):
                if rx.fullmatch(p):
                    out.append(("inv:glob-matches-product:row-without-registration",
                                f"pattern {pat} of step {lbl} matches product {p} of {products[p]}"))
    return out


# Signatures of the open known finding D3 before the oracle named the circumstances. A precise
# signature of D3's own witness family is printed under its old name until KNOWN_FINDINGS.json
# lists the precise one; every other circumstance gets a new signature that D3 never matches.
LEGACY_SIGNATURES = {
    "inv:glob-matches-product:product-first:unrecorded-match:row-present": "inv:glob-matches-product:unrecorded-match",
    "pair-asymmetry:glob+product:accepted-order=product-then-glob:unrecorded-match":
        "pair-asymmetry:glob-after-planned-output-accepted",
}


def public_signature(sig):
    old = LEGACY_SIGNATURES.get(sig)
    if old is None:
        return sig
    try:
        listed = {x for k in common.load_known() if k.get("property") == PID
                  for x in (k.get("signatures") or [k.get("signature")])}
    except Exception:  # noqa: BLE001
        listed = set()
    return sig if sig in listed else old


def _json_strings(obj):
    if isinstance(obj, str):
        return {obj}
    if isinstance(obj, dict):
        return set().union(*[_json_strings(k) | _json_strings(v) for k, v in obj.items()]) if obj else set()
    if isinstance(obj, (list, tuple)):
        return set().union(*[_json_strings(v) for v in obj]) if obj else set()
    return set()


def plan_result(outcomes, base):
    """Outcome of the plan `prefix; r; r'` as a whole: None if both of the last two accepted, else
    the first rejection among them."""
    for o in outcomes[base:]:
        if o is not None:
            return o
    return None


def classify_pair(r1, r2, accepted_first):
    """Signature of a pair that is accepted in one order and rejected in the other. `accepted_first`
    is the request that comes first in the ACCEPTED order; the signature names the two kinds, the
    accepted order and, for the shapes with two code paths, the circumstance that decides."""
    first, second = (r1, r2) if accepted_first is r1 else (r2, r1)
    kinds = {r1[0], r2[0]}
    if r1[0] == "tree" and r2[0] == "tree" and r1[1] == r2[1]:
        t1, t2 = first[2].rstrip("/") + "/", second[2].rstrip("/") + "/"
        if t1 != t2 and t2.startswith(t1):
            # accepted: parent then child (the child is a no-op); rejected: child then parent
            return "pair-asymmetry:same-creator-nested-trees-child-first-rejected"
    for g, b in ((r1, r2), (r2, r1)):
        if g[0] == "glob" and b[0] in ("define", "amend"):
            prods = (b[4] + b[5]) if b[0] == "define" else (b[3] + b[4])
            rx = glob_regex(g)
            hits = [p for p in prods if rx.fullmatch(p)]
            if hits:
                rec = "unrecorded-match" if any(p not in g[3] for p in hits) else "recorded-match"
                order = "product-then-glob" if first is b else "glob-then-product"
                return f"pair-asymmetry:glob+product:accepted-order={order}:{rec}"
    for t_rq, b in ((r1, r2), (r2, r1)):
        if t_rq[0] == "tree" and b[0] in ("define", "amend", "static"):
            t = t_rq[2].rstrip("/") + "/"
            if any(p + "/" == t for p in paths_of(b)) and first is b:
                return "pair-asymmetry:tree-after-file-at-tree-path-accepted"
    return ("pair-asymmetry:" + "+".join(sorted(kinds)) + ":accepted-order="
            + kind_of(first).split("-")[0] + "-then-" + kind_of(second).split("-")[0])


def kind_of(rq):
    if rq[0] in ("define", "amend"):
        roles = [n for n, l in zip(("inp", "out", "vol"), rq[-3:]) if l]
        return rq[0] + "-" + "+".join(roles)
    return rq[0]


# ---------------------------------------------------------------------------------------------
# Phases
# ---------------------------------------------------------------------------------------------


def _run_cases(ctx, seqs, label):
    """Execute each sequence on the implementation, build the Coq check, return per-sequence data."""
    results = []
    for reqs in seqs:
        outcomes, final, truncated, _ = run(execute(reqs))
        if truncated is not None:
            ctx.count("truncated_at_cyclic_error")
            reqs = reqs[:truncated]
            outcomes, final, truncated2, _ = run(execute(reqs))
            if truncated2 is not None:
                continue
        results.append((reqs, outcomes, final))
    return results


def _collect(ctx):
    """Generate and execute all cases once (shared by correspondence and oracle)."""
    if getattr(ctx, "c08_data", None) is not None:
        return ctx.c08_data
    rng = ctx.rng
    seqs = []
    for rq_list in CORPUS:
        seqs.append(rq_list)
    for rq_list in directed_sequences():
        seqs.append(rq_list)
        ctx.count("directed_sequences")
    nseq = ctx.scale(500, 6000)
    for _ in range(nseq):
        seqs.append(gen_sequence(rng, rng.randint(1, 6)))
    seq_results = _run_cases(ctx, seqs, "seq")
    pairs = []
    reps = ctx.scale(5, 50)
    for prefix, r1, r2 in CORPUS_PAIRS:
        pairs.append((prefix, r1, r2))
    for rel, same, prefix, r1, r2 in systematic_pairs():
        pairs.append((prefix, r1, r2))
        ctx.count("systematic_pairs_" + ("same_creator" if same else "distinct_creators"))
    for k1 in KINDS:
        for k2 in KINDS:
            for i in range(reps):
                # alternate: identical creators / distinct creators
                pairs.append(gen_pair(rng, k1, k2, same_creator=(i % 2 == 1)))
    pair_results = []
    for prefix, r1, r2 in pairs:
        a = run(execute(prefix + [r1, r2]))
        b = run(execute(prefix + [r2, r1]))
        if a[2] is not None or b[2] is not None:
            ctx.count("pairs_dropped_cyclic_error")
            continue
        pair_results.append((prefix, r1, r2, a, b))
    ctx.c08_data = (seq_results, pair_results)
    return ctx.c08_data


def correspondence(ctx):
    from . import c08_rows
    c08_rows.correspondence(ctx)
    seq_results, pair_results = _collect(ctx)
    checks, descr = [], []
    for reqs, outcomes, final in seq_results:
        checks.append(coq_case(reqs, outcomes, final))
        descr.append((reqs, outcomes, final))
        ctx.case(("seq", repr(reqs)), nontrivial(reqs))
        ctx.count("seq_len_%d" % len(reqs))
        for rq, o in zip(reqs, outcomes):
            ctx.count("req_" + rq[0])
            ctx.count("accepted" if o is None else "rejected")
            if o is not None:
                ctx.count("msg_" + re.sub(r"\(.*?\)", "()", o[1])[:40])
    for prefix, r1, r2, a, b in pair_results:
        for reqs, res in ((prefix + [r1, r2], a), (prefix + [r2, r1], b)):
            checks.append(coq_case(reqs, res[0], res[1]))
            descr.append((reqs, res[0], res[1]))
            ctx.case(("pair", repr(reqs)), nontrivial(reqs))
        ctx.count("pair_" + kind_of(r1).split("-")[0] + "_" + kind_of(r2).split("-")[0])
    for d in descr[:3]:
        ctx.sample({"E2c": {"requests": d[0], "outcomes": d[1], "claims": d[2]["claims"], "trees": d[2]["trees"]}})
    ctx.count("E2c_cases", len(checks))
    bad = common.run_cases(ctx, "e2c", HEADER, checks, chunk=150)
    ctx.traces_validated += len(checks) - len(bad)
    shown = set()
    for i in bad:
        reqs, outcomes, final = descr[i]
        sig = "E2c:" + "+".join(sorted({kind_of(r) for r in reqs}))[:80]
        if len(shown) >= 3:     # leave room for the oracle's signatures among the first five
            break
        if sig in shown:
            continue
        shown.add(sig)
        model = model_view(ctx, reqs)
        ctx.add_failure("correspondence", "E2c", sig,
                        f"model and implementation disagree on {reqs!r}: implementation outcomes {outcomes!r}, "
                        f"claims {final['claims']!r}, trees {final['trees']!r}; model {model}",
                        witness={"requests": reqs, "impl_outcomes": outcomes, "impl_claims": final["claims"],
                                 "impl_trees": final["trees"], "model": model})


def model_view(ctx, reqs):
    tbl = match_table(reqs)
    t = coq_list([f"({coq_str(p)}, {coq_strs(ms)})" for p, ms in tbl])
    rs = coq_list([coq_req(r) for r in reqs])
    terms = [f"map (option_map tag) (outcomes (table_match {t}) OW GR boot {rs})",
             f"claim_rows (run_skip (table_match {t}) OW GR boot {rs})",
             f"tree_rows (run_skip (table_match {t}) OW GR boot {rs})"]
    try:
        vals = common.eval_terms(ctx, "view", HEADER, terms)
    except Exception as e:  # noqa: BLE001
        return f"(model evaluation failed: {e})"
    return [decode_coq(v) for v in vals]


def decode_coq(v):
    """Make printed lists of code points readable."""
    if v is None:
        return None

    def rep(m):
        nums = [int(x) for x in re.findall(r"\d+", m.group(0))]
        try:
            return repr("".join(chr(n) for n in nums))
        except ValueError:
            return m.group(0)
    return re.sub(r"\[(?:\d+(?:;\s*\d+)*)\](?:%N)?", rep, " ".join(v.split()))


def oracle(ctx):
    seq_results, pair_results = _collect(ctx)
    reported = set()

    def report(sig, name, detail, witness):
        sig = public_signature(sig)
        if sig in reported:
            return
        reported.add(sig)
        ctx.add_failure("oracle", name, sig, detail, witness=witness)

    for reqs, outcomes, final in seq_results:
        ctx.case(("inv", repr(reqs)), nontrivial(reqs))
        for sig, what in invariant_violations(reqs, outcomes, final):
            ctx.count("oracle_" + sig)
            report(sig, "ownership-invariant", f"after {reqs!r} (outcomes {outcomes!r}): {what}",
                   {"requests": reqs, "outcomes": outcomes, "what": what})
    for prefix, r1, r2, a, b in pair_results:
        base = len(prefix)
        ctx.case(("both-orders", repr((prefix, r1, r2))), nontrivial(prefix + [r1, r2]))
        for reqs, res in ((prefix + [r1, r2], a), (prefix + [r2, r1], b)):
            for sig, what in invariant_violations(reqs, res[0], res[1]):
                ctx.count("oracle_" + sig)
                report(sig, "ownership-invariant", f"after {reqs!r} (outcomes {res[0]!r}): {what}",
                       {"requests": reqs, "outcomes": res[0], "what": what})
        # each request individually acceptable after the prefix?  (first position of either order)
        if a[0][base] is not None or b[0][base] is not None:
            ctx.count("pairs_one_individually_rejected")
            continue
        pa, pb = plan_result(a[0], base), plan_result(b[0], base)
        witness = {"prefix": prefix, "r1": r1, "r2": r2, "r1_then_r2": a[0][base:], "r2_then_r1": b[0][base:]}
        if (pa is None) != (pb is None):
            sig = classify_pair(r1, r2, r1 if pa is None else r2)
            ctx.count("oracle_" + sig)
            report(sig, "both-orders",
                   f"after prefix {prefix!r}: {r1!r} then {r2!r} gives {a[0][base:]!r} but the reverse order gives "
                   f"{b[0][base:]!r}", witness)
        elif pa is None:
            ctx.count("pairs_both_accepted")
            if a[1]["claims"] != b[1]["claims"] or a[1]["trees"] != b[1]["trees"]:
                sig = "pair-final-state-differs:" + "+".join(sorted({kind_of(r1), kind_of(r2)}))
                for x, y in ((r1, r2), (r2, r1)):
                    if x[0] == "tree" and y[0] in ("define", "amend"):
                        t = x[2].rstrip("/") + "/"
                        inps = y[3] if y[0] == "define" else y[2]
                        if any(p + "/" == t for p in inps):
                            sig = "pair-final-state-differs:tree-vs-input-at-tree-path"
                witness.update({"claims_12": a[1]["claims"], "claims_21": b[1]["claims"],
                                "trees_12": a[1]["trees"], "trees_21": b[1]["trees"]})
                report(sig, "both-orders", f"both orders accepted but the final claims differ: {witness!r}", witness)
        else:
            ctx.count("pairs_both_rejected")
            tree_tree = r1[0] == "tree" and r2[0] == "tree"
            if pa != pb and not tree_tree:
                sig = "pair-message-differs:" + "+".join(sorted({kind_of(r1), kind_of(r2)}))
                report(sig, "both-orders-message",
                       f"rejected in both orders with different messages: {witness!r}", witness)
    ctx.sample({"oracle": "ownership invariants after every sequence; both-orders agreement for every pair",
                "pairs": len(pair_results), "sequences": len(seq_results)})


def search(ctx):
    """An obligation broke and nothing produced a witness: a deeper run of the same oracle."""
    from . import c08_rows
    c08_rows.search(ctx, 600)
    ctx.c08_data = None
    old = ctx.tier
    ctx.tier = "thorough"
    try:
        oracle(ctx)
    finally:
        ctx.tier = old


def replay(ctx, obj):
    f = obj["failure"]
    w = f.get("witness") or {}
    print("replaying", f.get("signature"))
    if "row_ops" in w:
        from . import c08_rows
        c08_rows.replay(ctx, w)
    elif "requests" in w:
        reqs = [tuple(r) for r in w["requests"]]
        outcomes, final, trunc, _ = run(execute(reqs))
        print(" requests:", reqs)
        print(" outcomes:", outcomes)
        print(" claims:", final["claims"])
        print(" trees:", final["trees"])
        print(" model:", model_view(ctx, reqs))
        for sig, what in invariant_violations(reqs, outcomes, final):
            ctx.add_failure("oracle", "ownership-invariant", public_signature(sig), what, witness=w)
    elif "r1" in w:
        prefix = [tuple(r) for r in w["prefix"]]
        r1, r2 = tuple(w["r1"]), tuple(w["r2"])
        a = run(execute(prefix + [r1, r2]))
        b = run(execute(prefix + [r2, r1]))
        print(" r1;r2:", a[0][len(prefix):])
        print(" r2;r1:", b[0][len(prefix):])
        if (plan_result(a[0], len(prefix)) is None) != (plan_result(b[0], len(prefix)) is None):
            acc = r1 if plan_result(a[0], len(prefix)) is None else r2
            ctx.add_failure("oracle", "both-orders", public_signature(classify_pair(r1, r2, acc)),
                            f"{a[0][len(prefix):]!r} versus {b[0][len(prefix):]!r}", witness=w)
    else:
        oracle(ctx)


# Witnesses of the refuted lemmas of coq/props/C08.v, replayed on the implementation on every run.
CORPUS = [
    [("amend", "A", [], ["d"], []), ("tree", "B", "d")],
    [("tree", "B", "d"), ("amend", "A", [], ["d"], [])],
    [("amend", "A", [], ["a.txt"], []), ("glob", "B", "*.txt", [])],
    [("glob", "B", "*.txt", []), ("amend", "A", [], ["a.txt"], [])],
]
CORPUS_PAIRS = [
    ([], ("glob", "B", "*.txt", []), ("amend", "A", [], ["a.txt"], [])),
    ([], ("tree", "B", "d"), ("amend", "A", [], ["d"], [])),
    ([], ("tree", "B", "d"), ("static", "A", ["d"])),
    ([], ("tree", "B", "d"), ("amend", "A", ["d"], [], [])),
    ([], ("tree", "B", "d"), ("tree", "B", "d/sub")),
]
