"""Evaluate each conjunct of the boolean invariant on every prefix of generated E2 traces."""
import asyncio, random, sys
from . import common, e2

COMPS = ["inv_nodes_b", "inv_local_b", "inv_reach_b", "inv_rows_b", "inv_deps_b", "inv_acyclic_b",
         "inv_undeclared_b", "inv_fhash_b", "inv_step_b", "inv_running_nohash_b", "inv_succeeded_b",
         "inv_nocreator_b", "inv_outedge_b", "inv_succ_products_b", "inv_treefile_b", "inv_trees_nonnested_b",
         "inv_tree_owns_b"]


def main():
    seed = int(sys.argv[1]) if len(sys.argv) > 1 else 0
    n = int(sys.argv[2]) if len(sys.argv) > 2 else 20
    length = int(sys.argv[3]) if len(sys.argv) > 3 else 60
    ctx = common.Ctx("E2inv", "quick", seed)
    with common.CoqLock():
        ok, log = common.coq_make(["model/GraphInv.vo", "model/GraphDump.vo", "model/GraphTreeInv.vo"])
    assert ok, log
    checks, names = [], []
    header = e2.HEADER.replace("model.GraphTree.", "model.GraphTree model.GraphInv model.GraphTreeInv.")
    for i in range(n):
        rng = random.Random(f"e2-{seed}-{i}")
        tr, cnt, strict = asyncio.run(e2.gen_trace(rng, length))
        ops = common.coq_list([e2.cq_op(t[0]) for t in tr if t[0][0] != "dispatch_error"])
        for c in COMPS:
            checks.append(f"all_prefixes_ok_t {c} (init_st 3) {ops}")
            names.append((i, c))
    bad = common.run_cases(ctx, "inv", header, checks, chunk=34)
    from collections import Counter
    print(Counter(names[b][1] for b in bad))
    print([names[b] for b in bad][:20])


main()
