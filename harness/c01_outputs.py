"""C01: histories in which the user touches PRODUCTS of steps between two builds.

The generators of ``e3_gen`` / ``c01_gen`` only ever edit sources, scripts and variables.  A build
from scratch does not care what an output file looked like before the build, so an incremental
build must not either: an output (declared or amended) that was modified,
deleted, replaced by identical bytes, merely touched, or modified and put back by hand, has to end
up exactly as a build from scratch of the same sources leaves it.

Ingredients (combined at random per case):
  * 2-3 static sources, 2-5 steps in a chain / diamond: plain steps whose output is derived from
    everything they read, steps with a constant output (content known to the generator, so that it
    can be "restored by hand"), steps with two outputs, steps with a volatile output, script steps
    with an amended output, a mandatory consumer at the end, optionally all steps inside a
    sub-plan, optionally a tracked variable;
  * 1-3 phases, each with 1-2 edits of products that exist at that time: ``modify`` (other size),
    ``modify-same-size``, ``delete``, ``identical`` (same bytes written again: new mtime / inode),
    ``touch``, on intermediate and on final outputs; optionally in the same phase a source or
    variable changes too (upstream or downstream of the product), or nothing else changes;
  * optional last phase: no change at all (the previous build must have settled everything).
Restart flavour, and watch flavour when no variable changes (the watcher sees the edit of the
product while the director is idle).
"""
from __future__ import annotations

import random

from . import c01_oracle as co
from . import e3

TAMPER_KINDS = ["modify", "modify", "modify-same-size", "delete", "identical", "touch"]


def _derived_len_variant(path: str, n: int) -> str:
    return f"tampered {path} #{n}\n"


def gen_output_case(rng: random.Random) -> tuple[dict, dict]:
    """(case, description)"""
    nsrc = rng.randint(2, 3)
    sources = {f"s{i}.txt": f"content of s{i}.txt v0\n" for i in range(nsrc)}
    avail = sorted(sources)
    steps, commands, scripts = [], {}, {}
    const_content = {}           # product path -> content, for products the generator can reproduce
    products = []                # [(path, role, producer label)]
    nstep = rng.randint(2, 5)
    use_env = rng.random() < 0.3
    for i in range(1, nstep + 1):
        inp = sorted(rng.sample(avail, rng.randint(1, min(2, len(avail)))))
        if i > 1 and rng.random() < 0.6 and f"o{i - 1}.txt" not in inp:
            inp = sorted(set(inp[:1]) | {f"o{i - 1}.txt"})          # keep chains frequent
        out = [f"o{i}.txt"]
        kind = rng.choice(["auto", "auto", "const", "two", "vol", "script"])
        label = f"t{i}"
        act = {"op": "step", "label": label, "inp": inp, "out": out}
        if use_env and rng.random() < 0.5:
            label = f"t{i} $VA"
            act["label"] = label
            act["env"] = ["VA"]
        getenv = [{"op": "getenv", "name": "VA"}] if act.get("env") else []
        if kind == "const":
            const_content[out[0]] = f"constant {i}\n"
            commands[label] = getenv + [{"op": "read", "paths": inp, "required": True},
                                        {"op": "write", "path": out[0], "content": const_content[out[0]]}]
        elif kind == "two":
            act["out"] = out = out + [f"o{i}b.txt"]
            commands[label] = getenv + [{"op": "auto"}]
        elif kind == "vol":
            act["vol"] = [f"v{i}.log"]
            commands[label] = getenv + [{"op": "auto"}]
            # the volatile output itself is NOT edited: VOLATILE files are never hashed, a user
            # edit of one is not repaired by design (a hand-made history shows `C01:diff:content`
            # on it for the unchanged code; not counted as a finding of this property)
        elif kind == "script":
            # a script step: the executable is a static input, one more output is amended
            path = f"w{i}.py"
            act = {"op": "run", "label": f"./{path}", "inp": inp, "out": out}
            label = f"./{path}"
            scripts[path] = [{"op": "amend", "out": [f"o{i}x.txt"]}, {"op": "auto"},
                             {"op": "write", "path": f"o{i}x.txt"}]
            products.append((f"o{i}x.txt", "amended", label))
        else:
            commands[label] = getenv + [{"op": "auto"}]
        for p in out:
            products.append((p, "out", label))
        steps.append(act)
        avail.append(out[0])
    # a consumer of the last output (every chain has an end whose output nobody reads)
    steps.append({"op": "step", "label": "sink", "inp": [f"o{nstep}.txt"], "out": ["sink.txt"]})
    products.append(("sink.txt", "out", "sink"))
    statics = sorted(sources) + sorted(scripts)
    in_sub = rng.random() < 0.3
    if in_sub:
        main = [{"op": "static", "paths": statics + ["p1.py"]}, {"op": "plan", "label": "./p1.py"}]
        all_scripts = {"plan.py": main, "p1.py": steps, **scripts}
    else:
        all_scripts = {"plan.py": [{"op": "static", "paths": statics}] + steps, **scripts}
    env0 = {"VA": "va0"} if use_env else {}
    project = e3.Project(sources=dict(sources), env=dict(env0),
                         program={"scripts": all_scripts, "commands": dict(commands)})
    # ---- history
    history, kinds = [], []
    nphase = rng.randint(1, 3)
    counter = 0
    env_changed = False
    for _ in range(nphase):
        edits = []
        for path, role, _label in rng.sample(products, rng.randint(1, min(2, len(products)))):
            kind = rng.choice(TAMPER_KINDS)
            if kind == "identical" and path not in const_content:
                kind = "touch"
            counter += 1
            if kind == "modify":
                edits.append({"op": "write", "path": path, "content": _derived_len_variant(path, counter)})
            elif kind == "modify-same-size":
                # constant outputs have a known size; for derived ones the size is that of
                # "<label>|<path>|<16 hex digits>\n", unknown here: fall back to a const-sized text
                text = const_content.get(path)
                edits.append({"op": "write", "path": path,
                              "content": (text[:-2] + "X\n") if text else _derived_len_variant(path, counter)})
            elif kind == "delete":
                edits.append({"op": "delete", "path": path})
            elif kind == "identical":
                edits.append({"op": "write", "path": path, "content": const_content[path]})
            else:
                edits.append({"op": "touch", "path": path})
            kinds.append(f"{kind}:{role}")
        also = rng.choice(["nothing", "nothing", "source", "env"])
        if also == "source":
            p = rng.choice(sorted(sources))
            counter += 1
            edits.append({"op": "write", "path": p, "content": f"content of {p} v{counter}\n"})
        elif also == "env" and use_env:
            counter += 1
            env_changed = True
            edits.append({"op": "setenv", "name": "VA", "value": f"va{counter}"})
        history.append({"edits": edits})
    if rng.random() < 0.3:
        history.append({"edits": []})
    flavour = "watch" if not env_changed and rng.random() < 0.4 else "restart"
    desc = {"steps": nstep, "sub": in_sub, "env": use_env, "phases": len(history), "kinds": kinds,
            "flavour": flavour}
    return co.case_json(project, history, flavour), desc
