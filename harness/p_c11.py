"""C11: Exactly the needed steps are executed."""
from __future__ import annotations

import os
import time

from . import common
from . import p_c10
from . import sched_model as M
from . import sched_targets as TG
from .sched_common import run

PID = "C11"
PROPS_FILE = "props/C11.v"
MODEL_TARGETS = ["model/Sched.vo"]
RULE = ("the random build histories of C10 (real Workflow/Scheduler API; OPTIONAL/DEFAULT/PLAN steps, chains of "
        "optional steps, amended inputs, detached consumers, exact and directory targets that change between "
        "phases). Correspondence: model update_meta/dispatch versus the real tables at the ticks of a subset of "
        "the histories, model revert_optional versus the real revert_optional_steps (tables and deletion queue), "
        "model normalize_targets versus tui._normalize_targets on random raw targets (E1). Oracle: need_spec is "
        "recomputed by definition in Python; every dispatched step must be needed above the threshold, at a "
        "successful unrestricted phase end exactly the attached steps with need_spec = OPTIONAL are reverted and "
        "exactly their outputs are queued. A tick is non-trivial when the graph has an OPTIONAL step or a target")
TRUSTED_BASE = [
    "Coq 8.16.1 kernel; Print Assumptions: Closed under the global context for every C11 theorem",
    "translator/gen_sched.py + translator/sqlexpr.py (shared with C10)",
    "harness/sched_common.py, harness/sched_model.py, harness/p_c10.py (history cache), harness/p_c11.py",
    "model/Sched.v is hand-written and validated by the correspondence on every run",
]
ASSUMPTIONS = [
    "the two-hop consumer relation is acyclic (trellis invariant, property C09); checked on every snapshot",
    "path normalisation (absolute/relpath/normpath) is a parameter of the normalize_targets model; C20 owns it",
    "which commands a step runs is not modelled: 'built' means dispatched by the scheduler (RunJob or check)",
]

SIG_D8 = p_c10.SIG_D8


def generate(ctx):
    p_c10.generate(ctx)


def _norm_cases(ctx, checks, descr):
    from path import Path
    from stepup.core.exceptions import ToolError
    from stepup.core.tui import _normalize_targets
    rng = ctx.rng
    root = Path.cwd()
    names = ["a", "b", "out", "x.txt", "d e", "é", "..", ".", "a.b"]
    for _ in range(ctx.scale(120, 1200)):
        raws = []
        for _ in range(rng.randint(0, 4)):
            parts = [rng.choice(names) for _ in range(rng.randint(1, 3))]
            r = "/".join(parts)
            if rng.random() < 0.2:
                r = "./" + r
            if rng.random() < 0.15:
                r = r.replace("/", "//", 1)
            if rng.random() < 0.45:
                r += "/" * rng.choice([1, 1, 2])
            if rng.random() < 0.04:
                r = ""
            if rng.random() < 0.05:
                r = str(root / r) if r else r
            raws.append(r)
        try:
            ts, ds = _normalize_targets(raws, root)
            real = "(Some ({}, {}))".format("[" + "; ".join(M.cstr(str(t)) for t in ts) + "]",
                                            "[" + "; ".join(M.cstr(str(t)) for t in ds) + "]")
        except ToolError:
            real = "None"
        # the normalisation function as a table (computed independently of the function under test)
        table = {}
        for r in raws:
            if r:
                table[r] = str(Path(r).absolute().relpath(root).normpath())
        tab = "[" + "; ".join(f"({M.cstr(k)}, {M.cstr(v)})" for k, v in sorted(table.items())) + "]"
        raw_c = "[" + "; ".join(M.cstr(r) for r in raws) + "]"
        checks.append(f"nt_eqb (normalize_targets (tab_norm {tab}) {raw_c}) {real}")
        descr.append(("normalize_targets", raws, real != "None"))
        ctx.case(("norm", tuple(raws)), any(r.endswith(os.sep) for r in raws))
    ctx.count("E1_normalize_cases", len([d for d in descr if d[0] == "normalize_targets"]))


HEADER_EXTRA = """
Fixpoint tab_norm (t : list (str * str)) (s : str) : str :=
  match t with [] => s | (k, v) :: r => if str_eqb k s then v else tab_norm r s end.
Definition strs_eqb := list_eqb str_eqb.
Definition nt_eqb (a b : option (list str * list str)) : bool :=
  match a, b with
  | Some (t1, d1), Some (t2, d2) => strs_eqb t1 t2 && strs_eqb d1 d2
  | None, None => true
  | _, _ => false
  end.
"""


def correspondence(ctx):
    hs = p_c10.histories(ctx)
    checks, descr = [], []
    _norm_cases(ctx, checks, descr)
    nticks = 0
    for hi, h in enumerate(hs):
        for ei, ev in enumerate(h["events"]):
            if "error" in ev:
                continue
            before, after = ev.get("before"), ev["after"]
            if ev["op"] == "revert":
                gb, ga = M.to_coq(before), M.to_coq(after)
                labels = {f["label"]: f["key"] for f in before["files"]}
                q = "[" + "; ".join(f"({labels[p]}, {M.cbool(kind == 'hash')})" for p, kind in ev["to_be_deleted"]
                                    if not p.endswith("/") and p in labels) + "]"
                checks.append(f"let r := revert_optional {gb} in graph_eqb (fst r) {ga} && queue_eqb (snd r) {q}")
                descr.append(("revert", hi, ei))
                ctx.case(("revert", repr(before)), bool(ev["to_be_deleted"]))
            elif ev["op"] == "reconcile" and before is not None and "rejected" not in ev:
                # Workflow.reconcile_targets after Scheduler.initialize rebuilt the target tables: the translated
                # model (GenSched.reconcile_parts) against the real tables, and the hypotheses of
                # C11_target_change_keeps_flag_invariant on the real snapshot
                gb, ga = M.to_coq(before), M.to_coq(after)
                checks.append(f"let gb := {gb} in graph_eqb (reconcile gb) {ga} && fwf_b gb && labels_unique_b gb && outinv_b gb")
                descr.append(("reconcile", hi, ei))
                ctx.count("reconcile_cases")
                ctx.case(("reconcile", repr(before)), bool(before["targets"] or before["target_dirs"]))
            elif ev["op"] == "tick" and ev.get("after_meta") is not None and hi % 3 == 0:
                nontriv = bool(before["targets"] or before["target_dirs"]
                               or any(s["need"] == M.OPTIONAL for s in before["steps"]))
                if not nontriv:
                    continue
                gb, ga = M.to_coq(before), M.to_coq(ev["after_meta"])
                ns = ev["new_state"] if ev["new_state"] is not None else 0
                checks.append(f"tick_ok {gb} {ga} {M.copt(ev['choice'])} {ns}")
                descr.append(("tick", hi, ei))
                ctx.case(("tick", repr(before), repr(ev["after_meta"])), True)
                nticks += 1
    ctx.count("tick_cases", nticks)
    ctx.count("correspondence_cases", len(checks))
    for d in descr[:2] + descr[-2:]:
        ctx.sample({"correspondence-case": [str(x)[:120] for x in d]})
    t0 = time.time()
    bad = common.run_cases(ctx, "need", M.COQ_HEADER + HEADER_EXTRA, checks, chunk=ctx.scale(80, 100), timeout=900)
    ctx.stats["t_run_cases_s"] = round(time.time() - t0, 1)
    ctx.traces_validated += len(checks) - len(bad)
    seen = set()
    for i in bad:
        kind = descr[i][0]
        sig = f"correspondence:{kind}"
        if sig in seen:
            continue
        seen.add(sig)
        if kind == "normalize_targets":
            ctx.add_failure("correspondence", kind, "E1:normalize_targets",
                            f"model and tui._normalize_targets disagree on {descr[i][1]!r}", witness={"raw": descr[i][1]})
        else:
            wit, detail = p_c10._explain(ctx, hs, descr[i], checks[i])
            ctx.add_failure("correspondence", kind, sig, detail, witness=wit)


def oracle(ctx):
    hs = p_c10.histories(ctx)
    fails = {}

    def fail(sig, name, detail, witness):
        if sig not in fails:
            fails[sig] = (name, detail, witness)
        ctx.count("oracle_failure." + sig)

    dispatched = built_optional = 0
    for hi, h in enumerate(hs):
        stale_root = {}
        for ei, ev in enumerate(h["events"]):
            if "error" in ev:
                break
            op, before, after = ev["op"], ev.get("before"), ev["after"]
            where = {"history": hi, "event": ei, "op": op, "args": ev.get("args"), "config": h["config"]}
            if before is not None and op != "tick":
                # attribute a stale _implied_need to the deletion of a file -> step edge (D8)
                va = M.View(after)
                for k in va.flaginv_need_violations():
                    if k not in stale_root:
                        stale_root[k] = SIG_D8 if p_c10._edge_deleted_from_output_of(before, after, k) \
                            else f"flaginv:_implied_need:{op}"
            if op == "tick" and ev.get("after_meta") is not None and ev["choice"] is not None:
                vm = M.View(ev["after_meta"])
                k = ev["choice"]
                need = vm.need_spec(k)
                dispatched += 1
                built_optional += vm.steps[k]["need"] == M.OPTIONAL
                ctx.case(("dispatch", repr(ev["after_meta"]), k),
                         bool(vm.snap["targets"] or vm.snap["target_dirs"] or vm.steps[k]["need"] == M.OPTIONAL))
                if not (need > M.OPTIONAL and need > ev["after_meta"]["threshold"]):
                    sig = stale_root.get(k) or p_c10._upstream_root(
                        vm, {("_implied_need", x): s for x, s in stale_root.items()}, k) \
                        or "need:unneeded-step-dispatched"
                    fail(sig, "executed-only-if-needed",
                         f"step {M.label_of(before, k)!r} was dispatched with need_spec = {need}, threshold "
                         f"{ev['after_meta']['threshold']} (cached _implied_need = {vm.steps[k]['ineed']})",
                         {**where, "step": M.label_of(before, k), "need_spec": need, "after_meta": ev["after_meta"]})
            if op == "revert" and before is not None and "rejected" not in ev:
                vb = M.View(before)
                ctx.case(("revert-oracle", repr(before)), any(s["need"] == M.OPTIONAL for s in before["steps"]))
                tbd = {p: kind for p, kind in ev["to_be_deleted"] if not p.endswith("/")}
                files_after = {f["key"]: f for f in after["files"]}
                steps_after = {s["key"]: s for s in after["steps"]}
                exp_queue = {}
                for k, s in vb.steps.items():
                    if s["detached"]:
                        continue
                    opt = vb.need_spec(k) == M.OPTIONAL
                    sa = steps_after[k]
                    if opt and sa["state"] != M.PENDING:
                        sig = stale_root.get(k) or p_c10._upstream_root(
                            vb, {("_implied_need", x): sg for x, sg in stale_root.items()}, k) \
                            or "revert:optional-step-not-reverted"
                        fail(sig, "revert-optional",
                             f"step {s['label']!r} is optional and not needed (need_spec = OPTIONAL, cached "
                             f"_implied_need = {s['ineed']}) but is left in state {sa['state']} by revert_optional_steps",
                             {**where, "step": s["label"], "before": before, "to_be_deleted": ev["to_be_deleted"]})
                    if not opt and sa["state"] != s["state"]:
                        fail("revert:needed-step-reverted", "revert-optional",
                             f"step {s['label']!r} is needed (need_spec = {vb.need_spec(k)}) but was reverted",
                             {**where, "step": s["label"], "before": before})
                    if opt:
                        for f in vb.outputs(k):
                            if f["state"] in (M.FS.BUILT.value, M.FS.OUTDATED.value):
                                exp_queue[f["label"]] = "hash"
                            elif f["state"] == M.FS.VOLATILE.value:
                                exp_queue[f["label"]] = "none"
                if exp_queue != tbd:
                    roots = [stale_root[k] for k in stale_root]
                    sig = roots[0] if roots else "revert:queue-differs"
                    fail(sig, "revert-optional",
                         f"deletion queue {tbd} differs from the outputs of the optional, unneeded steps {exp_queue}",
                         {**where, "before": before, "queue": tbd, "expected": exp_queue})
                for label, kind in tbd.items():
                    f = next((x for x in after["files"] if x["label"] == label), None)
                    if f is not None and kind == "hash" and (f["state"] != M.FS.PLANNED.value or f["hash"]):
                        fail("revert:output-not-reset", "revert-optional",
                             f"queued output {label!r} is left in state {f['state']} hash={f['hash']}",
                             {**where, "file": label, "after": after})
                del files_after
            if op == "tick":
                va = M.View(after)
                keep = set(va.flaginv_need_violations())
                stale_root = {k: v for k, v in stale_root.items() if k in keep}
    ctx.stats["dispatched_steps"] = dispatched
    ctx.stats["dispatched_declared_optional"] = built_optional
    # targeted family: several consumers of different need on one optional output, the higher one drops
    M.run_multi_consumer_family(M.MULTI_VARIANTS, fail,
                                lambda v, obs: ctx.case(("multi-consumer", v[0]), True))
    ctx.count("multi_consumer_cases", len(M.MULTI_VARIANTS))
    # directed family: a run that resumes an unchanged plan with other targets (reconcile_targets alone must flag)
    TG.run_target_resume_family(TG.VARIANTS, fail, lambda v, obs: ctx.case(("target-resume", v[0]), True))
    ctx.count("target_resume_cases", len(TG.VARIANTS))
    if ctx.thorough():
        trng = __import__("random").Random(f"C11-target-resume-{ctx.seed}")
        rv = [TG.random_variant(trng) for _ in range(150)]
        TG.run_target_resume_family(rv, fail, lambda v, obs: ctx.case(("target-resume", repr(v)), True))
        ctx.count("target_resume_cases", len(rv))
    if ctx.thorough():
        for sig, detail, wit in three_build_history():
            fail(sig, "three-build-history", detail, wit)
        ctx.case(("three-build-history",), True)
    # the Coq witness of C11_unneeded_step_dispatched_refuted_for_sink_only_trigger on the real code
    r = run(M.replay_d8(), timeout=60)
    ctx.case(("replay", "d8"), True)
    v1 = M.View(r["phase1_end"])
    stale = [(c, M.label_of(r["phase1_end"], k), a, b) for c, k, a, b in v1.cached_vs_spec()]
    if stale or r["phase2_choice"] == "P" or "f.txt" not in r["to_be_deleted"]:
        fail(SIG_D8, "replay:D8",
             "after C's rerun dropped its amended input f.txt the OPTIONAL step P is needed by nothing, yet at the end "
             f"of the successful unrestricted phase revert_optional_steps queues {r['to_be_deleted']} (f.txt stays), "
             f"and after an edit of P's input the next phase dispatches {r['phase2_choice']!r}",
             {"replay": "D8", "trace": r["trace"], "stale": [list(x) for x in stale],
              "to_be_deleted": r["to_be_deleted"], "phase2_choice": r["phase2_choice"], "before": r["before"]})
    for sig, (name, detail, witness) in fails.items():
        ctx.add_failure("oracle", name, sig, detail, witness=witness)
    ctx.sample({"oracle": "need_spec by definition at every dispatch and at every revert_optional_steps",
                "dispatched": dispatched})


PLAN_PY = """#!/usr/bin/env python3
from stepup.core.api import copy, run, static

static("data.txt", "flag.txt", "work.py")
copy("data.txt", "opt.txt", optional=True)
copy("opt.txt", "c2.txt", optional=True)
run("./work.py", inp=["work.py", "flag.txt"], out="work.out")
"""
WORK_PY = """#!/usr/bin/env python3
from stepup.core.api import amend

with open("flag.txt") as fh:
    use = fh.read().strip() == "use"
if use:
    amend(inp="opt.txt")
with open("work.out", "w") as fh:
    fh.write("done\\n")
"""


def three_build_history():
    """System level (real `stepup build` three times in a temporary directory): an optional copy whose
    output is (1) amended by a DEFAULT step and also the initial input of an OPTIONAL step nothing needs,
    (2) no longer amended, (3) edited input. After (2) the optional output must be removed, (3) must not
    run the optional copy. Returns (signature, detail, witness) triples."""
    import subprocess
    import tempfile
    env = dict(os.environ, PATH="/venv/bin:" + os.environ.get("PATH", ""), PYTHONPATH=str(common.REPO),
               STEPUP_ROOT="", COLUMNS="200")
    env.pop("STEPUP_ROOT")
    out = []
    with tempfile.TemporaryDirectory() as d:
        def write(name, text, mode=0o644):
            path = os.path.join(d, name)
            with open(path, "w") as fh:
                fh.write(text)
            os.chmod(path, mode)

        def build():
            p = subprocess.run(["timeout", "120", "stepup", "build", "-j", "1"], cwd=d, env=env,
                               capture_output=True, text=True)
            return p.returncode, p.stdout + p.stderr

        write("plan.py", PLAN_PY, 0o755)
        write("work.py", WORK_PY, 0o755)
        write("data.txt", "one\n")
        write("flag.txt", "use\n")
        rc1, log1 = build()
        ok1 = rc1 == 0 and os.path.exists(os.path.join(d, "opt.txt")) and not os.path.exists(os.path.join(d, "c2.txt"))
        if not ok1:
            return [("three-build-history:setup", f"first build did not produce the expected files (rc={rc1})",
                     {"log": log1[-1500:]})]
        write("flag.txt", "skip\n")
        rc2, log2 = build()
        if rc2 != 0 or os.path.exists(os.path.join(d, "opt.txt")):
            out.append(("three-build-history:optional-output-not-removed",
                        "after the DEFAULT step stopped amending opt.txt (its other consumer is OPTIONAL and unneeded) a "
                        f"successful unrestricted build (rc={rc2}) leaves opt.txt on disk",
                        {"build": 2, "log": log2[-1500:]}))
        write("data.txt", "two\n")
        rc3, log3 = build()
        if "cp -p data.txt opt.txt" in "\n".join(l for l in log3.splitlines() if "START" in l) \
                or os.path.exists(os.path.join(d, "opt.txt")):
            out.append(("three-build-history:unneeded-optional-step-executed",
                        "after an edit of its input the OPTIONAL copy that nothing needs was executed",
                        {"build": 3, "log": log3[-1500:]}))
    return out


def search(ctx):
    """First the targeted family with random members and the system-level three-build history, then
    more and longer random histories."""
    import random
    found = []
    rng = random.Random(f"C11-search-{ctx.seed}")
    M.run_multi_consumer_family([M.random_multi_variant(rng) for _ in range(60)],
                                lambda sig, name, detail, wit: found.append((sig, name, detail, wit)))
    TG.run_target_resume_family([TG.random_variant(rng) for _ in range(80)],
                                lambda sig, name, detail, wit: found.append((sig, name, detail, wit)))
    for sig, detail, wit in three_build_history():
        found.append((sig, "three-build-history", detail, wit))
    seen = set()
    for sig, name, detail, wit in found:
        if sig not in seen:
            seen.add(sig)
            ctx.add_failure("oracle", name, sig, detail, witness=wit)
    if found:
        return
    ctx._c10_hist = None
    old = ctx.tier
    ctx.tier = "thorough"
    try:
        oracle(ctx)
    finally:
        ctx.tier = old


def replay(ctx, obj):
    w = obj["failure"].get("witness")
    print("replaying", (w or {}).get("replay") or (w or {}).get("op"))
    oracle(ctx)
