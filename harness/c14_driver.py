"""C14 helpers: drive the real Workflow / Watcher / AsyncInotifyWrapper / startup rescan in-process.

Everything here runs the real classes of /repo.  Synchronisation is event driven only:
* real inotify: after a batch of file-system operations a sentinel file is created and removed in
  the (always watched) project root; inotify delivers the events of one instance in order, so once
  the wrapper's change_loop has emitted the sentinel's DELETED item every earlier event has been
  translated;
* synthetic inotify: events are put on an asyncio.Queue that replaces `Inotify.get`; a sentinel
  event plays the same role.
All waits are wrapped in `asyncio.wait_for` so nothing can hang.
"""
from __future__ import annotations

import asyncio
import contextlib
import errno
import json
import os
import shutil
import sqlite3

from path import Path

TIMEOUT = 30.0
INOTIFY_BUDGET = [90.0]     # seconds this process may spend waiting for a free inotify instance


class InotifyUnavailable(Exception):
    pass

SENTINEL = "zz-c14-sentinel"


class Rep:
    """Reporter stand-in that records (tag, label)."""

    def __init__(self):
        self.calls = []

    async def __call__(self, tag, label, pages=None):
        self.calls.append((tag, str(label)))

    def job_started(self, job_i, letter, description):
        pass

    def job_stopped(self, job_i):
        pass

    async def update_progress(self, ndone, ntotal):
        pass

    async def warn_about_logs(self):
        pass


class Stack:
    """Workflow + Scheduler + Executor + Builder + Watcher on one DBSession (as _wire_director)."""

    def __init__(self, db, dir_queue):
        self.db = db
        self.dir_queue = dir_queue
        self.rep = Rep()

    async def init(self):
        from stepup.core.builder import Builder
        from stepup.core.executor import Executor
        from stepup.core.scheduler import Scheduler
        from stepup.core.watcher import Watcher
        from stepup.core.workflow import Workflow
        self.wf = Workflow(self.db, dir_queue=self.dir_queue)
        await self.wf.initialize()
        self.sched = Scheduler(self.wf, db=self.db)
        await self.sched.initialize(None)
        self.executor = Executor(scheduler=self.sched, workflow=self.wf, db=self.db, reporter=self.rep,
                                 explain_rerun=False, keep_going=False, live_progress=False,
                                 write_joblog=False, infra_env={})
        self.builder = Builder(njob=1, scheduler=self.sched, workflow=self.wf, db=self.db,
                               reporter=self.rep, live_progress=False, executor=self.executor)
        self.watcher = Watcher(workflow=self.wf, db=self.db, reporter=self.rep, dir_queue=self.dir_queue,
                               executor=self.executor, hash_queue=self.builder.hash_queue, njob=1)
        return self


@contextlib.contextmanager
def open_stack_db(dbpath):
    from stepup.core.sqlite3 import DBSession
    with DBSession.open(str(dbpath)) as db:
        yield db


def backup_db(db, dst):
    """Copy the (committed) database of an open DBSession to `dst` with the SQLite backup API."""
    out = sqlite3.connect(str(dst))
    try:
        db._con.backup(out)
    finally:
        out.close()


# ---------------------------------------------------------------------------------------------
# Project construction through the Workflow API (same calls as the director handlers make)
# ---------------------------------------------------------------------------------------------


def write_file(path, content):
    with open(path, "w") as fh:
        fh.write(content)


def real_hash(path):
    from stepup.core.hash import FileHash
    return FileHash.unknown().refreshed(path)


async def build_project(st: Stack, spec: dict):
    """Materialise `spec` on disk (cwd = project root) and in the workflow.

    spec = {"dirs": [..], "static": {path: content|None}, "extra": {path: content},
            "steps": [{"cmd", "inp": [..], "out": {path: content}, "state": "SUCCEEDED"|"STALE"|"FAILED"|"PENDING"}],
            "globs": [{"step": cmd or "./plan.py", "pattern": str}], "plan_state": "SUCCEEDED"|"PENDING"}
    """
    from stepup.core.enums import HashUpdateCause, Need, StepState
    from stepup.core.hash import FileHash, StepHash
    from stepup.core.nglob import NamedGlob
    from stepup.core.step import Step
    wf = st.wf
    for d in spec.get("dirs", []):
        os.makedirs(d, exist_ok=True)
    write_file("plan.py", "#!/usr/bin/env python3\n")
    for p, c in list(spec.get("static", {}).items()) + list(spec.get("extra", {}).items()):
        if c is not None:
            os.makedirs(os.path.dirname(p) or ".", exist_ok=True)
            write_file(p, c)
    async with st.db:
        unconf = wf.declare_static_files(wf.root, ["plan.py"])
        wf.update_file_hashes({p: real_hash(p) for p in unconf}, cause=HashUpdateCause.CONFIRMED)
        wf.define_step(wf.root, "./plan.py", inp_paths=["plan.py"], need=Need.PLAN, _safe=True)
        plan = wf.find(Step, "./plan.py")
        plan.set_state(StepState.RUNNING)
        statics = sorted(spec.get("static", {}))
        if statics:
            unconf = wf.declare_static_files(plan, statics)
            wf.update_file_hashes({p: real_hash(p) for p in unconf}, cause=HashUpdateCause.CONFIRMED)
        for s in spec.get("steps", []):
            wf.define_step(plan, s["cmd"], inp_paths=sorted(s.get("inp", [])), out_paths=sorted(s.get("out", {})))
        for g in spec.get("globs", []):
            step = wf.find(Step, g["step"])
            ng = NamedGlob(g["pattern"], {})
            ng.glob()
            wf.register_nglob(step, ng)
        sh = StepHash(b"i" * 32, None, b"o" * 32, None)
        for s in spec.get("steps", []):
            step = wf.find(Step, s["cmd"])
            state = s.get("state", "SUCCEEDED")
            if state == "PENDING":
                continue
            step.set_state(StepState.RUNNING)
            if state in ("SUCCEEDED", "STALE"):
                outs = {}
                for p, c in s.get("out", {}).items():
                    os.makedirs(os.path.dirname(p) or ".", exist_ok=True)
                    write_file(p, c)
                    outs[p] = real_hash(p)
                wf.update_file_hashes(outs, cause=HashUpdateCause.SUCCEEDED)
                step.mark_completed(sh, False)
                if state == "STALE":
                    # succeeded earlier, made pending again since: outputs OUTDATED
                    wf.mark_step_pending(step)
            else:
                step.mark_completed(None, False)
        if spec.get("plan_state", "SUCCEEDED") == "SUCCEEDED":
            plan.mark_completed(sh, False)
        else:
            plan.set_state(StepState.PENDING)


# ---------------------------------------------------------------------------------------------
# File-system operations
# ---------------------------------------------------------------------------------------------


def apply_op(op):
    """One file-system operation (cwd = project root).  Returns False when it was not applicable."""
    kind = op[0]
    try:
        if kind == "write":
            if not os.path.isdir(os.path.dirname(op[1]) or ".") or os.path.isdir(op[1]):
                return False
            write_file(op[1], op[2])
        elif kind == "rm":
            if not os.path.isfile(op[1]):
                return False
            os.remove(op[1])
        elif kind == "mkdir":
            if os.path.exists(op[1]) or not os.path.isdir(os.path.dirname(op[1]) or "."):
                return False
            os.mkdir(op[1])
        elif kind == "rmdir":
            if not os.path.isdir(op[1]) or os.listdir(op[1]):
                return False
            os.rmdir(op[1])
        elif kind == "rmtree":
            if not os.path.isdir(op[1]):
                return False
            shutil.rmtree(op[1])
        elif kind == "mv":
            if not os.path.exists(op[1]) or os.path.exists(op[2]) or not os.path.isdir(os.path.dirname(op[2]) or "."):
                return False
            if os.path.isdir(op[1]) and (op[2] + "/").startswith(op[1] + "/"):
                return False
            os.rename(op[1], op[2])
        else:
            raise ValueError(op)
    except OSError:
        return False
    return True


async def vanish(st: "Stack", path) -> bool:
    """A declared static file disappears while the build phase is still running and the step that uses it
    notices: the file is removed and the executor's reaction is replayed through the Workflow API
    (`_finish_failed_step` / the input validation: `update_file_hashes({path: unknown}, cause=FAILED)`,
    CONFIRMED -> MISSING, hash cleared; recorded glob matches are NOT touched by that path of the code).
    Without a CONFIRMED attached node at the path it is a plain removal.  Returns False when there is no such file."""
    from stepup.core.enums import FileState, HashUpdateCause
    from stepup.core.file import File
    from stepup.core.hash import FileHash
    if not os.path.isfile(path):
        return False
    async with st.db:
        node = st.wf.find_attached(File, path)
        noticed = node is not None and node.get_state() == FileState.CONFIRMED
    os.remove(path)
    if noticed:     # otherwise no step can have been using it: a plain removal
        async with st.db:
            st.wf.update_file_hashes({path: FileHash.unknown()}, cause=HashUpdateCause.FAILED)
    return True


def snapshot_tree(root="."):
    """{relative path: content} for files, {path/: None} for directories (excluding sentinel)."""
    out = {}
    for base, dirs, files in os.walk(root):
        rel = os.path.relpath(base, root)
        for d in dirs:
            out[os.path.normpath(os.path.join(rel, d)) + "/"] = None
        for f in files:
            p = os.path.normpath(os.path.join(rel, f))
            if f.startswith(SENTINEL):
                continue
            with open(os.path.join(base, f)) as fh:
                out[p] = fh.read()
    return out


# ---------------------------------------------------------------------------------------------
# Inotify taps
# ---------------------------------------------------------------------------------------------


class TapInotify:
    """Pass-through proxy of a real Inotify that logs every delivered event."""

    def __init__(self, real):
        self.real = real
        self.log = []

    async def get(self):
        ev = await self.real.get()
        self.log.append((int(ev.mask), str(ev.path)))
        return ev

    def add_watch(self, path, mask):
        return self.real.add_watch(path, mask)

    def rm_watch(self, watch):
        return self.real.rm_watch(watch)

    def close(self):
        return self.real.close()


class FakeWatch:
    def __init__(self, path):
        self.path = path


class FakeEvent:
    def __init__(self, mask, path):
        self.mask = mask
        self.path = path


class FakeInotify:
    """Synthetic inotify: events come from a queue filled by the harness."""

    def __init__(self):
        self.queue = asyncio.Queue()
        self.added = []
        self.removed = []

    async def get(self):
        return await self.queue.get()

    def add_watch(self, path, mask):
        self.added.append(str(path))
        return FakeWatch(str(path))

    def rm_watch(self, watch):
        self.removed.append(watch.path)

    def close(self):
        pass


@contextlib.asynccontextmanager
async def wrapper_ctx(dir_queue, synthetic=False):
    """The real AsyncInotifyWrapper with its inotify object tapped (real) or replaced (synthetic)."""
    from stepup.core.watcher import AsyncInotifyWrapper
    wrapper = AsyncInotifyWrapper(dir_queue=dir_queue)
    # inotify instances are a per-user resource (fs.inotify.max_user_instances, 128 here) shared with
    # every other check running on this box: back off and retry, then give up with InotifyUnavailable
    # (the caller counts the history as skipped; this is resource acquisition, not synchronisation).
    for attempt in range(40):
        try:
            await wrapper.__aenter__()
            break
        except OSError as e:
            if e.errno not in (errno.EMFILE, errno.ENFILE, errno.ENOSPC, errno.ENOMEM):
                raise
            if attempt == 39 or INOTIFY_BUDGET[0] <= 0:
                raise InotifyUnavailable(str(e)) from e
            INOTIFY_BUDGET[0] -= 0.5
            await asyncio.sleep(0.5)
    # The loops were created but have not run yet (no suspension point since create_task).
    if synthetic:
        wrapper.inotify.close()
        wrapper.inotify = FakeInotify()
    else:
        wrapper.inotify = TapInotify(wrapper.inotify)
    try:
        yield wrapper
    finally:
        await asyncio.wait_for(wrapper.__aexit__(None, None, None), TIMEOUT)


async def settle_dir_queue(wrapper):
    """Wait until dir_loop has consumed every queued directory (it handles one item without awaiting)."""
    async def _wait():
        while not wrapper.dir_queue.empty():
            await asyncio.sleep(0)
        for _ in range(3):
            await asyncio.sleep(0)
    await asyncio.wait_for(_wait(), TIMEOUT)


async def drain_real(wrapper, counter=[0]):
    """Real inotify: return the change items emitted for everything done so far."""
    counter[0] += 1
    name = f"{SENTINEL}-{counter[0]}"
    write_file(name, "")
    os.remove(name)
    items = []

    async def _wait():
        while True:
            change, path = await wrapper.change_queue.get()
            if str(path) == name:
                if change.name == "DELETED":
                    return
                continue
            items.append((change.name, str(path)))
    waiter = asyncio.create_task(_wait())
    stopper = asyncio.create_task(wrapper.stop_event.wait())
    try:
        done, _ = await asyncio.wait([waiter, stopper], timeout=TIMEOUT, return_when=asyncio.FIRST_COMPLETED)
        if waiter not in done:
            for t in (wrapper.change_loop_task, wrapper.dir_loop_task):
                if t is not None and t.done() and not t.cancelled() and t.exception() is not None:
                    raise t.exception()
            raise TimeoutError("no sentinel item from change_loop")
        waiter.result()
    finally:
        waiter.cancel()
        stopper.cancel()
    return items


async def drain_fake(wrapper, counter=[0]):
    from asyncinotify import Mask
    counter[0] += 1
    name = f"{SENTINEL}-{counter[0]}"
    wrapper.inotify.queue.put_nowait(FakeEvent(Mask.DELETE, name))
    items = []

    async def _wait():
        while True:
            change, path = await wrapper.change_queue.get()
            if str(path) == name:
                return
            items.append((change.name, str(path)))
    await asyncio.wait_for(_wait(), TIMEOUT)
    return items


async def settle_real(wrapper):
    """Real inotify, after a batch of operations: everything is translated, INCLUDING the IGNORED events that
    `Inotify.rm_watch` makes the kernel queue while change_loop handles the batch (they land behind the first
    sentinel, in front of the second)."""
    items = await drain_real(wrapper)
    items += await drain_real(wrapper)
    return items


def kernel_labels(wrapper):
    """Labels (Watch.path) of the watches the inotify instance holds."""
    ino = getattr(wrapper.inotify, "real", wrapper.inotify)
    return sorted(str(w.path) for w in ino._watches.values())


def watches_dump(wrapper):
    return {str(k): (v is not None) for k, v in sorted(wrapper.watches.items())}


# ---------------------------------------------------------------------------------------------
# The two reactions: watch-phase commit and startup rescan
# ---------------------------------------------------------------------------------------------


async def feed_changes(st: Stack, items, during_build=False):
    """Feed change items to the real Watcher.record_change (one transaction per item, as run_once)."""
    from stepup.core.enums import Change
    for name, path in items:
        async with st.db:
            await st.watcher.record_change(Change[name], Path(path), during_build=during_build)
    return sorted(st.watcher.updated), sorted(st.watcher.deleted)


async def watch_commit(st: Stack, queued=(), items=()):
    """One real watch phase: Watcher.run_once runs as a task; `queued` items are on the change queue
    before it starts (recorded with during_build=True by its drain loop); once it reports
    busy_watching the `items` are queued (recorded by its watch loop); then the body of
    DirectorHandler.start_build_phase: FAILED steps pending, end_watching, wait for the commit.
    """
    from stepup.core.enums import Change, StepState
    w = st.watcher
    q = asyncio.Queue()
    for name, path in queued:
        q.put_nowait((Change[name], Path(path)))
    w.end_watching.clear()
    task = asyncio.create_task(w.run_once(q))
    try:
        await asyncio.wait_for(w.busy_watching.wait(), TIMEOUT)
        for name, path in items:
            q.put_nowait((Change[name], Path(path)))
        async with st.db:
            for step in st.wf.steps(StepState.FAILED):
                st.wf.mark_step_pending(step)
        w.end_watching.set()
        await asyncio.wait_for(task, TIMEOUT)
    finally:
        if not task.done():
            task.cancel()
    if not q.empty():
        raise RuntimeError("harness: the watcher left change items unprocessed")


async def startup_rescan(st: Stack):
    from stepup.core.startup import resume_from_db
    await asyncio.wait_for(resume_from_db(st.wf, st.rep, st.builder), TIMEOUT)


async def dump_graph(st: Stack):
    """Canonical dump: files (attached flag, state, digest, mode, size), steps (state, has hash), nglob rows."""
    from stepup.core.enums import FileState, StepState
    from stepup.core.hash import FileHash
    out = {"files": {}, "steps": {}, "nglobs": [], "detached_files": {}}
    async with st.db:
        sql = "SELECT label, detached, state, hash FROM node JOIN file ON node.i = file.node"
        for label, detached, state, h in st.db.execute(sql):
            fh = FileHash.from_json(h)
            row = [FileState(state).name, fh.digest.hex(), fh.mode, fh.size]
            (out["detached_files"] if detached else out["files"])[label] = row
        sql = ("SELECT label, detached, state, deferred, EXISTS (SELECT 1 FROM step_hash WHERE step_hash.node = node.i) "
               "FROM node JOIN step ON node.i = step.node")
        for label, detached, state, deferred, has_hash in st.db.execute(sql):
            out["steps"][label] = [bool(detached), StepState(state).name, bool(deferred), bool(has_hash)]
        for _i, ng, step in st.wf.nglob_registrations():
            out["nglobs"].append([step.label, ng.pattern, [str(p) for p in ng.files()]])
        out["nglobs"].sort()
    return out


def diff_dumps(a, b):
    """List of (section, key, a value, b value) where the dumps differ (detached files excluded)."""
    out = []
    for sec in ("files", "steps"):
        for k in sorted(set(a[sec]) | set(b[sec])):
            if a[sec].get(k) != b[sec].get(k):
                out.append((sec, k, a[sec].get(k), b[sec].get(k)))
    ga = {(s, p): m for s, p, m in a["nglobs"]}
    gb = {(s, p): m for s, p, m in b["nglobs"]}
    for k in sorted(set(ga) | set(gb)):
        if ga.get(k) != gb.get(k):
            out.append(("nglobs", list(k), ga.get(k), gb.get(k)))
    return out


def run(coro, timeout=120):
    async def _main():
        return await asyncio.wait_for(coro, timeout)
    return asyncio.run(_main())
