"""C06: Cleaning never destroys what StepUp does not own."""
from __future__ import annotations

import contextlib
import io
import os

from path import Path

from . import clean_common as cc
from . import clean_own as co
from . import common
from .wfutil import WF

PID = "C06"
PROPS_FILE = "props/C06.v"
MODEL_TARGETS = ["model/TrellisDD.vo", "model/Clean.vo"]
RULE = ("E1a: random real temporary trees (nested directories, empty and non-empty) with a random to_be_deleted "
        "queue (recorded hash of an unmodified file, of a file overwritten / rewritten with the same content / "
        "replaced by an empty or non-empty directory / deleted afterwards, volatile entries, entries for missing "
        "paths, directory marks made through the real mark_dir_to_be_deleted); the real remove_deletable_files versus "
        "model/Clean.v: resulting tree, REMOVE events for files and for directories in order. "
        "E1b: projects grown through the real Workflow API on a real tree, steps completed with real hashes, "
        "a random subset dropped, user edits (overwrite, same-content rewrite, replace by directory, delete, "
        "neighbour file, adoption as static); the real clean.clean() with random --all/--unsafe/--commit and path "
        "arguments versus the model: resulting tree and whether an exception escaped. "
        "E1c/E2: the same projects through the real Builder.finalize under each guard (targets, incomplete build, "
        "--no-clean, none) versus the model's finalize: tree, events, graph. A case is non-trivial when something "
        "was removed or a guard fired with a non-empty candidate set; distinct by the dumped inputs. "
        "Oracle (no model): nothing outside ever-declared outputs is removed, static and adopted files survive, "
        "modified regular outputs survive, guards are honoured, no directory of an attached static tree is removed. "
        "Plan edits come in 1-3 rounds (a rerun of a creator re-declares each static file with probability 1/2, so "
        "former static files become UNDECLARED inputs that keep their CONFIRMED hash, and lose their consumers in a "
        "later round).  Directed family static-undeclared, every shape on every run, at the Workflow level and through "
        "the real serve(): a file declared static() at plan level ls and read by a step at level lc; the static() "
        "line goes while the consumer is declared again (same / new command / one more input; build incomplete); "
        "then the consumer is dropped, stops using the file, or its sub-plan is dropped.  E3: harness/clean_e3gen.py "
        "(nested sub-plans, static() lines dropped while in use) and harness/e3_gen.py histories with user tampering, "
        "--no-clean and targets: whatever vanishes during a build was written by a step command, is not a source or "
        "script of the project, and is unmodified unless volatile.  "
        "Symbolic links (harness/clean_own.py, lstat snapshots): the same three entry points on trees where outputs were "
        "replaced, between record and cleanup, by different content / same content on a new inode / a link to a user file "
        "with other content / a link to a copy / the file moved away and linked / a link to another output / a dangling "
        "link / a link to itself / a link to a directory / an empty or non-empty directory / nothing; outputs that steps "
        "made as links (to another output sorting before or after, to a static file); volatile outputs; user files and "
        "user links inside directories scheduled for removal.  Oracle (implementation only, runs when the translator "
        "failed): whatever vanished is owned (declared output, not static, selected by this cleanup) and, unless volatile "
        "or --unsafe, reading through the path gave a regular file with exactly the recorded content; nothing else is "
        "altered or created.  E1a/E1b/E1c-links: the link-aware model against the real code on those trees.  serve() level: "
        "a dropped step's output replaced by each shape before the cleaning build (with and without an intermediate "
        "--no-clean build); tampering of e3 histories also replaces outputs by links to user files.  "
        "Phases (clean_own.phases_case): three build phases inside ONE Workflow / Builder (watch mode): build; steps "
        "dropped while removals fail (output replaced by a directory, os.remove failing once by injection); the user "
        "adopts former outputs as static (own content / unchanged); complete build again; directed scenarios A and B in "
        "the root and in a directory, plus random projects.  After every phase the ownership judge runs on that phase's "
        "own graph (what is static when the cleanup starts must survive), to_be_deleted must be empty, and the model "
        "run phase by phase with the queue handed on is compared (E1d-phases).  An exception escaping the code under "
        "test is the outcome of that case (compared with the model, reported with the case as witness), never the end "
        "of the phase; the cleanup functions are called in the transactional context Builder.finalize uses (read from "
        "builder.py).")
TRUSTED_BASE = [
    "Coq 8.16.1 kernel (vm_compute in Examples, generated-table facts and the correspondence evaluation)",
    "Print Assumptions: Closed under the global context for every C06 theorem",
    "translator/gen_clean.py (guard chain and cleanup calls of Builder.finalize, writers of file.state, "
    "_HASH_TRANSITIONS, file_clear_hash WHEN clause, before_delete states, revert SQL, clean.py SELECT_OUTPUTS, "
    "removal call sites and users of to_be_deleted; the kind branching of remove_deletable_files / clean and the "
    "one-loop / two-loop shape read from the AST)",
    "harness/clean_common.py + clean_own.py + clean_e3gen.py + p_c06.py (tree snapshots through FileHash.refreshed, graph dump by SQL, "
    "Gallina printers, scenario generators)",
    "model evaluated inside Coq by vm_compute; no extraction",
]
ASSUMPTIONS = [
    "A-stat: equal (mtime, size, inode, mode) implies equal content (FileHash.refreshed fast path; C13)",
    "A-norm: labels and queued directories are normalised relative paths",
    "to_be_deleted is empty when finalize starts (its only writers are File.before_delete, revert_optional_steps and "
    "mark_dir_to_be_deleted, all called from the cleanup branch of Builder.finalize which ends by clearing it: checked by the translator)",
    "A-links: only the last component of a path is ever a symbolic link (directories on the way are real), link targets "
    "stay inside the project; no concurrent writer during the cleanup itself",
    "file rows in BUILT/OUTDATED carry a hash (CHECK constraint)",
]

D12_SIG = "finalize:removed-dir:attached-static-tree"


def generate(ctx):
    from translator import gen_clean
    text, facts = gen_clean.generate()
    ctx.write_gen("GenClean.v", text)
    ctx.facts = facts
    ctx.stats["finalize_guards"] = facts["guards"]
    ctx.stats["finalize_cleanup_calls"] = facts["calls"]
    ctx.stats["removal_sites"] = facts["removal_sites"]
    ctx.stats["file_state_writers"] = [list(x) for x in facts["sql_writers"]] + [list(x) for x in facts["set_sites"]]


# ---------------------------------------------------------------------------------------------
# E1a: remove_deletable_files on generated trees and queues
# ---------------------------------------------------------------------------------------------

TREE_DIRS = ["", "a/", "a/b/", "a/b/c/", "d/", "d/e/", "z/"]


async def _rdf_case(rng, hids):
    from stepup.core.finalize import remove_deletable_files
    from stepup.core.hash import FileHash
    with cc.project_dir():
        async with WF() as w:
            wf = w.wf
            desc = []
            nfile = rng.randint(1, 7)
            paths = []
            for i in range(nfile):
                p = f"{rng.choice(TREE_DIRS)}f{i}.txt"
                Path(p).parent.makedirs_p() if Path(p).parent != "" else None
                Path(p).write_text(f"content {i} " * rng.randint(1, 3))
                paths.append(p)
            for d in rng.sample(TREE_DIRS[1:], k=rng.randint(0, 3)):
                Path(d).makedirs_p()
            async with w.db:
                for p in paths:
                    r = rng.random()
                    if r < 0.25:
                        continue  # not queued: a user file
                    if r < 0.4:
                        wf.to_be_deleted[p] = None
                        kind = "volatile"
                    else:
                        wf.to_be_deleted[p] = FileHash.unknown().refreshed(p)
                        kind = "hashed"
                    edit = rng.choice(["none", "none", "none", "overwrite", "same", "to-dir", "to-dir-nonempty", "delete"])
                    path = Path(p)
                    if edit == "overwrite":
                        path.write_text("user version, different length " + p)
                    elif edit == "same":
                        c = path.read_text()
                        path.remove()
                        path.write_text(c)
                    elif edit == "to-dir":
                        path.remove()
                        path.mkdir()
                    elif edit == "to-dir-nonempty":
                        path.remove()
                        path.mkdir()
                        (path / "k.txt").write_text("k")
                    elif edit == "delete":
                        path.remove()
                    desc.append([p, kind, edit])
                    if rng.random() < 0.8:
                        wf.mark_dir_to_be_deleted(path.parent)
                if rng.random() < 0.3:
                    wf.to_be_deleted["ghost/none.txt"] = None
                    wf.mark_dir_to_be_deleted("ghost")
                for d in rng.sample(TREE_DIRS[1:] + ["a/b/c/", "."], k=rng.randint(0, 3)):
                    wf.mark_dir_to_be_deleted(d)
            qfiles, qdirs = cc.dump_queue(wf, hids)
            before = cc.snapshot_fs(".", hids)
            client, reporter = cc.make_reporter()
            crash = await cc.call_cleanup(w, "remove_deletable_files", lambda: remove_deletable_files(wf, reporter))
            after = cc.snapshot_fs(".", hids)
            removed = [d for t, d in client.reports if t == "REMOVE"]
            left = dict(wf.to_be_deleted)
    return {"desc": desc, "qfiles": qfiles, "qdirs": sorted(qdirs), "before": before, "after": after,
            "removed": removed, "left": {str(k): str(v) for k, v in left.items()}, "crash": crash}


def _rdf_check(c):
    if c.get("crash"):
        return "false"        # an exception escaped the real function; the model has none
    files = [d for d in c["removed"] if c["before"].get(d) != "dir"]
    dirs = [d for d in c["removed"] if c["before"].get(d) == "dir"]
    return (f"let r := remove_deletable_files {cc.coq_queue(c['qfiles'], c['qdirs'])} {cc.coq_fs(c['before'])} in "
            f"fs_match {cc.coq_fs(c['after'])} (r_fs r) && strs_eqb {cc.coq_strs(files)} (r_files r) && "
            f"strs_eqb {cc.coq_strs(dirs)} (r_dirs r)")


def _rdf_oracle(c):
    """Direct checks of one remove_deletable_files run."""
    out = []
    before, after = c["before"], c["after"]
    for p in before:
        if p in after:
            if before[p] != after[p]:
                out.append(("rdf:altered", f"{p} changed"))
            continue
        if before[p] == "dir":
            continue
        if p not in c["qfiles"]:
            out.append(("rdf:removed-file:not-queued", f"{p} was not in to_be_deleted and was removed"))
        elif c["qfiles"][p] is not None and c["qfiles"][p] != before[p]:
            out.append(("rdf:removed-file:modified-output", f"{p} differs from the recorded hash and was removed"))
    for p in after:
        if p not in before:
            out.append(("rdf:created", f"{p} appeared"))
    if c["left"]:
        out.append(("rdf:queue-not-cleared", f"to_be_deleted after remove_deletable_files: {c['left']}"))
    if c.get("crash"):
        out.append(("rdf:exception:" + c["crash"].split(":")[0], f"remove_deletable_files raised {c['crash']}"))
    return out


# ---------------------------------------------------------------------------------------------
# E1b: the clean tool
# ---------------------------------------------------------------------------------------------


async def _clean_case(rng, hids):
    from stepup.core.clean import clean
    from stepup.core.exceptions import HashError
    res = {}
    with cc.project_dir():
        async with WF() as w:
            Path("plan.py").write_text("#!/usr/bin/env python3\n")
            async with w.db:
                b = cc.Builder(w, rng, disk=True)
                made = b.grow(rng.randint(2, 6))
                b.complete_all(made, fraction=rng.choice([1.0, 0.8]))
                b.outdate_some(made, prob=0.45)
                b.evolve(made)
                edits = cc.user_edits(b, rng, made)
            async with w.db:
                g = cc.dump_graph(w, hids)
            before = cc.snapshot_fs(".", hids)
            contents = {p: Path(p).read_text() for p, e in before.items() if e != "dir"}
            all_, safe, commit = rng.random() < 0.5, rng.random() < 0.7, rng.random() < 0.85
            choices = ["."] + sorted({os.path.dirname(p) for p in b.ever_output if os.path.dirname(p)}) \
                + sorted(b.ever_output)[:3] + sorted(b.statics)[:2]
            r = rng.random()
            hand_edited = sorted(q for q, e in edits.items() if e not in ("neighbour", "adopt-static"))
            if r < 0.4:
                trs = ["."]
            elif r < 0.7 and hand_edited:
                q = rng.choice(hand_edited)
                trs = [q if rng.random() < 0.5 or not os.path.dirname(q) else os.path.dirname(q)]
            else:
                trs = sorted(set(rng.sample(choices, k=min(len(choices), rng.choice([1, 1, 2])))))
            crash = None
            async with w.db:
                try:
                    with contextlib.redirect_stdout(io.StringIO()):
                        clean(w.db, {Path(t) for t in trs}, cc.clean_namespace(all_, safe, commit))
                except Exception as e:  # noqa: BLE001 - HashError / OSError are modelled; anything else is an outcome too
                    crash = f"{type(e).__name__}: {e}"
            after = cc.snapshot_fs(".", hids)
            res = {"graph": g, "before": before, "after": after, "args": [all_, safe, commit], "paths": trs,
                   "crash": crash, "edits": edits, "ever_output": sorted(b.ever_output), "written": dict(b.written),
                   "contents": contents, "log": b.log}
    return res


def _clean_check(c):
    all_, safe, commit = c["args"]
    return (f"let r := clean_tool {cc.coq_graph(c['graph'])} (mkArgs {cc.coq_bool(all_)} {cc.coq_bool(safe)} "
            f"{cc.coq_bool(commit)}) {cc.coq_strs(c['paths'])} {cc.coq_fs(c['before'])} in "
            f"fs_match {cc.coq_fs(c['after'])} (k_fs r) && Bool.eqb (k_crash r) {cc.coq_bool(c['crash'] is not None)}")


def _clean_oracle(c):
    out = []
    all_, safe, commit = c["args"]
    before, after = c["before"], c["after"]
    nodes = cc._nodes_by_path(c["graph"])
    ever = set(c["ever_output"])
    removed = sorted(p for p in before if p not in after)
    if not commit and removed:
        out.append(("clean:removed-without-commit", f"{removed}"))
    for p in after:
        if p not in before or before[p] != after[p]:
            out.append(("clean:created-or-altered", p))
    for p in removed:
        if before[p] == "dir":
            continue
        n = nodes.get(p)
        if p not in ever:
            out.append(("clean:removed-file:never-declared-output", f"{p}"))
        elif n is None or n["fstate"] in cc.STATIC_STATES or c["edits"].get(p) == "adopt-static":
            out.append(("clean:removed-file:static-or-unknown", f"{p}"))
        elif n["fstate"] == cc.VOLATILE:
            pass
        elif safe and c["contents"].get(p) != c["written"].get(p):
            out.append(("clean:removed-file:modified-output", f"{p} was modified and removed without --unsafe"))
        if n is not None and not all_ and not n["det"]:
            out.append(("clean:removed-file:attached-without-all", f"{p}"))
    return out


# ---------------------------------------------------------------------------------------------
# E1c/E2 + oracle: Builder.finalize on real trees
# ---------------------------------------------------------------------------------------------

GUARDS = ["none", "none", "none", "targets", "incomplete", "no-clean", "none", "target_dirs"]


async def _directed_cases(ctx):
    """Every shape of the static-undeclared family (a former static file loses its declaration while a step still
    reads it, then loses the consumer); variants rotate with the seed."""
    out = []
    for j, shape in enumerate(cc.undeclared_shapes(ctx.scale(2, 3))):
        for rep in range(ctx.scale(1, 3)):
            with cc.project_dir():
                k = 3 * (j + ctx.seed) + rep + (j + ctx.seed) // 3
                w = cc.undeclared_witness(*shape, k)
                r = await cc.disk_case(ctx.rng, "none", cc.HashIds(), witness=w, quiet=k % 4 != 0)
                r["directed"] = w.info
                out.append(r)
    return out


async def _finalize_cases(ctx, n, directed=True):
    out = await _directed_cases(ctx) if directed else []
    for k in range(n):
        hids = cc.HashIds()
        guard = GUARDS[k % len(GUARDS)]
        with cc.project_dir():
            out.append(await cc.disk_case(ctx.rng, guard, hids))
    return out


def d12_witness(b):
    """The history reported as D12: a static tree whose only used file the user deleted."""
    from stepup.core.enums import HashUpdateCause
    from stepup.core.hash import FileHash
    plan = b.w.plan
    Path("data").makedirs_p()
    Path("data/d1.txt").write_text("d1")
    b.wf.register_static_tree(plan, "data/")
    to_check = b.wf.define_step(plan, "t", inp_paths=["data/d1.txt"], out_paths=["o.txt"])
    b.wf.update_file_hashes({q: b.hash_of(q) for q in to_check}, cause=HashUpdateCause.CONFIRMED)
    b.ever_output.add("o.txt")
    step = b.find_step("t")
    b.complete(step)
    # second plan: only static("data/"); the user deleted data/d1.txt
    plan.reset_for_rerun()
    Path("data/d1.txt").remove()
    to_check = b.wf.register_static_tree(plan, "data/")
    b.wf.update_file_hashes({q: FileHash.unknown().refreshed(q) for q in to_check}, cause=HashUpdateCause.CONFIRMED)
    b.log += [["tree", "data/"], ["step", "t", ["data/d1.txt"], ["o.txt"]], ["complete", "t"],
              ["reset_for_rerun", "./plan.py"], ["user-deletes", "data/d1.txt"], ["tree", "data/"]]
    return ["t"]


async def _d12_case():
    import random
    hids = cc.HashIds()
    with cc.project_dir():
        return await cc.disk_case(random.Random(0), "none", hids, witness=d12_witness)


def _report(ctx, kind, name, sig, detail, witness):
    ctx.add_failure(kind, name, sig, detail, witness=witness)


def _wit(res):
    return {"directed": res.get("directed"), "operations": res["log"], "guard": res["guard"], "returncode": res["returncode"],
            "tree_before": res["before_fs"], "tree_after": res["after_fs"], "events": res["events"][-12:],
            "edits": res["edits"]}


def _model_cases(ctx, name, checks, chunk):
    """Evaluate the model side.  The implementation side and the oracles do not depend on it: when coq/gen is stale
    or missing because the translator failed closed, the failure to evaluate is reported and the run goes on."""
    try:
        return common.run_cases(ctx, name, cc.HEADER, checks, chunk=chunk)
    except RuntimeError as e:
        if not ctx.failures:
            raise
        ctx.notes.append(f"model side of {name} not evaluated (an obligation is already broken): {str(e)[:200]}")
        return []


def correspondence(ctx):
    rng = ctx.rng
    # implementation side of the three families first (they feed the oracle whatever happens to the model side)
    cases = []

    async def run_rdf(n):
        for _ in range(n):
            cases.append(await _rdf_case(rng, cc.HashIds()))
    cc.run(run_rdf(ctx.scale(100, 1500)))
    ctx.rdf_cases = cases
    cl = []

    async def run_clean(n):
        for _ in range(n):
            cl.append(await _clean_case(rng, cc.HashIds()))
    cc.run(run_clean(ctx.scale(60, 600)))
    ctx.clean_cases = cl
    fin = cc.run(_finalize_cases(ctx, ctx.scale(60, 600)))
    ctx.fin_cases = fin
    # the same three entry points on trees with symbolic links (harness/clean_own.py); judged by the oracle
    own = co.generate_families(ctx, ctx.scale(40, 400), ctx.scale(20, 200), ctx.scale(20, 200))
    ctx.own_cases = own
    # several build phases of one director (one Workflow, one Builder): removals that fail, adoption as static
    ctx.phase_cases = co.generate_phases(ctx, ctx.scale(6, 60))
    co.judge_phases(ctx, ctx.phase_cases)      # the property itself, before any comparison with the model
    ctx.phases_judged = True
    # E1a
    checks = [_rdf_check(c) for c in cases]
    for c in cases:
        ctx.case(("rdf", repr(c["before"]), repr(c["qfiles"]), repr(c["qdirs"])), bool(c["removed"]))
        ctx.count("rdf_removed_paths", len(c["removed"]))
        ctx.count("rdf_kept_queued_files", sum(1 for p in c["qfiles"] if p in c["after"]))
        ctx.count("rdf_kept_dirs", sum(1 for d in c["qdirs"] if d in c["after"]))
    ctx.sample({"E1a": {k: cases[0][k] for k in ("desc", "qdirs", "removed")}})
    bad = _model_cases(ctx, "rdf", checks, 100)
    ctx.traces_validated += len(checks) - len(bad)
    ctx.count("E1a_cases", len(checks))
    for i in bad[:3]:
        c = cases[i]
        _report(ctx, "correspondence", "E1a:remove_deletable_files", "E1a:remove_deletable_files:model-differs",
                "real remove_deletable_files and model/Clean.v disagree on the resulting tree or the REMOVE events",
                {k: c.get(k) for k in ("desc", "qfiles", "qdirs", "before", "after", "removed", "crash")})
    # E1b
    checks = [_clean_check(c) for c in cl]
    for c in cl:
        nrem = sum(1 for p in c["before"] if p not in c["after"])
        ctx.case(("clean", repr(c["graph"]), repr(c["args"]), repr(c["paths"]), repr(c["before"])), nrem > 0 or c["crash"] is not None)
        ctx.count("clean_removed_paths", nrem)
        ctx.count("clean_crashes", int(c["crash"] is not None))
        nodes = cc._nodes_by_path(c["graph"])
        for q, e in c["edits"].items():
            st = nodes.get(q, {}).get("fstate")
            if st in (15, 17, 18) and e in ("overwrite", "to-dir", "to-dir-nonempty", "rewrite-same"):
                ctx.count({15: "clean_edited_PLANNED_leftover", 17: "clean_edited_OUTDATED", 18: "clean_edited_VOLATILE"}[st], 1)
                sel = any(t == "." or q == t or q.startswith(t + "/") for t in c["paths"]) and (c["args"][0] or nodes[q]["det"])
                if st == 17 and sel and c["args"][2]:
                    ctx.count("clean_edited_OUTDATED_selected_commit_" + ("safe" if c["args"][1] else "unsafe"), 1)
    ctx.sample({"E1b": {"args": cl[0]["args"], "paths": cl[0]["paths"], "crash": cl[0]["crash"], "edits": cl[0]["edits"]}})
    bad = _model_cases(ctx, "clean", checks, 40)
    ctx.traces_validated += len(checks) - len(bad)
    ctx.count("E1b_cases", len(checks))
    for i in bad[:3]:
        c = cl[i]
        _report(ctx, "correspondence", "E1b:clean", "E1b:clean:model-differs",
                "real clean.clean() and model/Clean.v disagree on the resulting tree or on a raised exception",
                {k: c[k] for k in ("log", "args", "paths", "before", "after", "crash", "edits")})
    # E1c / E2
    checks = [cc.finalize_check(r) for r in fin]
    for r in fin:
        nrem = sum(1 for p in r["before_fs"] if p not in r["after_fs"])
        ctx.case(("fin", repr(r["before_graph"]), repr(r["before_fs"]), r["guard"]), nrem > 0 or cc.guarded(r))
        ctx.count("finalize_removed_paths", nrem)
        ctx.count(f"finalize_guard_{r['guard']}", 1)
        ctx.count("directed_static_undeclared_cases", int("directed" in r))
        ctx.count("finalize_actually_guarded", int(cc.guarded(r)))
    ctx.sample({"E1c": {"guard": fin[0]["guard"], "rc": fin[0]["returncode"], "removed": fin[0]["removed_events"],
                        "edits": fin[0]["edits"]}})
    bad = _model_cases(ctx, "fin", checks, 30)
    ctx.traces_validated += len(checks) - len(bad)
    ctx.count("E1c_cases", len(checks))
    for i in bad[:3]:
        _report(ctx, "correspondence", "E1c:finalize", "E1c:finalize:model-differs",
                "real Builder.finalize and the model's finalize disagree on tree, REMOVE events or graph", _wit(fin[i]))
    _own_correspondence(ctx, own)


def _own_correspondence(ctx, own):
    """The link-aware model against the real code on the trees with symbolic links (one Coq evaluation for the
    three families)."""
    fams = [("rdf", "E1a-links:remove_deletable_files", co.rdf_model_check, co.rdf_witness),
            ("clean", "E1b-links:clean", co.clean_model_check, co.clean_witness),
            ("fin", "E1c-links:finalize", cc.finalize_check, co.finalize_witness)]
    checks, origin = [], []
    for key, name, check, wit in fams:
        cases = [c for c in own[key] if co.model_ok(c["before"]) and co.honest_stat(c)]
        ctx.count(f"{name.split(':')[0]}_cases", len(cases))
        ctx.count(f"{name.split(':')[0]}_outside_model_assumptions", len(own[key]) - len(cases))
        for c in cases:
            checks.append(check(c))
            origin.append((name, wit, c))
    phases = [c for c in getattr(ctx, "phase_cases", []) if co.phases_modelled(c)]
    ctx.count("E1d-phases_cases", len(phases))
    for c in phases:
        checks.append(co.phases_model_check(c))
        origin.append(("E1d-phases:finalize-per-phase", co.phases_witness, c))
    bad = _model_cases(ctx, "own", checks, 100)
    ctx.traces_validated += len(checks) - len(bad)
    reported = {}
    for i in bad:
        name, wit, c = origin[i]
        reported[name] = reported.get(name, 0) + 1
        if reported[name] <= 3:
            _report(ctx, "correspondence", name, name + ":model-differs",
                    "the real code and model/Clean.v disagree on a tree with symbolic links (resulting tree, REMOVE events, "
                    "graph or escaping exception)", wit(c))


def oracle(ctx):
    seen = set()

    def emit(name, sig, detail, witness):
        if sig in seen:
            return
        seen.add(sig)
        _report(ctx, "oracle", name, sig, detail, witness)
    # ownership with symbolic links, implementation only (harness/clean_own.py): remove_deletable_files on hand-made
    # queues, Builder.finalize and clean.clean() on projects grown through the Workflow API, the real serve()
    co.run_families(ctx, ctx.scale(40, 400), ctx.scale(20, 200), ctx.scale(20, 200), c06=True,
                    res=getattr(ctx, "own_cases", None))
    # a directory on the way to an output replaced by a link to the user's copy of the results (directed, every run)
    co.run_parent_links(ctx)
    if not getattr(ctx, "phases_judged", False):
        co.judge_phases(ctx, co.generate_phases(ctx, ctx.scale(6, 60)))
    if cc.e3_available():
        co.run_e3_replace(ctx, ctx.scale(8, 52), c06=True)
    for c in getattr(ctx, "rdf_cases", []):
        for sig, detail in _rdf_oracle(c):
            emit("remove_deletable_files", sig, detail, {k: c[k] for k in ("desc", "qfiles", "qdirs", "before", "after")})
    for c in getattr(ctx, "clean_cases", []):
        for sig, detail in _clean_oracle(c):
            emit("clean", "oracle:" + sig, detail, {k: c[k] for k in ("log", "args", "paths", "before", "after", "edits")})
    fin = getattr(ctx, "fin_cases", None)
    if fin is None:
        fin = cc.run(_finalize_cases(ctx, ctx.scale(60, 600)))
    for r in fin:
        for sig, detail in cc.oracle_c06(r):
            emit("finalize", "oracle:" + sig, detail, _wit(r))
    # replay of the recorded witness D12 (static tree root removed)
    r = cc.run(_d12_case())
    ctx.case(("d12",), True)
    ctx.count("d12_replayed", 1)
    for sig, detail in cc.oracle_c06(r):
        emit("finalize:D12", "oracle:" + sig, detail, _wit(r))
    # E3 part: generated histories through the real serve()
    if cc.e3_available():
        stats = {}
        recs = cc.e3_directed("static-undeclared", ctx.seed, 2, full=ctx.tier != "quick")
        recs += cc.e3_histories(ctx.rng, ctx.scale(10, 120), 5000 + 1000 * ctx.seed, family="nested", stats=stats)
        recs += cc.e3_histories(ctx.rng, ctx.scale(6, 75), 5000 + 1000 * ctx.seed)
        for key, v in sorted(stats.items()):
            ctx.count("e3_nested_gen_" + key, v)
        for rec in recs:
            if "error" in rec:
                ctx.count("e3_harness_errors", 1)
                ctx.notes.append(f"e3 {rec['family']} seed {rec['seed']} phase {rec['phase']}: {rec['error'][:160]}")
                continue
            nrem = sum(1 for p in rec["before_files"] if p not in rec["after_files"])
            ctx.case(("e3", rec["family"], rec["seed"], rec["phase"]), nrem > 0)
            ctx.count("e3_builds", 1)
            ctx.count(f"e3_builds_{rec['family']}", 1)
            ctx.count("e3_undeclared_nodes_with_hash", sum(
                1 for k, v in rec["graph"].items() if k.startswith("(file:") and v["props"].get("state") == ["UNDECLARED"]
                and "digest" in v["props"]))
            ctx.count("e3_removed_files", nrem)
            ctx.count("e3_tampered_files", len(rec["tampered"]))
            for sig, detail in cc.e3_oracle_c06(rec):
                emit("e3", sig, detail, cc.e3_witness(rec))
    else:
        ctx.notes.append("harness/e3.py not importable: E3 part skipped")
    ctx.sample({"oracle": "nothing outside ever-declared outputs removed; modified outputs, static and adopted files survive; "
                          "guards honoured; no directory of an attached static tree removed", "signatures": sorted(seen)})


def search(ctx):
    """An obligation broke and nothing above produced a witness: the implementation-only families at ten times the
    scale (every shape of user replacement, links made by steps, all three cleanup entry points, serve()), then
    more finalize cases of the Workflow-level generator."""
    co.run_families(ctx, 600, 300, 300, c06=True, suffix=":search")
    co.judge_phases(ctx, co.generate_phases(ctx, 100), suffix=":search")
    if cc.e3_available():
        co.run_e3_replace(ctx, 52, c06=True, suffix=":search")
    seen = set()
    fin = cc.run(_finalize_cases(ctx, 300))
    for r in fin:
        for sig, detail in cc.oracle_c06(r):
            if sig not in seen:
                seen.add(sig)
                _report(ctx, "oracle", "finalize", "oracle:" + sig + ":search", detail, _wit(r))


def replay(ctx, obj):
    print("replaying", str(obj["failure"].get("witness"))[:2000])
    correspondence(ctx)
    oracle(ctx)
