"""C04, E2 level: drive the real Workflow + Scheduler to the end of a build phase, finalize it with
the real revert_optional_steps + delete_detached, and then apply the real startup / watch-commit
transactions with unchanged inputs.

The generated prefix is the shared E2 generator (harness/e2.py: declarations, completions, failures,
external changes, crashes).  The *drain* that follows completes every dispatched job successfully
until the real Scheduler.pop_next_job has nothing left.  When the phase would be reported as
successful (no attached FAILED step, empty pending universe) the finalize transactions are applied
and the resulting state is the "quiescent" state q of the theorems.
"""
from __future__ import annotations

import asyncio

from stepup.core.enums import FileState, Need, StepState

from .common import coq_bool, coq_list, coq_str
from .e2 import Gen as _E2Gen
from .e2 import Impl as _E2Impl
from .e2 import classify as _classify


class _NullReporter:
    async def __call__(self, *a, **k):
        return None


class Drive(_E2Gen):
    """e2.Gen plus a drain phase, finalize, and a no-change restart."""

    def __init__(self, rng, impl, length):
        super().__init__(rng, impl, length)
        self.dispatches = []     # (index of the pre-state in self.trace, label)
        self.marks = {}

    async def record(self, op):
        """Only transactions of the base alphabet of model/Graph.v are issued: this check's traces stay
        free of static trees (on tree-free states the tree-aware model of C09 coincides with Graph.v).
        Whatever else the shared generator proposes (register_tree, ...) is dropped before it reaches
        the implementation."""
        if op[0] not in BASE_OPS:
            self.opcount["dropped:" + op[0]] = self.opcount.get("dropped:" + op[0], 0) + 1
            return "dropped"
        return await super().record(op)

    async def g_dispatch(self):
        n0 = len(self.trace)
        await super().g_dispatch()
        if len(self.trace) > n0 and self.trace[-1][0][0] == "dispatch":
            self.dispatches.append((n0 - 1, self.trace[-1][0][1]))

    # -- the real finalize transactions -------------------------------------------------------
    async def revert_optional(self):
        from stepup.core.finalize import revert_optional_steps
        try:
            await revert_optional_steps(self.impl.wf, _NullReporter())
            outcome, detail = "ok", ""
        except Exception as e:  # noqa: BLE001
            outcome, detail = _classify(e), f"{type(e).__name__}: {e}"
        d = await self.snapshot()
        self.trace.append((("revert_optional",), outcome, detail, d))
        return outcome

    async def build_verdict(self):
        """What report_unbuilt looks at: attached FAILED steps and the pending universe."""
        db = self.impl.db
        async with db:
            failed = db.execute(
                "SELECT COUNT(*) FROM step JOIN node ON node.i = step.node "
                "WHERE NOT node.detached AND step.state = ?", (StepState.FAILED.value,)).fetchone()[0]
            pending = db.execute(
                "SELECT COUNT(*) FROM step JOIN node ON node.i = step.node "
                "WHERE NOT node.detached AND step.state = ? AND step._implied_need > ?",
                (StepState.PENDING.value, Need.OPTIONAL.value)).fetchone()[0]
            busy = db.execute(
                "SELECT COUNT(*) FROM step WHERE state IN (?, ?)",
                (StepState.RUNNING.value, StepState.CHECKING.value)).fetchone()[0]
        return failed, pending, busy

    async def finish_jobs(self):
        """Complete every job in flight successfully."""
        for label, phase in sorted(self.jobs.items()):
            if phase == "run0":
                await self.record(("reset_for_rerun", label))
                self.jobs[label] = "run"
        for label, phase in sorted(self.jobs.items()):
            await self.snapshot()
            if phase in ("run", "check"):
                outs = self.outputs_of(label)
                hs = tuple((p, self.newhash()) for p in outs
                           if self.fstate[p] in (FileState.PLANNED.value, FileState.OUTDATED.value))
                await self.record(("exec_end", label, (), "SUCCEEDED", hs, True, False))
            else:
                await self.record(("reset_to_pending", label))
        self.jobs.clear()

    async def confirm_all(self):
        await self.snapshot()
        unconf = sorted(l for l, s in self.fstate.items() if s == FileState.UNCONFIRMED.value
                        and not self.detached.get(("file", l), True))
        for p in unconf:
            await self.record(("update_hashes", "CONFIRMED", ((p, self.newhash()),)))

    async def drain(self, max_rounds=60):
        await self.finish_jobs()
        for _ in range(max_rounds):
            await self.confirm_all()
            n0 = len(self.dispatches)
            await self.g_dispatch()
            if len(self.dispatches) == n0:
                if self.trace and self.trace[-1][0][0] == "dispatch_error":
                    return False
                return True
            await self.finish_jobs()
        return False

    async def optional_scenario(self):
        """An OPTIONAL step that was needed and built, and is no longer needed at the end of the phase: the plan
        defines u (-> fu, OPTIONAL) and c (fu -> fc); both run; the plan is rerun and declares u again but not c.
        The finalize then has something to revert (a SUCCEEDED step with a BUILT output), and the next rebuild
        starts from a quiescent state with an idle optional step."""
        from .e2 import FILES, STEPS
        rng = self.rng
        plan = "./plan.py"
        await self.finish_jobs()
        await self.snapshot()
        if self.detached.get(("step", plan), True):
            return
        free_files = [f for f in FILES[:8] if self.detached.get(("file", f), True)]
        free_steps = [s for s in STEPS if self.detached.get(("step", s), True)]
        if len(free_files) < 2 or len(free_steps) < 2:
            return
        fu, fc = rng.sample(free_files, 2)
        u, c = rng.sample(free_steps, 2)
        spec_u = ((), (), (fu,), (), "OPTIONAL")
        spec_c = ((fu,), (), (fc,), (), "DEFAULT")
        if self.sstate.get(plan) != StepState.PENDING.value:
            await self.record(("mark_step_pending", plan))
        if not await self.run_to_running(plan):
            return
        ok_u = await self.record(("define_step", ("step", plan), u, *spec_u)) == "ok"
        ok_c = ok_u and await self.record(("define_step", ("step", plan), c, *spec_c)) == "ok"
        self.jobs.pop(plan, None)
        await self.record(("exec_end", plan, (), "SUCCEEDED", (), True, False))
        if not ok_c:
            return
        self.defs[u], self.defs[c] = spec_u, spec_c
        for lab in (u, c):
            if not await self.run_to_running(lab):
                return
            self.jobs.pop(lab, None)
            await self.record(("exec_end", lab, (), "SUCCEEDED", self.success_hashes(lab), True, False))
        await self.record(("mark_step_pending", plan))
        if not await self.run_to_running(plan):
            return
        await self.record(("define_step", ("step", plan), u, *spec_u))
        self.jobs.pop(plan, None)
        await self.record(("exec_end", plan, (), "SUCCEEDED", (), True, False))
        self.opcount["optional_scenario"] = self.opcount.get("optional_scenario", 0) + 1

    async def run_c04(self):
        await self.run()
        if self.rng.random() < 0.5:
            await self.optional_scenario()
        self.marks["prefix"] = len(self.trace)
        done = await self.drain()
        self.marks["drained"] = len(self.trace)
        failed, pending, busy = await self.build_verdict()
        self.marks["verdict"] = (failed, pending, busy, done)
        if not done or failed or pending or busy:
            return False
        # successful phase: finalize
        if await self.revert_optional() != "ok":
            return False
        if await self.record(("delete_detached",)) != "ok":
            return False
        self.marks["q"] = len(self.trace)
        q = self.trace[-1][3]
        # restart with nothing changed: reset_interrupted is the only transaction that is issued
        await self.record(("reset_interrupted",))
        after_startup = self.trace[-1][3]
        r = await self.impl.dispatch()
        self.marks["restart_dispatch"] = r
        after_dispatch = await self.snapshot()
        # second finalize
        await self.revert_optional()
        await self.record(("delete_detached",))
        after_finalize = self.trace[-1][3]
        self.marks["dumps"] = (q, after_startup, after_dispatch, after_finalize)
        # edit source files: EXTERNAL re-hash results for attached CONFIRMED / MISSING files
        await self.snapshot()
        cand = sorted(l for l, st in self.fstate.items()
                      if st in (FileState.CONFIRMED.value, FileState.MISSING.value)
                      and not self.detached.get(("file", l), True))
        if cand:
            # prefer sources that an attached step consumes: the rebuild then has something to do
            consumed = sorted({a[1] for a, b, _dy in self.d["deps"] if a[0] == "file" and a[1] in cand
                               and b[0] == "step" and not self.detached.get(tuple(b), True)})
            if consumed and self.rng.random() < 0.85:
                cand = consumed
            pick = self.subset(cand, 1, 2)
            hs = []
            for p in pick:
                if self.fstate[p] == FileState.MISSING.value:
                    hs.append((p, self.newhash()))
                else:
                    hs.append((p, self.rng.choice([None, self.newhash(), self.newhash()])))
            pre = self.d
            n_edit = len(self.trace)
            await self.record(("update_hashes", "EXTERNAL", tuple(hs)))
            self.marks["edit"] = (tuple(hs), pre, self.trace[-1][3], self.trace[-1][1])
            if self.trace[-1][1] == "ok":
                await self.rebuild()
                self.marks["rebuild"] = (n_edit, len(self.trace))
        return True

    # -- the rebuild after the edit -------------------------------------------------------------
    async def rb_end(self, label):
        """A job ends (success, failure, deferral).  No input changes while the command runs: the scenario
        of the property is "edit source files, then rebuild"."""
        rng = self.rng
        outs = self.outputs_of(label)
        r = rng.random()
        if r < 0.65:
            op = ("exec_end", label, (), "SUCCEEDED", self.success_hashes(label), True, False)
        elif r < 0.85:
            hs = tuple((p, rng.choice([None, self.newhash()])) for p in outs if rng.random() < 0.7)
            op = ("exec_end", label, (), "FAILED", hs, False, False)
        else:
            hs = tuple((p, rng.choice([None, self.newhash()])) for p in outs if rng.random() < 0.5)
            op = ("exec_end", label, (), "FAILED", hs, False, True)
        self.jobs.pop(label, None)
        await self.record(op)

    async def rb_skip(self, label):
        self.jobs.pop(label, None)
        if self.rng.random() < 0.5:
            await self.record(("exec_end", label, (), "SUCCEEDED", self.success_hashes(label), True, False))
        else:
            await self.record(("reset_to_pending", label))

    async def rb_begin(self, label):
        await self.record(("reset_for_rerun", label))
        self.jobs[label] = "run"

    async def rebuild(self, max_actions=45):
        """The transactions of a rebuild after the edit, as the executor and the director issue them: the
        real scheduler dispatches; a dispatched job is checked (skip or not) or run; a running step
        declares static files, defines (new, changed, identical = recycled) and amends steps; jobs end
        successfully, with a failure or deferred; declared static files are confirmed."""
        rng = self.rng
        idle = 0
        for _ in range(max_actions):
            await self.snapshot()
            running = self.running()
            run0 = [l for l, p in self.jobs.items() if p == "run0"]
            checks = [l for l, p in self.jobs.items() if p == "check"]
            validates = [l for l, p in self.jobs.items() if p == "validate"]
            unconf = [l for l, s in self.fstate.items() if s == FileState.UNCONFIRMED.value
                      and not self.detached.get(("file", l), True)]
            cats = [("g_dispatch", 10, [()])]
            if run0:
                cats.append(("rb_begin", 16, [(l,) for l in run0]))
            if running:
                r = [(l,) for l in running]
                cats += [("g_declare", 5, r), ("g_define", 12, r), ("g_amend", 6, r), ("rb_end", 14, r),
                         ("g_hold", 1, r), ("g_release", 1, r)]
                if any(self.detached.get(("step", l), False) and l in self.sstate for l in self.defs):
                    cats.append(("g_redefine", 14, r))
            if checks:
                cats.append(("rb_skip", 14, [(l,) for l in checks]))
            if validates:
                cats.append(("g_validate", 12, [(l,) for l in validates]))
            if unconf:
                cats.append(("confirm_all", 12, [()]))
            name, _, args = rng.choices(cats, weights=[c[1] for c in cats])[0]
            n0 = len(self.trace)
            await getattr(self, name)(*rng.choice(args))
            if len(self.trace) == n0 and not self.jobs and not unconf:
                idle += 1
                if idle >= 2:
                    break
            else:
                idle = 0
        await self.finish_jobs()


# ---------------------------------------------------------------------------------------------
# Gallina printing (xop alphabet of model/Noop.v)
# ---------------------------------------------------------------------------------------------


# The printers below are private copies on purpose: harness/e2.py is owned by C09 and its printers
# follow the tree-aware alphabet (OpBase / OpRegisterTree of model/GraphTree.v); this check speaks
# the plain alphabet of model/Graph.v wrapped in the xop type of model/Noop.v.
KIND = {"root": "KRoot", "file": "KFile", "step": "KStep", "st": "KTree"}
NEEDC = {"OPTIONAL": "NOptional", "DEFAULT": "NDefault", "PLAN": "NPlan"}
CAUSEC = {"EXTERNAL": "CExternal", "SUCCEEDED": "CSucceeded", "FAILED": "CFailed", "CONFIRMED": "CConfirmed"}
OUTC = {"ok": "OOk", "usage": "OUsage", "internal": "OInternal", "hang": "OInternal"}
BASE_OPS = ("declare_static", "update_hashes", "define_step", "amend_step", "dispatch", "reset_for_rerun",
            "exec_end", "reset_to_pending", "validate_pending", "mark_step_pending", "delete_detached",
            "hold", "release", "reset_interrupted", "revert_optional", "dispatch_error")


def cq_key(k):
    return f"({KIND[k[0]]}, {coq_str(k[1])})"


def cq_strs(xs):
    return coq_list([coq_str(x) for x in xs])


def cq_hs(hs):
    return coq_list([f"({coq_str(p)}, {'None' if h is None else f'Some {h}'})" for p, h in hs])


def cq_base_op(op):
    n = op[0]
    if n == "declare_static":
        return f"OpDeclareStatic {cq_key(op[1])} {cq_strs(sorted(set(op[2])))}"
    if n == "update_hashes":
        return f"OpUpdateHashes {CAUSEC[op[1]]} {cq_hs(sorted(op[2]))}"
    if n == "define_step":
        _, c, l, i, e, o, v, nd = op
        return f"OpDefineStep {cq_key(c)} {coq_str(l)} {cq_strs(i)} {cq_strs(e)} {cq_strs(o)} {cq_strs(v)} {NEEDC[nd]}"
    if n == "amend_step":
        _, l, i, e, o, v = op
        return f"OpAmendStep {coq_str(l)} {cq_strs(i)} {cq_strs(e)} {cq_strs(o)} {cq_strs(v)}"
    if n == "dispatch":
        return f"OpDispatch {coq_str(op[1])}"
    if n == "reset_for_rerun":
        return f"OpResetForRerun {coq_str(op[1])}"
    if n == "exec_end":
        _, l, pre, cause, hs, ok, wd = op
        return (f"OpExecEnd {coq_str(l)} {cq_hs(sorted(pre))} {CAUSEC[cause]} {cq_hs(sorted(hs))} "
                f"{coq_bool(ok)} {coq_bool(wd)}")
    if n == "reset_to_pending":
        return f"OpResetToPending {coq_str(op[1])}"
    if n == "validate_pending":
        return f"OpValidatePending {coq_str(op[1])}"
    if n == "mark_step_pending":
        return f"OpMarkStepPending {coq_str(op[1])}"
    if n == "delete_detached":
        return "OpDeleteDetached"
    if n == "hold":
        return f"OpHold {coq_str(op[1])}"
    if n == "release":
        return f"OpRelease {coq_str(op[1])}"
    if n == "reset_interrupted":
        return "OpResetInterrupted"
    raise AssertionError(f"operation outside the alphabet of model/Graph.v: {n}")


def cq_dump(d):
    def okey(k):
        return "None" if k is None else f"(Some {cq_key(k)})"

    def hid(h):
        if h is None:
            return "None"
        if h == "U":
            return "(Some 0)"
        if h == "?":
            return "(Some 999999)"
        return f"(Some {h})"
    nodes = coq_list([f"({cq_key(k)}, {okey(c)}, {coq_bool(det)})" for k, c, det in d["nodes"]])
    files = coq_list([f"({coq_str(l)}, {s}, {hid(h)})" for l, s, h in d["files"]])
    steps = coq_list([f"({coq_str(l)}, {s}, {nd}, {coq_bool(df)}, {dc}, {ho}, {coq_bool(hh)})"
                      for l, s, nd, df, dc, ho, hh in d["steps"]])
    deps = coq_list([f"({cq_key(a)}, {cq_key(b)}, {coq_bool(dy)})" for a, b, dy in d["deps"]])
    shash = cq_strs(d["shash"])
    envs = coq_list([f"({coq_str(s)}, {coq_str(n)}, {coq_bool(dy)})" for s, n, dy in d["envs"]])
    return f"(mkDump {nodes} {files} {steps} {deps} {shash} {envs})"


def cq_xop(op):
    if op[0] == "revert_optional":
        return "XRevert"
    return f"XOp ({cq_base_op(op)})"


def cq_xtrace_items(trace):
    items = []
    for op, outcome, detail, d in trace:
        if op[0] == "dispatch_error":
            continue
        items.append(f"({cq_xop(op)}, {OUTC[outcome]}, {cq_dump(d)})")
    return items


def cq_xops(trace):
    return coq_list([cq_xop(t[0]) for t in trace if t[0][0] != "dispatch_error"])


HEADER = ("From Coq Require Import List NArith Bool.\nImport ListNotations.\n"
          "From SV Require Import lib.Bytes model.Graph model.GraphDump model.Noop.\nOpen Scope N_scope.\n")


async def gen_case(rng, length, defer_cap=3):
    impl = _E2Impl(defer_cap)
    await impl.start()
    try:
        g = Drive(rng, impl, length)
        ok = await g.run_c04()
        return g.trace, g.marks, g.dispatches, g.opcount, ok
    finally:
        impl.close()


def gen_case_sync(rng, length):
    return asyncio.run(gen_case(rng, length))


# ---------------------------------------------------------------------------------------------
# Glob registrations on the real Workflow: startup.rescan_nglobs and process_nglob_changes
# ---------------------------------------------------------------------------------------------
# Graph.st has no glob registrations, so this part is a direct oracle on the implementation:
# several registrations that share one pattern string but differ in their sub-patterns, owned by
# the plan and by two other steps; a re-scan (restart) or a watch commit with nothing changed
# must leave every step, stored hash and recorded match set alone; after adding or deleting one
# file exactly the owners whose match set really changes (decided by an independent matcher)
# lose their hash and become PENDING.

NG_KEYS = "0123456789abcdefXYZ"
NG_SUBS = [{}, {"k": "[0-9]"}, {"k": "[a-z]"}, {"k": "[A-Z]"}]


def _ng_accepts(subs: dict, key: str) -> bool:
    sub = subs.get("k")
    if sub is None:
        return True
    return {"[0-9]": key.isdigit(), "[a-z]": key.islower() and key.isalpha(),
            "[A-Z]": key.isupper() and key.isalpha()}[sub]


async def _nglob_case(rng):
    import contextlib
    import json
    import os
    import tempfile

    from stepup.core.hash import StepHash
    from stepup.core.nglob import NamedGlob
    from stepup.core.startup import rescan_nglobs
    from stepup.core.step import Step

    from .wfutil import WF

    report = {"failures": [], "stats": {}}

    def fail(sig, detail, witness):
        report["failures"].append((sig, detail, witness))

    with tempfile.TemporaryDirectory(prefix="c04-ng-") as tmp, contextlib.chdir(tmp):
        os.mkdir("d")
        keys = sorted(rng.sample(NG_KEYS, rng.randint(3, 7)))
        for k in keys:
            with open(f"d/p_{k}.txt", "w") as fh:
                fh.write(k)
        pattern = "d/p_${*k}.txt"
        nreg = rng.randint(2, 4)
        subs_list = rng.sample(NG_SUBS, nreg) if rng.random() < 0.8 else [rng.choice(NG_SUBS) for _ in range(nreg)]
        owners = [rng.choice(["./plan.py", "a", "b"]) for _ in range(nreg)]
        if rng.random() < 0.5:
            owners[0] = owners[1] = "./plan.py"           # one plan registering the pattern twice
        regs = list(zip(owners, subs_list))
        witness = {"files": [f"d/p_{k}.txt" for k in keys], "pattern": pattern,
                   "registrations": [[o, s] for o, s in regs]}
        async with WF() as w:
            wf, db = w.wf, w.db

            def _snapshot():
                steps = sorted(db.execute(
                    "SELECT node.label, step.state, EXISTS(SELECT 1 FROM step_hash WHERE step_hash.node = step.node) "
                    "FROM step JOIN node ON node.i = step.node").fetchall())
                rows = []
                for label, pat, data in db.execute(
                        "SELECT node.label, nglob.pattern, nglob.data FROM nglob JOIN node ON node.i = nglob.node "
                        "ORDER BY nglob.i"):
                    ng = json.loads(data)
                    rows.append((label, pat, json.dumps(ng, sort_keys=True)))
                return steps, rows

            async def snap():
                async with db:
                    return _snapshot()

            async with db:
                wf.define_step(w.plan, "a", inp_paths=[], out_paths=["oa"])
                wf.define_step(w.plan, "b", inp_paths=[], out_paths=["ob"])
                for owner, subs in regs:
                    ng = NamedGlob(pattern, dict(subs))
                    ng.glob()
                    wf.register_nglob(wf.find(Step, owner), ng)
                for label in ("a", "b", "./plan.py"):
                    step = wf.find(Step, label)
                    step.mark_completed(StepHash.from_inp(label, {}, {}, explained=False), False)
            q = await snap()
            rep = _NullReporter()
            # nothing changed: restart-time re-scan, empty watch commit, watch commit that only names
            # an unchanged existing match
            await rescan_nglobs(wf, rep)
            if (await snap()) != q:
                fail("oracle:e2:nglob:restart:nochange-changed-the-graph",
                     "startup.rescan_nglobs with nothing changed on disk altered steps / stored hashes / "
                     f"recorded matches: steps before {q[0]}, after {(await snap())[0]}", witness)
                return report
            async with db:
                wf.process_nglob_changes(set(), set())
            async with db:
                wf.process_nglob_changes(set(), {f"d/p_{keys[0]}.txt"})
            if (await snap()) != q:
                fail("oracle:e2:nglob:watch:nochange-changed-the-graph",
                     "process_nglob_changes with an empty change set (and with an unchanged existing match) "
                     f"altered steps / stored hashes / recorded matches: steps before {q[0]}, after {(await snap())[0]}",
                     witness)
                return report
            report["stats"]["nglob:nochange"] = 1
            # one file appears or disappears
            flavour = rng.choice(["restart", "watch"])
            if rng.random() < 0.6 or len(keys) < 2:
                key = rng.choice([k for k in NG_KEYS if k not in keys])
                with open(f"d/p_{key}.txt", "w") as fh:
                    fh.write(key)
                deleted, added = set(), {f"d/p_{key}.txt"}
            else:
                key = rng.choice(keys)
                os.remove(f"d/p_{key}.txt")
                deleted, added = {f"d/p_{key}.txt"}, set()
            witness = dict(witness, flavour=flavour, deleted=sorted(deleted), added=sorted(added))
            if flavour == "restart":
                await rescan_nglobs(wf, rep)
            else:
                async with db:
                    wf.process_nglob_changes(deleted, added)
            expect_owners = {o for o, s in regs if _ng_accepts(s, key)}
            steps0 = {l: (st, hh) for l, st, hh in q[0]}
            steps1 = {l: (st, hh) for l, st, hh in (await snap())[0]}
            touched = {l for l in steps1 if steps1[l] != steps0[l]}
            wrong = sorted(l for l in touched if steps1[l] != (StepState.PENDING.value, 0))
            report["stats"][f"nglob:change:{flavour}"] = 1
            report["stats"]["nglob:owners_rerun"] = len(touched)
            if touched != expect_owners or wrong:
                fail(f"oracle:e2:nglob:{flavour}:wrong-steps-after-a-match-change",
                     f"file {sorted(deleted | added)}: owners whose match set changes {sorted(expect_owners)}, "
                     f"steps changed {sorted(touched)}, not PENDING-without-hash: {wrong}", witness)
            # the recorded matches are now those of a fresh scan with the registration's own subs
            rows1 = (await snap())[1]
            for (label, pat, data), (owner, subs) in zip(rows1, regs):
                fresh = NamedGlob(pattern, dict(subs))
                fresh.glob()
                got = sorted(str(p) for p in json_files(data))
                want = sorted(f"d/p_{k}.txt" for k in (set(keys) | {key if added else None}) - ({key} if deleted else set())
                              if k is not None and _ng_accepts(subs, k))
                if got != want:
                    fail(f"oracle:e2:nglob:{flavour}:recorded-matches-wrong",
                         f"registration {owner} {subs}: recorded {got}, on disk {want}", witness)
                    break
    return report


def json_files(data: str) -> list:
    """Paths recorded in the JSON of an nglob row."""
    import json

    from stepup.core.cattrs import json_converter
    from stepup.core.nglob import NamedGlob
    return [str(p) for p in json_converter.structure(json.loads(data), NamedGlob).files()]


def nglob_case_sync(rng):
    return asyncio.run(_nglob_case(rng))
