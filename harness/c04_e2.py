"""C04, E2 level: drive the real Workflow + Scheduler to the end of a build phase, finalize it with
the real revert_optional_steps + delete_detached, and then apply the real startup / watch-commit
transactions with unchanged inputs.

The generated prefix is the shared E2 generator (harness/e2.py: declarations, completions, failures,
external changes, crashes).  The *drain* that follows completes every dispatched job successfully
until the real Scheduler.pop_next_job has nothing left.  When the phase would be reported as
successful (no attached FAILED step, empty pending universe) the finalize transactions are applied
and the resulting state is the "quiescent" state q of the theorems.
"""
from __future__ import annotations

import asyncio

from stepup.core.enums import FileState, Need, StepState

from . import e2
from .common import coq_list


class _NullReporter:
    async def __call__(self, *a, **k):
        return None


class Drive(e2.Gen):
    """e2.Gen plus a drain phase, finalize, and a no-change restart."""

    def __init__(self, rng, impl, length):
        super().__init__(rng, impl, length)
        self.dispatches = []     # (index of the pre-state in self.trace, label)
        self.marks = {}

    async def g_dispatch(self):
        n0 = len(self.trace)
        await super().g_dispatch()
        if len(self.trace) > n0 and self.trace[-1][0][0] == "dispatch":
            self.dispatches.append((n0 - 1, self.trace[-1][0][1]))

    # -- the real finalize transactions -------------------------------------------------------
    async def revert_optional(self):
        from stepup.core.finalize import revert_optional_steps
        try:
            await revert_optional_steps(self.impl.wf, _NullReporter())
            outcome, detail = "ok", ""
        except Exception as e:  # noqa: BLE001
            outcome, detail = e2.classify(e), f"{type(e).__name__}: {e}"
        d = await self.snapshot()
        self.trace.append((("revert_optional",), outcome, detail, d))
        return outcome

    async def build_verdict(self):
        """What report_unbuilt looks at: attached FAILED steps and the pending universe."""
        db = self.impl.db
        async with db:
            failed = db.execute(
                "SELECT COUNT(*) FROM step JOIN node ON node.i = step.node "
                "WHERE NOT node.detached AND step.state = ?", (StepState.FAILED.value,)).fetchone()[0]
            pending = db.execute(
                "SELECT COUNT(*) FROM step JOIN node ON node.i = step.node "
                "WHERE NOT node.detached AND step.state = ? AND step._implied_need > ?",
                (StepState.PENDING.value, Need.OPTIONAL.value)).fetchone()[0]
            busy = db.execute(
                "SELECT COUNT(*) FROM step WHERE state IN (?, ?)",
                (StepState.RUNNING.value, StepState.CHECKING.value)).fetchone()[0]
        return failed, pending, busy

    async def finish_jobs(self):
        """Complete every job in flight successfully."""
        for label, phase in sorted(self.jobs.items()):
            if phase == "run0":
                await self.record(("reset_for_rerun", label))
                self.jobs[label] = "run"
        for label, phase in sorted(self.jobs.items()):
            await self.snapshot()
            if phase in ("run", "check"):
                outs = self.outputs_of(label)
                hs = tuple((p, self.newhash()) for p in outs
                           if self.fstate[p] in (FileState.PLANNED.value, FileState.OUTDATED.value))
                await self.record(("exec_end", label, (), "SUCCEEDED", hs, True, False))
            else:
                await self.record(("reset_to_pending", label))
        self.jobs.clear()

    async def confirm_all(self):
        await self.snapshot()
        unconf = sorted(l for l, s in self.fstate.items() if s == FileState.UNCONFIRMED.value
                        and not self.detached.get(("file", l), True))
        for p in unconf:
            await self.record(("update_hashes", "CONFIRMED", ((p, self.newhash()),)))

    async def drain(self, max_rounds=60):
        await self.finish_jobs()
        for _ in range(max_rounds):
            await self.confirm_all()
            n0 = len(self.dispatches)
            await self.g_dispatch()
            if len(self.dispatches) == n0:
                if self.trace and self.trace[-1][0][0] == "dispatch_error":
                    return False
                return True
            await self.finish_jobs()
        return False

    async def run_c04(self):
        await self.run()
        self.marks["prefix"] = len(self.trace)
        done = await self.drain()
        self.marks["drained"] = len(self.trace)
        failed, pending, busy = await self.build_verdict()
        self.marks["verdict"] = (failed, pending, busy, done)
        if not done or failed or pending or busy:
            return False
        # successful phase: finalize
        if await self.revert_optional() != "ok":
            return False
        if await self.record(("delete_detached",)) != "ok":
            return False
        self.marks["q"] = len(self.trace)
        q = self.trace[-1][3]
        # restart with nothing changed: reset_interrupted is the only transaction that is issued
        await self.record(("reset_interrupted",))
        after_startup = self.trace[-1][3]
        r = await self.impl.dispatch()
        self.marks["restart_dispatch"] = r
        after_dispatch = await self.snapshot()
        # second finalize
        await self.revert_optional()
        await self.record(("delete_detached",))
        after_finalize = self.trace[-1][3]
        self.marks["dumps"] = (q, after_startup, after_dispatch, after_finalize)
        # edit source files: EXTERNAL re-hash results for attached CONFIRMED / MISSING files
        await self.snapshot()
        cand = sorted(l for l, st in self.fstate.items()
                      if st in (FileState.CONFIRMED.value, FileState.MISSING.value)
                      and not self.detached.get(("file", l), True))
        if cand:
            pick = self.subset(cand, 1, 2)
            hs = []
            for p in pick:
                if self.fstate[p] == FileState.MISSING.value:
                    hs.append((p, self.newhash()))
                else:
                    hs.append((p, self.rng.choice([None, self.newhash(), self.newhash()])))
            pre = self.d
            await self.record(("update_hashes", "EXTERNAL", tuple(hs)))
            self.marks["edit"] = (tuple(hs), pre, self.trace[-1][3], self.trace[-1][1])
        return True


# ---------------------------------------------------------------------------------------------
# Gallina printing (xop alphabet of model/Noop.v)
# ---------------------------------------------------------------------------------------------


def cq_xop(op):
    if op[0] == "revert_optional":
        return "XRevert"
    return f"XOp ({e2.cq_op(op)})"


def cq_xtrace_items(trace):
    items = []
    for op, outcome, detail, d in trace:
        if op[0] == "dispatch_error":
            continue
        items.append(f"({cq_xop(op)}, {e2.OUTC[outcome]}, {e2.cq_dump(d)})")
    return items


def cq_xops(trace):
    return coq_list([cq_xop(t[0]) for t in trace if t[0][0] != "dispatch_error"])


HEADER = ("From Coq Require Import List NArith Bool.\nImport ListNotations.\n"
          "From SV Require Import lib.Bytes model.Graph model.GraphDump model.Noop.\nOpen Scope N_scope.\n")


async def gen_case(rng, length, defer_cap=3):
    impl = e2.Impl(defer_cap)
    await impl.start()
    try:
        g = Drive(rng, impl, length)
        ok = await g.run_c04()
        return g.trace, g.marks, g.dispatches, g.opcount, ok
    finally:
        impl.close()


def gen_case_sync(rng, length):
    return asyncio.run(gen_case(rng, length))
