"""D39 witness histories (props/C10.v: d39_sequential, d39_race of model/SchedDefer.v) on the REAL Workflow +
Scheduler, in-memory database, one job at a time, no randomness.  Kept as regressions: both must end
build 2 without a step that is PENDING, attached, needed, safe, ready, with every dynamic input usable
-- and deferred.

Workflow: ./plan.py declares the statics and defines
    q     (planner, input src/q.txt)           -> defines prod (input src/s1.txt, output a/x.txt)
    mky   (input src/y.txt, output a/y.txt)
    user  (inputs src/d.txt, a/y.txt; output a/user.txt), which amends the input a/x.txt when it runs.
Build 1 builds everything.  src/q.txt and src/y.txt are edited.  Build 2:
    mky:  hash check fails, reruns, a/y.txt BUILT again                 (user PENDING through a/y.txt)
    q:    hash check fails -> reset_for_rerun detaches prod and a/x.txt (a/x.txt stays BUILT)
    user: stored hash + a detached dynamic input -> ValidateDynamicJob; the executor's "digest unchanged"
          outcome, exactly as executor.py of the repository records it (read by the translator; a computed
          flag is computed by the repository's own Step.has_unusable_dynamic_input in that transaction)
    q:    runs, defines prod as before -> full recycle: a/x.txt attached again, NO state change
    pop_next_job() -> None: the phase ends.
sequential: the outcome of the validation is committed before q runs again (needs the trigger
            step_node_undefer_reattached, or anything else that reacts to the re-attachment);
race:       the validation job is in flight while q recycles prod, its outcome is committed afterwards
            (needs the flag to be decided from the tables of the outcome transaction).
The "digest unchanged" verdict is taken as given, as in the witness of D36 (harness/d39_sys.py reaches it
with real digests through the real serve()).
"""
from __future__ import annotations

import hashlib

SIG = "phase-end:deferred-step-with-available-inputs:parked-by-validate"
SIG_RACE = SIG + ":outcome-committed-after-reattach"


async def replay_d39(race: bool) -> dict:
    from stepup.core.enums import FileState, HashUpdateCause, StepState
    from stepup.core.hash import FileHash, StepHash
    from stepup.core.job import ValidateDynamicJob
    from . import sched_model as M
    from .sched_common import _validate_unchanged_outcome
    from .wfutil import WF

    def fhash(path, version=0):
        return FileHash(hashlib.sha256(f"{path}#{version}".encode()).digest(), 0o644, 1.0, 10 + version, len(path))

    def shash(label, salt):
        return StepHash(hashlib.sha256(f"i:{label}#{salt}".encode()).digest(), None,
                        hashlib.sha256(f"o:{label}#{salt}".encode()).digest(), None)

    out = {"race": race, "trace": []}
    async with WF(targets=frozenset(), target_dirs=frozenset(), defer_cap=3) as w:
        wf, sched, db = w.wf, w.sched, w.db
        version, dirty, st = {}, set(), {"salt": 0, "held": None, "raced": False}

        def confirm(creator, paths):
            unconfirmed = wf.declare_static_files(creator, paths)
            wf.update_file_hashes({p: fhash(p, version.get(p, 0)) for p in unconfirmed}, cause=HashUpdateCause.CONFIRMED)

        def program(step):
            if step.label == "./plan.py":
                confirm(step, ["src/s1.txt", "src/q.txt", "src/d.txt", "src/y.txt"])
                wf.define_step(step, "q", inp_paths=["src/q.txt"])
                wf.define_step(step, "mky", inp_paths=["src/y.txt"], out_paths=["a/y.txt"])
                wf.define_step(step, "user", inp_paths=["src/d.txt", "a/y.txt"], out_paths=["a/user.txt"])
            elif step.label == "q":
                wf.define_step(step, "prod", inp_paths=["src/s1.txt"], out_paths=["a/x.txt"])
            elif step.label == "user":
                unavailable, unfresh, _ = wf.amend_step(step, inp_paths=["a/x.txt"],
                                                        ran_concurrently=sched.ran_concurrently)
                return bool(unavailable or unfresh)
            return False

        async def finish_validate(job):
            state_name, deferred = _validate_unchanged_outcome()
            async with db:
                if deferred == "unusable_dynamic_input":
                    deferred = bool(job.step.has_unusable_dynamic_input())
                job.step.set_state(StepState[state_name], deferred)
            out["trace"].append(f"validate {job.step.label}: unchanged -> set_state({state_name}, deferred={deferred})")

        async def run_job(job):
            step = job.step
            label = step.label
            if isinstance(job, ValidateDynamicJob):
                if race and not st["raced"]:
                    st["raced"], st["held"] = True, job
                    out["trace"].append(f"validate {label}: handed out, outcome delayed")
                    return
                await finish_validate(job)
                return
            async with db:
                checking = step.get_state() == StepState.CHECKING
            if checking:
                if label in dirty:
                    async with db:      # Executor._reset_step_to_pending
                        step.reset_for_rerun()
                        step.delete_hash()
                        step.set_state(StepState.PENDING)
                    out["trace"].append(f"check {label}: digest changed -> reset")
                    return
                async with db:
                    outs = {str(r.path): fhash(str(r.path), version.get(str(r.path), 0))
                            for r in step.out_paths() if r.state != FileState.BUILT}
                    wf.update_file_hashes(outs, cause=HashUpdateCause.SUCCEEDED)
                    step.mark_completed(job.step_hash, False)
                out["trace"].append(f"check {label}: skipped")
                return
            dirty.discard(label)
            async with db:
                step.reset_for_rerun()
            async with db:
                wants_defer = program(step)
            async with db:
                if wants_defer:
                    step.mark_completed(None, True)
                    out["trace"].append(f"run {label}: deferred")
                else:
                    outs = {str(r.path): fhash(str(r.path), version.get(str(r.path), 0)) for r in step.out_paths()}
                    wf.update_file_hashes(outs, cause=HashUpdateCause.SUCCEEDED)
                    st["salt"] += 1
                    step.mark_completed(shash(label, st["salt"]), False)
                    out["trace"].append(f"run {label}: succeeded")

        async def build_phase():
            for _ in range(60):
                job = await sched.pop_next_job()
                if job is None:
                    if st["held"] is not None:
                        job, st["held"] = st["held"], None
                        await finish_validate(job)      # the delayed outcome of the validation job
                        continue
                    return True
                await run_job(job)
            return False

        async def edit(path):
            version[path] = version.get(path, 0) + 1
            async with db:
                wf.update_file_hashes({path: fhash(path, version[path])}, cause=HashUpdateCause.EXTERNAL)

        # WF() leaves ./plan.py RUNNING: run its program as the job it is
        async with db:
            program(w.plan)
        async with db:
            w.plan.mark_completed(shash("./plan.py", 0), False)
        out["build1_terminated"] = await build_phase()
        snap1 = await M._snap(w)
        out["build1_all_succeeded"] = all(s["state"] == M.SUCCEEDED for s in snap1["steps"])
        await edit("src/q.txt")
        await edit("src/y.txt")
        dirty.update(["q", "mky"])
        out["trace"].append("-- build 2")
        out["build2_terminated"] = await build_phase()
        after = await M._snap(w)
        out["after"] = after
        va = M.View(after)
        stuck = []
        for k, s in va.steps.items():
            if s["state"] != M.PENDING or s["detached"] or not s["deferred"]:
                continue
            unusable = [d["src"] for d in va.in_edges.get(k, [])
                        if d["dyn"] and d["src"] in va.files and
                        (va.files[d["src"]]["detached"] or
                         va.files[d["src"]]["state"] not in (M.FS.CONFIRMED.value, M.FS.BUILT.value))]
            if not unusable and va.eligible_spec(k, ignore_deferred=True):
                stuck.append(s["label"])
        out["stuck"] = stuck
        out["validated"] = any(t.startswith("validate user") for t in out["trace"])
        out["states"] = {s["label"]: [s["state"], bool(s["deferred"])] for s in after["steps"]}
    return out


# ---------------------------------------------------------------------------------------------
# D39-refine: "the step is deferred" and "a declaration re-attaches its orphan dynamic input" in either order
# ---------------------------------------------------------------------------------------------

SIG_ORDER = "commute:defer-vs-reattach:deferred-flag-depends-on-order"


def trigger_is_refined() -> bool:
    """Whether step_node_undefer_reattached carries the guard `AND NOT EXISTS (<unusable dynamic input>)`."""
    import re
    from stepup.core.step import STEP_SCHEMA
    m = re.search(r"CREATE TRIGGER IF NOT EXISTS step_node_undefer_reattached.*?END;", STEP_SCHEMA, re.S)
    return bool(m and "AND NOT EXISTS" in " ".join(m.group(0).split()))


async def defer_reattach_pair(how: str, order: str) -> dict:
    """S and `other` run (both children of the running ./plan.py).  S amends f1.txt, which nothing declares: an orphan
    (UNDECLARED, detached).  r1: S is deferred (mark_completed(None, wants_defer)).  r2: `other` declares f1.txt --
    `static`: a static file (UNCONFIRMED until it is hashed), `output`: the output of a new step (PLANNED) -- which
    re-attaches the node.  Returns S's row and the next job after r1;r2 or r2;r1."""
    from stepup.core.step import Step
    from . import sched_model as M
    from .wfutil import WF
    async with WF(targets=frozenset(), target_dirs=frozenset(), defer_cap=3) as w:
        wf, sched, db = w.wf, w.sched, w.db
        async with db:
            wf.define_step(w.plan, "S", out_paths=["s.txt"])
            wf.define_step(w.plan, "other", out_paths=["o.txt"])
            S, O = wf.find(Step, "S"), wf.find(Step, "other")
        await sched.pop_next_job()
        await sched.pop_next_job()
        async with db:
            S.reset_for_rerun()
            O.reset_for_rerun()
        async with db:
            wf.amend_step(S, inp_paths=["f1.txt"], ran_concurrently=sched.ran_concurrently)

        def r1():
            S.mark_completed(None, True)

        def r2():
            if how == "static":
                wf.declare_static_files(O, ["f1.txt"])
            else:
                wf.define_step(O, "mk", out_paths=["f1.txt"])

        for r in ((r1, r2) if order == "r1r2" else (r2, r1)):
            async with db:
                r()
        snap = await M._snap(w)
        s = next(x for x in snap["steps"] if x["label"] == "S")
        f = [(x["state"], bool(x["detached"])) for x in snap["files"] if x["label"] == "f1.txt"]
        job = await sched.pop_next_job()
        return {"how": how, "order": order, "S": [s["state"], bool(s["deferred"]), s["defer_count"]], "f1": f,
                "next_job": job.step.label if job else None, "snapshot": snap}
