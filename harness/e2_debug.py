"""Run a few E2 traces and print the first disagreement in readable form."""
import asyncio, random, sys, re
from . import common, e2


def decode(txt):
    """Turn Coq-printed byte lists into strings where possible."""
    def rep(m):
        nums = [int(x) for x in re.findall(r"\d+", m.group(0))]
        if nums and all(32 <= n < 127 for n in nums):
            return '"' + "".join(chr(n) for n in nums) + '"'
        return m.group(0)
    return re.sub(r"\[(?:\d+(?:; )?)+\]", rep, txt or "")


TOT = {}


def main():
    seed = int(sys.argv[1]) if len(sys.argv) > 1 else 0
    n = int(sys.argv[2]) if len(sys.argv) > 2 else 20
    length = int(sys.argv[3]) if len(sys.argv) > 3 else 40
    ctx = common.Ctx("E2dbg", "quick", seed)
    with common.CoqLock():
        ok, log = common.coq_make(["model/GraphDump.vo", "model/GraphTree.vo"])
    assert ok, log
    traces = []
    for i in range(n):
        rng = random.Random(f"e2-{seed}-{i}")
        tr, cnt, strict = asyncio.run(e2.gen_trace(rng, length))
        traces.append(tr)
        for k, v in cnt.items():
            TOT[k] = TOT.get(k, 0) + v
        if strict:
            print("STRICT CHECK FAILED trace", i, strict)
        for op, oc, detail, d in tr:
            if oc == "internal":
                print("INTERNAL in trace", i, op, detail)
    print(sorted(TOT.items()))
    checks = [e2.cq_trace(tr, 3) for tr in traces]
    bad = common.run_cases(ctx, "dbg", e2.HEADER, checks, chunk=5)
    print("bad traces:", bad)
    for b in bad[:1]:
        tr = [t for t in traces[b] if t[0][0] != "dispatch_error"]
        items = [f"({e2.cq_op(op)}, {e2.OUTC[oc]}, {e2.cq_dump(d)})" for op, oc, _, d in tr]
        v = common.eval_terms(ctx, "dbg", e2.HEADER, [f"first_bad_t 0 (init_st 3) {common.coq_list(items)}"])
        print("first_bad:", v)
        m = re.search(r"Some (\d+)", v[0] or "")
        if m:
            k = int(m.group(1))
            ops = common.coq_list([e2.cq_op(t[0]) for t in tr[:k]])
            for j, t in enumerate(tr[:k + 1]):
                print(j, t[0], t[1], t[2][:100])
            vals = common.eval_terms(ctx, "dbg2", e2.HEADER, [
                f"state_at_t 3 {common.coq_list([e2.cq_op(t[0]) for t in tr[:k+1]])}",
                f"result_tag_t 3 {ops} ({e2.cq_op(tr[k][0])})"])
            print("MODEL :", decode(vals[0]))
            print("TAG   :", vals[1])
            print("IMPL  :", tr[k][3])


main()
