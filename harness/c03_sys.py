"""C03 system-level replay: the real serve() in-process (real Builder job loop, Scheduler, Executor,
Workflow, hash threads, SQLite file) with launch_command replaced by simulated steps that are
ordered by asyncio events (no sleeps).

Scenario (witness of props/C03.v C03_full_refuted_by_producer_rerun): plan.py defines g (out
gen.txt), p (inp src.txt, out f.txt) and c (inp f.txt, out o.txt), then amends gen.txt, which is
not built yet, so the plan is deferred while p has succeeded and c is running.  When g is done the
plan runs again and defines p with one more input; p is re-executed and rewrites f.txt while c,
which read the first f.txt, is still running.  c then finishes.
"""
from __future__ import annotations

import asyncio
import os
import sqlite3
import tempfile
import threading
import time

from path import Path

from .p_c03_sigs import SIG_RERUN


def system_witness(ctx):
    try:
        res = asyncio.run(asyncio.wait_for(_scenario(), 60))
    except asyncio.TimeoutError:
        ctx.notes.append("c03_sys: scenario timed out (the interleaving did not occur)")
        return []
    ctx.sample({"system-replay": {k: res[k] for k in ("rc", "states", "c_read", "f_final", "o_final", "events")}})
    ctx.case(("system-witness",), nontrivial=True)
    fails = []
    c_state = res["states"].get("c")
    ncstart = sum(1 for e in res["events"] if e == ["START", "c"])
    ctx.stats["system_replay_c_starts"] = ncstart
    if c_state == 23 and ncstart < 2:
        fails.append((SIG_RERUN, f"real serve(): f.txt was rewritten during c's command but c was executed only "
                                 f"{ncstart} time(s) and is SUCCEEDED (events {res['events']})", {"system": res}))
    if c_state == 23 and res["c_read"] != res["f_final"]:
        fails.append((SIG_RERUN,
                      f"real serve(): step c read f.txt = {res['c_read']!r}, f.txt was rewritten by the re-executed "
                      f"producer p to {res['f_final']!r} while c was running, yet c ended SUCCEEDED "
                      f"(build return code {res['rc']}, o.txt = {res['o_final']!r}, events {res['events']})",
                      {"system": res}))
    return fails


async def _scenario():
    import stepup.core.director as di
    import stepup.core.executor as ex
    from stepup.core.constants import GRAPH_DB
    from stepup.core.director import ServeConfig, serve
    from stepup.core.enums import Need
    from stepup.core.outcome import ChildOutcome
    from stepup.core.reporter import ReporterClient
    from stepup.core.rpc import BaseAsyncRPCClient
    from stepup.core.sqlite3 import DBSession

    events, handler, gates, count, log = [], {}, {}, {}, {}

    class Rec(BaseAsyncRPCClient):
        async def __call__(self, name, /, *args, **kwargs):
            if name == "report" and args and args[0] in ("START", "SUCCESS", "FAIL", "DEFERRED", "SKIP", "ERROR"):
                events.append([args[0], str(args[1])])
            return None

    orig_wire = di._wire_director

    async def wire(**kw):
        h = await orig_wire(**kw)
        handler["h"] = h
        return h

    D = Need.DEFAULT.value

    async def fake_launch(command, *, shell, env, cwd, mp_ctx, run):
        h = handler["h"]
        j = run.job_i
        n = count[command] = count.get(command, 0) + 1
        if command == "./plan.py":
            await h.declare_static(j, [], ["src.txt"], [])
            await h.define_step(j, "g", [], [], ["gen.txt"], [], ".", D, {})
            inp = ["src.txt"] if n == 1 else ["gen.txt", "src.txt"]
            await h.define_step(j, "p", inp, [], ["f.txt"], [], ".", D, {})
            await h.define_step(j, "c", ["f.txt"], [], ["o.txt"], [], ".", D, {})
            if n == 1:
                await gates["c_read"].wait()
            await h.amend_step(j, ["gen.txt"], set(), [], [])
            if n == 1:
                gates["plan1_done"].set()
        elif command == "g":
            await gates["plan1_done"].wait()
            Path("gen.txt").write_text("gen")
        elif command == "p":
            extra = Path("gen.txt").read_text() if n > 1 else ""
            Path("f.txt").write_text(f"f{n}:" + Path("src.txt").read_text() + extra)
            if n > 1:
                gates["p2_launched"].set()
        elif command == "c":
            log["c_read"] = Path("f.txt").read_text()
            gates["c_read"].set()
            await gates["p2_launched"].wait()
            # wait (event driven, no sleep) until p's second completion is committed
            while True:
                async with h.db:
                    row = h.db.execute("SELECT state FROM step JOIN node ON node.i = step.node "
                                       "WHERE node.label = 'p'").fetchone()
                if row and row[0] == 23:
                    break
                await asyncio.sleep(0)
            Path("o.txt").write_text("o:" + log["c_read"])
        return ChildOutcome(0, "", "")

    old_cwd = os.getcwd()
    old_launch, old_wire = ex.launch_command, di._wire_director
    with tempfile.TemporaryDirectory(prefix="verif-c03sys-") as d:
        try:
            os.chdir(d)
            ex.launch_command = fake_launch
            di._wire_director = wire
            for k in ("c_read", "plan1_done", "p2_launched"):
                gates[k] = asyncio.Event()
            Path("plan.py").write_text("#!/usr/bin/env python3\n")
            os.chmod("plan.py", 0o755)
            Path("src.txt").write_text("hello")
            Path(".stepup").makedirs_p()
            with DBSession.open(GRAPH_DB) as db:
                res = await serve(ServeConfig(njob=4, use_duration=False), director_socket_path=Path(".stepup/sock"),
                                  reporter=ReporterClient(Rec()), db=db, handle_signals=False)
            con = sqlite3.connect(".stepup/graph.db")
            states = dict(con.execute("SELECT label, state FROM node JOIN step ON node.i = step.node").fetchall())
            con.close()
            out = {"rc": res.returncode.value, "states": states, "c_read": log.get("c_read"),
                   "f_final": Path("f.txt").read_text() if Path("f.txt").exists() else None,
                   "o_final": Path("o.txt").read_text() if Path("o.txt").exists() else None,
                   "events": events}
        finally:
            ex.launch_command = old_launch
            di._wire_director = old_wire
            os.chdir(old_cwd)
    return out


async def validate_loop_system(limit=40):
    """Two real serve() runs on the same .stepup/graph.db (the user runs `stepup` twice).

    Build 1: plan.py declares the static files f01.txt, f02.txt, g_src.txt and the steps g (out g.txt),
    d (inp f02.txt, g.txt) and c (inp f01.txt, out o.txt).  c amends f02.txt (accepted).  While c runs
    the user deletes f02.txt; d is dispatched, its pre-run check finds the input vanished: f02.txt is
    recorded MISSING, d FAILS, the scheduler drains.  c finishes: SUCCEEDED, its hash does not list
    f02.txt (not CONFIRMED any more) but the amended edge stays.
    Build 2: the user deleted o.txt.  c is PENDING with its stored hash and a dynamic input that is
    MISSING: VALIDATE_DYNAMIC, "digest unchanged", PENDING, VALIDATE_DYNAMIC, ...  The run is cut
    after `limit` validate jobs.
    """
    import stepup.core.director as di
    import stepup.core.executor as ex
    from stepup.core.constants import GRAPH_DB
    from stepup.core.director import ServeConfig, serve
    from stepup.core.enums import Need
    from stepup.core.executor import Executor
    from stepup.core.outcome import ChildOutcome
    from stepup.core.reporter import ReporterClient
    from stepup.core.rpc import BaseAsyncRPCClient
    from stepup.core.sqlite3 import DBSession

    events, handler, gates = [], {}, {}

    class Rec(BaseAsyncRPCClient):
        async def __call__(self, name, /, *args, **kwargs):
            if name == "report" and args and args[0] in ("START", "SUCCESS", "FAIL", "DEFERRED", "SKIP", "ERROR"):
                events.append([args[0], str(args[1])])
            return None

    orig_wire = di._wire_director

    async def wire(**kw):
        h = await orig_wire(**kw)
        handler["h"] = h
        return h

    D = Need.DEFAULT.value

    async def state_of(label):
        h = handler["h"]
        async with h.db:
            row = h.db.execute("SELECT state FROM step JOIN node ON node.i = step.node WHERE node.label = ?",
                               (label,)).fetchone()
        return row and row[0]

    async def fake_launch(command, *, shell, env, cwd, mp_ctx, run):
        h = handler["h"]
        j = run.job_i
        if command == "./plan.py":
            await h.declare_static(j, [], ["f01.txt", "f02.txt", "g_src.txt"], [])
            await h.define_step(j, "g", ["g_src.txt"], [], ["g.txt"], [], ".", D, {})
            await h.define_step(j, "d", ["f02.txt", "g.txt"], [], ["d.txt"], [], ".", D, {})
            await h.define_step(j, "c", ["f01.txt"], [], ["o.txt"], [], ".", D, {})
        elif command == "g":
            await gates["c_amended"].wait()
            Path("f02.txt").remove()          # the user deletes a static file while the build runs
            Path("g.txt").write_text("g")
        elif command == "d":
            Path("d.txt").write_text("d")
        elif command == "c":
            carry = await h.amend_step(j, ["f02.txt"], set(), [], [])
            events.append(["amend-carry-on", str(carry)])
            gates["c_amended"].set()
            while await state_of("d") != 24:
                await asyncio.sleep(0)
            Path("o.txt").write_text("o")
        return ChildOutcome(0, "", "")

    nval = [0]
    orig_val = Executor.validate_dynamic_job

    class Loop(Exception):
        pass

    async def val(self, job_i, step, *a):
        nval[0] += 1
        if nval[0] > limit:
            raise Loop()
        return await orig_val(self, job_i, step, *a)

    old_cwd = os.getcwd()
    old_launch = ex.launch_command
    out = {}
    with tempfile.TemporaryDirectory(prefix="verif-c03loop-") as d:
        try:
            os.chdir(d)
            ex.launch_command = fake_launch
            di._wire_director = wire
            Executor.validate_dynamic_job = val
            gates["c_amended"] = asyncio.Event()
            Path("plan.py").write_text("#!/usr/bin/env python3\n")
            os.chmod("plan.py", 0o755)
            for f in ("f01.txt", "f02.txt", "g_src.txt"):
                Path(f).write_text(f)
            Path(".stepup").makedirs_p()
            for b in (1, 2):
                if b == 2:
                    Path("o.txt").remove()     # the user deletes c's output, then builds again
                events.append(["BUILD", str(b)])
                try:
                    with DBSession.open(GRAPH_DB) as db:
                        res = await asyncio.wait_for(
                            serve(ServeConfig(njob=4, use_duration=False), director_socket_path=Path(".stepup/sock"),
                                  reporter=ReporterClient(Rec()), db=db, handle_signals=False), 40)
                    out["build1_rc" if b == 1 else "build2"] = res.returncode.value
                except asyncio.TimeoutError:
                    out["build1_rc" if b == 1 else "build2"] = f"TIMEOUT after {nval[0]} validate jobs"
                except BaseException as e:  # noqa: BLE001 -- job_loop wraps the Loop marker in a RuntimeError
                    if nval[0] > limit:
                        out["build2"] = f"LOOP: more than {limit} consecutive VALIDATE_DYNAMIC jobs for step c, cut by the harness"
                    else:
                        out["build1_rc" if b == 1 else "build2"] = f"EXC {type(e).__name__}: {e}"
                con = sqlite3.connect(".stepup/graph.db")
                out[f"states{b}"] = dict(con.execute("SELECT label, state FROM node JOIN step ON node.i = step.node").fetchall())
                out[f"files{b}"] = dict(con.execute("SELECT label, state FROM node JOIN file ON node.i = file.node").fetchall())
                con.close()
        finally:
            ex.launch_command = old_launch
            di._wire_director = orig_wire
            Executor.validate_dynamic_job = orig_val
            os.chdir(old_cwd)
    out["events"] = events
    out["nvalidate"] = nval[0]
    return out


async def skip_window_system():
    """Three real serve() runs on the same .stepup/graph.db (finding C03-skip-window).

    Build 1 (mode.txt = A): plan.py declares src.txt and mode.txt, amends mode.txt, defines p (inp
    src.txt, out f.txt) and c (inp f.txt, out o.txt); everything runs.
    Build 2 (the user wrote B into mode.txt): plan.py runs again and defines h (out late.txt), p and c
    as before (both recycled with their hashes: `SKIP p`, c is dispatched to CHECKING) and then
    amends late.txt, which is not built yet: the plan is DEFERRED.  h finishes, the plan runs again
    and now defines p with the inputs late.txt and src.txt: p is PENDING again (mark_step_pending
    ignores the CHECKING consumer c), is executed and rewrites f.txt.  All this happens while the
    output of c is still being hashed (the only scheduling element chosen by the harness: the hash
    thread of o.txt is slow, as it is for a big file).  Then try_skip_job finishes: `SKIP c`.
    Build 3: nothing changed.
    """
    import stepup.core.director as di
    import stepup.core.executor as ex
    from stepup.core.constants import GRAPH_DB
    from stepup.core.director import ServeConfig, serve
    from stepup.core.enums import Need
    from stepup.core.outcome import ChildOutcome
    from stepup.core.reporter import ReporterClient
    from stepup.core.rpc import BaseAsyncRPCClient
    from stepup.core.sqlite3 import DBSession

    events, handler, count = [], {}, {}
    build = [1]
    checking, p_done, h_started, plan_deferred = (threading.Event() for _ in range(4))

    class Rec(BaseAsyncRPCClient):
        async def __call__(self, name, /, *args, **kwargs):
            if name == "report" and args and args[0] in ("START", "SUCCESS", "FAIL", "DEFERRED", "SKIP", "ERROR"):
                events.append([args[0], str(args[1])])
            return None

    orig_wire = di._wire_director

    async def wire(**kw):
        h = await orig_wire(**kw)
        handler["h"] = h
        return h

    D = Need.DEFAULT.value

    async def fake_launch(command, *, shell, env, cwd, mp_ctx, run):
        h = handler["h"]
        j = run.job_i
        n = count[(build[0], command)] = count.get((build[0], command), 0) + 1
        if command == "./plan.py":
            await h.declare_static(j, [], ["src.txt", "mode.txt"], [])
            await h.amend_step(j, ["mode.txt"], set(), [], [])
            if Path("mode.txt").read_text() == "A":
                await h.define_step(j, "p", ["src.txt"], [], ["f.txt"], [], ".", D, {})
                await h.define_step(j, "c", ["f.txt"], [], ["o.txt"], [], ".", D, {})
            else:
                await h.define_step(j, "h", [], [], ["late.txt"], [], ".", D, {})
                inp = ["src.txt"] if n == 1 else ["late.txt", "src.txt"]
                await h.define_step(j, "p", inp, [], ["f.txt"], [], ".", D, {})
                await h.define_step(j, "c", ["f.txt"], [], ["o.txt"], [], ".", D, {})
                if n == 1:
                    while not (checking.is_set() and h_started.is_set()):
                        await asyncio.sleep(0)
                await h.amend_step(j, ["late.txt"], set(), [], [])
                if n == 1:
                    plan_deferred.set()
        elif command == "h":
            h_started.set()
            while not plan_deferred.is_set():
                await asyncio.sleep(0)
            Path("late.txt").write_text("late")
        elif command == "p":
            extra = Path("late.txt").read_text() if build[0] == 2 else ""
            Path("f.txt").write_text("f:" + Path("src.txt").read_text() + extra)
            if build[0] == 2:
                p_done.set()
        elif command == "c":
            Path("o.txt").write_text("o:" + Path("f.txt").read_text())
        return ChildOutcome(0, "", "")

    orig_out = ex.compute_out_hashes

    def slow_out(out_hashes, cancel_event):
        if build[0] == 2 and "o.txt" in out_hashes:
            checking.set()
            # a slow hash of the output: it lasts until p has been executed again and recorded
            p_done.wait(30)
            for _ in range(4000):
                con = sqlite3.connect(".stepup/graph.db")
                try:
                    row = con.execute("SELECT state FROM step JOIN node ON node.i = step.node "
                                      "WHERE node.label = 'p' AND NOT node.detached").fetchone()
                finally:
                    con.close()
                if row and row[0] == 23:
                    break
                time.sleep(0.005)
        return orig_out(out_hashes, cancel_event)

    old_cwd = os.getcwd()
    old_launch = ex.launch_command
    out = {}
    with tempfile.TemporaryDirectory(prefix="verif-c03skipwin-") as d:
        try:
            os.chdir(d)
            ex.launch_command = fake_launch
            di._wire_director = wire
            ex.compute_out_hashes = slow_out
            Path("plan.py").write_text("#!/usr/bin/env python3\n")
            os.chmod("plan.py", 0o755)
            Path("src.txt").write_text("hello")
            Path("mode.txt").write_text("A")
            Path(".stepup").makedirs_p()
            for b in (1, 2, 3):
                build[0] = b
                if b == 2:
                    Path("mode.txt").write_text("B")
                events.append(["BUILD", str(b)])
                try:
                    with DBSession.open(GRAPH_DB) as db:
                        res = await asyncio.wait_for(
                            serve(ServeConfig(njob=4, use_duration=False), director_socket_path=Path(".stepup/sock"),
                                  reporter=ReporterClient(Rec()), db=db, handle_signals=False), 60)
                    out[f"rc{b}"] = res.returncode.value
                except BaseException as e:  # noqa: BLE001
                    out[f"rc{b}"] = f"EXC {type(e).__name__}: {e}"
                con = sqlite3.connect(".stepup/graph.db")
                states = dict(con.execute("SELECT label, state FROM node JOIN step ON node.i = step.node").fetchall())
                con.close()
                out[f"states{b}"] = states
                out[f"c_state{b}"] = states.get("c")
                out[f"f{b}"] = Path("f.txt").read_text() if Path("f.txt").exists() else None
                out[f"o{b}"] = Path("o.txt").read_text() if Path("o.txt").exists() else None
        finally:
            ex.launch_command = old_launch
            di._wire_director = orig_wire
            ex.compute_out_hashes = orig_out
            os.chdir(old_cwd)
    out["events"] = events
    return out
