"""Shared by harness/p_c10.py and harness/p_c11.py: the tie of model/SchedGraph.v to the code.

For every transaction of a history (harness/sched_common.py drives the REAL Workflow + Scheduler) the
snapshot before it is turned into a state of the transaction model `Graph.st`, the transaction into
operations of Graph.v's alphabet, and Coq evaluates

    prims_of_op idf ann s op      (model/SchedGraph.v: which Sched primitives the operation performs)

replays that primitive sequence on the Sched snapshot taken before the transaction and compares ALL
scheduling columns (every row of step / file / node / dependency that model/Sched.v reads) with the
snapshot taken after it.  It also evaluates the decidable side conditions `run_ok_b` of
`C10_primitive_sequences_preserve_FlagInv_decidable` on the sequence and the coupling `coupled_b`
(proofs/SchedGraphSim.v) between the Graph state and the Sched snapshot before and after.

`idf` (the naming of keys by node ids) is the association list of the real database ids of the
snapshots before and after the transaction.
"""
from __future__ import annotations

from stepup.core.enums import FileState, HashUpdateCause, Need, StepState

from .sched_model import cbool, cstr

KIND = {"step": "KStep", "file": "KFile", "root": "KRoot", "st": "KTree"}
FSTATE = {
    FileState.UNDECLARED.value: "FUndeclared", FileState.UNCONFIRMED.value: "FUnconfirmed",
    FileState.MISSING.value: "FMissing", FileState.CONFIRMED.value: "FConfirmed",
    FileState.PLANNED.value: "FPlanned", FileState.BUILT.value: "FBuilt",
    FileState.OUTDATED.value: "FOutdated", FileState.VOLATILE.value: "FVolatile",
}
SSTATE = {
    StepState.PENDING.value: "SPending", StepState.RUNNING.value: "SRunning",
    StepState.SUCCEEDED.value: "SSucceeded", StepState.FAILED.value: "SFailed",
    StepState.CHECKING.value: "SChecking",
}
NEED = {Need.OPTIONAL.value: "NOptional", Need.DEFAULT.value: "NDefault", Need.PLAN.value: "NPlan"}
CAUSE = {
    HashUpdateCause.EXTERNAL.value: "CExternal", HashUpdateCause.SUCCEEDED.value: "CSucceeded",
    HashUpdateCause.FAILED.value: "CFailed", HashUpdateCause.CONFIRMED.value: "CConfirmed",
}
STATIC_STATES = (FileState.UNCONFIRMED.value, FileState.MISSING.value, FileState.CONFIRMED.value)


def ckey(kind: str, label: str) -> str:
    return f"({KIND[kind]}, {cstr(label)})"


def clist(items) -> str:
    return "[" + "; ".join(items) + "]"


def key_table(*snaps) -> dict[int, tuple[str, str]]:
    """node id -> (kind, label) over the given snapshots."""
    tbl: dict[int, tuple[str, str]] = {}
    for snap in snaps:
        if snap is None:
            continue
        for s in snap["steps"]:
            tbl[s["key"]] = ("step", s["label"])
        for f in snap["files"]:
            tbl[f["key"]] = ("file", f["label"])
        for o in snap["others"]:
            tbl[o["key"]] = (o["kind"], o["label"])
    return tbl


def st_term(snap_term: str, tbl_term: str, cap: int) -> str:
    """The Graph.st of a Sched snapshot, computed inside Coq (st_of_graph in COQ_HEADER): node order =
    id order = creation order; the labels come from the key table."""
    return f"(st_of_graph {tbl_term} {snap_term} {cap})"


EMPTY = {"steps": [], "files": [], "others": [{"key": 1, "kind": "root", "label": "", "detached": 0, "creator": 1}],
         "deps": []}


def _hs(pairs) -> str:
    return clist(f"({cstr(p)}, {'Some 1' if known else 'None'})" for p, known in sorted(pairs))


def _strs(paths) -> str:
    return clist(cstr(p) for p in sorted(set(paths)))


NO_ANN = "no_ann"


def event_ops(ev: dict, before: dict):
    """The transaction of a history event as a list of (ann, op) Gallina terms; None when the event is
    not a transaction of Graph.v's alphabet (tick is handled by the caller: its `before` is after_meta)."""
    op, a = ev["op"], ev.get("args") or {}
    tbl = key_table(before, ev["after"])

    def label(i):
        return tbl[i][1]

    if op == "boot":
        return [(NO_ANN, f"OpDeclareStatic root_key {_strs(['plan.py'])}"),
                (NO_ANN, f"OpUpdateHashes CConfirmed {_hs([('plan.py', True)])}"),
                (NO_ANN, f"OpDefineStep root_key {cstr('./plan.py')} {_strs(['plan.py'])} [] [] [] NPlan")]
    if op == "static":
        creator = a["step"]
        files = {f["label"]: f for f in before["files"]}
        todo = []
        for p in sorted(set(a["paths"])):
            f = files.get(p)
            if f is not None and not f["detached"] and f["creator"] == creator and f["state"] in STATIC_STATES:
                continue
            todo.append(p)
        return [(NO_ANN, f"OpDeclareStatic {ckey('step', label(creator))} {_strs(a['paths'])}"),
                (NO_ANN, f"OpUpdateHashes CConfirmed {_hs([(p, True) for p in todo])}")]
    if op == "define":
        dur = "None" if a["duration"] is None else f"(Some {int(a['duration'])})"
        res = clist(f"({cstr(n)}, {u})" for n, u in sorted((a["resources"] or {}).items()))
        ck, cl = tbl[a["creator"]]
        return [(f"(mkAnn {dur} {res})",
                 f"OpDefineStep {ckey(ck, cl)} {cstr(a['label'])} {_strs(a['inp'])} [] {_strs(a['out'])} "
                 f"{_strs(a['vol'])} {NEED[a['need']]}")]
    if op == "amend":
        return [(NO_ANN, f"OpAmendStep {cstr(label(a['step']))} {_strs(a['inp'])} [] {_strs(a['out'])} {_strs(a['vol'])}")]
    if op == "hold":
        return [(NO_ANN, f"OpHold {cstr(label(a['step']))}")]
    if op == "release":
        return [(NO_ANN, f"OpRelease {cstr(label(a['step']))}")]
    if op == "start":
        return [(NO_ANN, f"OpResetForRerun {cstr(label(a['step']))}")]
    if op == "early_fail":
        if not a["inp_hashes"]:
            return []
        return [(NO_ANN, f"OpUpdateHashes CFailed {_hs(a['inp_hashes'].items())}")]
    if op == "end":
        l = cstr(label(a["step"]))
        if a.get("kind") == "early_fail":
            return [(NO_ANN, f"OpExecEnd {l} [] CFailed [] false false")]
        return [(NO_ANN, f"OpExecEnd {l} [] {CAUSE[a['cause']]} {_hs(a['out_hashes'].items())} "
                         f"{cbool(a['stored_hash'])} {cbool(a['wants_defer'])}")]
    if op == "skip":
        l = cstr(label(a["step"]))
        if a["ok"]:
            return [(NO_ANN, f"OpExecEnd {l} [] CSucceeded {_hs([(p, True) for p in a['out_hashes']])} true false")]
        return [(NO_ANN, f"OpResetToPending {l}")]
    if op == "validate":
        l = cstr(label(a["step"]))
        if a["changed"]:
            return [(NO_ANN, f"OpResetToPending {l}")]
        if a.get("deferred", True):
            return [(NO_ANN, f"OpValidatePending {l}")]
        # the computed flag of the repaired validate_dynamic_job came out False (no dynamic input is unusable
        # any more): set_state(PENDING, False).  Graph.v has no operation for CHECKING -> PENDING that keeps
        # the hash without deferring; the same row writes are OpValidatePending (PENDING, deferred) followed
        # by mark_step_pending on the now PENDING step (set_state(PENDING), nothing else), in one transaction.
        return [(NO_ANN, f"OpValidatePending {l}"), (NO_ANN, f"OpMarkStepPending {l}")]
    if op == "mark_pending":
        return [(NO_ANN, f"OpMarkStepPending {cstr(label(a['step']))}")]
    if op == "external":
        if a.get("skipped"):
            return []
        return [(NO_ANN, f"OpUpdateHashes CExternal {_hs([(a['path'], a['known'])])}")]
    if op == "delete_detached":
        return [(NO_ANN, "OpDeleteDetached")]
    return None


def tick_ops(ev: dict):
    """pop_next_job after the metadata updates: the state change of the dispatched step."""
    if ev.get("choice") is None or ev.get("after_meta") is None:
        return None
    tbl = key_table(ev["after_meta"])
    return [(NO_ANN, f"OpDispatch {cstr(tbl[ev['choice']][1])}")]


COQ_HEADER = """From SV Require Import model.Graph model.GraphInv model.SchedGraph.
Definition idf_of (tbl : list (key * N)) (k : key) : N :=
  match find (fun p => key_eqb (fst p) k) tbl with Some p => snd p | None => 0 end.
Definition key_of (tbl : list (key * N)) (i : N) : key :=
  match find (fun p => snd p =? i) tbl with Some p => fst p | None => (KTree, []) end.
Definition fstate_of_code (c : N) : fstate :=
  match find (fun f => fstate_code f =? c)
             [FUndeclared; FUnconfirmed; FMissing; FConfirmed; FPlanned; FBuilt; FOutdated; FVolatile]
  with Some f => f | None => FUndeclared end.
Definition sstate_of_code (c : N) : sstate :=
  match find (fun f => sstate_code f =? c) [SPending; SRunning; SSucceeded; SFailed; SChecking]
  with Some f => f | None => SPending end.
Definition need_of_code (c : N) : need :=
  match find (fun f => need_code f =? c) [NOptional; NDefault; NPlan] with Some f => f | None => NDefault end.
Fixpoint insert_node (x : N * node) (l : list (N * node)) : list (N * node) :=
  match l with [] => [x] | y :: r => if fst x <? fst y then x :: l else y :: insert_node x r end.
(* the transaction-model state of a scheduling snapshot (env_var rows: the histories use none) *)
Definition st_of_graph (tbl : list (key * N)) (g : graph) (cap : N) : st :=
  let kof := key_of tbl in
  let nd (i : N) (det : bool) (cr : option N) :=
    (i, mkNode (kof i) (if key_eqb (kof i) root_key then Some root_key else option_map kof cr) det) in
  mkSt (map snd (fold_right insert_node []
          (map (fun s => nd (s_key s) (s_detached s) (s_creator s)) (g_steps g)
           ++ map (fun f => nd (f_key f) (f_detached f) (f_creator f)) (g_files g)
           ++ map (fun o => nd (o_key o) (o_detached o) (o_creator o)) (g_others g))))
       (map (fun f => mkF (f_label f) (fstate_of_code (f_state f)) (if f_hash f then Some 1 else None)) (g_files g))
       (map (fun s => mkS (snd (kof (s_key s))) (sstate_of_code (s_state s)) (need_of_code (s_need s))
                          (s_deferred s) (s_defer_count s) (s_holding s)) (g_steps g))
       (map (fun d => mkD (kof (d_src d)) (kof (d_snk d)) (d_dyn d)) (g_deps g))
       (map (fun s => snd (kof (s_key s))) (filter s_hash_stored (g_steps g)))
       [] cap.
Definition res_eqb (a b : list (str * N)) : bool :=
  list_eqb (fun x y => str_eqb (fst x) (fst y) && (snd x =? snd y)) a b.
Definition step_eqb_full (a b : step) : bool := step_eqb a b && res_eqb (s_res a) (s_res b).
Definition set_eqb' {A} (e : A -> A -> bool) (l1 l2 : list A) : bool :=
  Nat.eqb (length l1) (length l2) && forallb (fun a => existsb (e a) l2) l1 && forallb (fun a => existsb (e a) l1) l2.
(* all scheduling columns, order-insensitive (the model appends new rows, the dump sorts by node id) *)
Definition graph_sim (a b : graph) : bool :=
  set_eqb' step_eqb_full (g_steps a) (g_steps b) && set_eqb' file_eqb (g_files a) (g_files b)
  && set_eqb' onode_eqb (g_others a) (g_others b) && set_eqb' dep_eqb3 (g_deps a) (g_deps b).
(* a transaction = a list of operations: all succeed (then their primitive sequences are replayed one
   after the other) or the transaction is rolled back *)
Fixpoint run_tx (idf : key -> N) (l : list (ann * op)) (s : st) (g : graph) (ok : bool)
  : option (st * graph * bool) :=
  match l with
  | [] => Some (s, g, ok)
  | (a, o) :: r =>
      match step_op_t idf a o s with
      | Ok (s', ps) => match run_prims g ps with
                       | Some g' => run_tx idf r s' g' (ok && run_ok_b g ps)
                       | None => None
                       end
      | _ => None
      end
  end.
(* 0 = projection lands on the real columns with all side conditions, the states before and after satisfy
   J (C09's invariant without the holding clause, no trees, acyclic creator links) and are coupled to the
   snapshots (the certificate of reach_certified in C10_cached_equals_spec_at_every_decision_partial);
   7 = the same with the stored workflow read off the result (reach_certified_state); otherwise which part failed *)
Definition tx_verdict (tbl : list (key * N)) (cap : N) (l : list (ann * op)) (gb ga : graph) : N :=
  let s := st_of_graph tbl gb cap in
  match run_tx (idf_of tbl) l s gb true with
  | Some (s', g', ok) =>
      if negb (graph_sim g' ga) then 1
      else if negb ok then 2
      else if negb (inv_core_b s && ntc_b s && coupled_b (idf_of tbl) s gb) then 4
      else if inv_core_b s' && ntc_b s' && coupled_b (idf_of tbl) s' g' then 0
      else
        (* the transaction model's own result is not coupled to the replayed (= real) tables: certify with the
           stored workflow read off the result (reach_certified_state); whether model/Graph.v agrees with the
           database is C09's correspondence *)
        let s2 := st_of_graph tbl g' cap in
        if inv_core_b s2 && ntc_b s2 && coupled_b (idf_of tbl) s2 g' then 7
        else if negb (inv_core_b s' && ntc_b s') then 5 else 6
  | None => 3
  end.
(* allow7: the trigger step_node_undefer_reattached fired in this transaction (decided from the real tables),
   the one place where model/Graph.v is known to lag behind the code; everywhere else only verdict 0 passes *)
Definition tx_ok (allow7 : bool) (tbl : list (key * N)) (cap : N) (l : list (ann * op)) (gb ga : graph) : bool :=
  let v := tx_verdict tbl cap l gb ga in (v =? 0) || (allow7 && (v =? 7)).
(* the certificate of reach_revert (proofs/SchedGraphMachine.v): the snapshot before a real revert_optional_steps is
   coupled to a stored workflow satisfying J and has unique file ids; so is the model's result (which the revert
   correspondence compares with the real tables) *)
Definition revert_cert (tbl : list (key * N)) (cap : N) (gb : graph) : bool :=
  let s := st_of_graph tbl gb cap in
  let g' := fst (revert_optional gb) in
  let s' := st_of_graph tbl g' cap in
  inv_core_b s && ntc_b s && coupled_b (idf_of tbl) s gb && fwf_b gb
  && inv_core_b s' && ntc_b s' && coupled_b (idf_of tbl) s' g'.
"""


def norm_root(snap: dict) -> dict:
    """The root row of the node table is its own creator (CHECK creator IS i); the coupling of
    model/SchedGraph.v drops this self-reference (node_cre: None for the root). No function of
    model/Sched.v reads the creator of the root."""
    out = dict(snap)
    out["others"] = [dict(o, creator=None) if o["kind"] == "root" else o for o in snap["others"]]
    return out


def tbl_term(tbl: dict[int, tuple[str, str]]) -> str:
    return clist(f"({ckey(k, l)}, {i})" for i, (k, l) in sorted(tbl.items()))


def tx_case(ev: dict, before: dict, after: dict, ops, to_coq, allow_state_certificate: bool = False) -> str:
    """Boolean Gallina term: the projection of the transaction lands on the real columns."""
    tbl = tbl_term(key_table(before, after))
    tx = clist(f"({a}, {o})" for a, o in ops)
    cap = after["defer_cap"]
    allow = "true" if allow_state_certificate else "false"
    return f"tx_ok {allow} {tbl} {cap} {tx} {to_coq(norm_root(before))} {to_coq(norm_root(after))}"


def revert_case(before: dict, after: dict, to_coq) -> str:
    tbl = tbl_term(key_table(before, after))
    return f"revert_cert {tbl} {after['defer_cap']} {to_coq(norm_root(before))}"


def tx_diag(ev: dict, before: dict, after: dict, ops, to_coq) -> list[str]:
    """Diagnostic terms for a failing case (printed values go into the failure detail)."""
    tbl = tbl_term(key_table(before, after))
    tx = clist(f"({a}, {o})" for a, o in ops)
    cap = after["defer_cap"]
    gb, ga = to_coq(norm_root(before)), to_coq(norm_root(after))
    return [
        f"tx_verdict {tbl} {cap} {tx} {gb} {ga}",
        f"flat_map (fun ao => trace_of (step_op_t (idf_of {tbl}) (fst ao) (snd ao) (st_of_graph {tbl} {gb} {cap}))) (firstn 1 {tx})",
        f"match run_tx (idf_of {tbl}) {tx} (st_of_graph {tbl} {gb} {cap}) {gb} true with Some (_, g', _) => "
        f"(filter (fun x => negb (existsb (step_eqb_full x) (g_steps {ga}))) (g_steps g'), "
        f"filter (fun x => negb (existsb (file_eqb x) (g_files {ga}))) (g_files g'), "
        f"filter (fun x => negb (existsb (dep_eqb3 x) (g_deps {ga}))) (g_deps g'), "
        f"filter (fun x => negb (existsb (dep_eqb3 x) (g_deps g'))) (g_deps {ga})) "
        f"| None => ([], [], [], []) end",
    ]
