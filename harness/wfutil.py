"""Helpers to drive the real Workflow / Scheduler on an in-memory database."""
from __future__ import annotations

import asyncio
import contextlib
import hashlib

from stepup.core.enums import HashUpdateCause, Need, StepState
from stepup.core.file import File
from stepup.core.hash import FileHash
from stepup.core.scheduler import Scheduler
from stepup.core.sqlite3 import DBSession
from stepup.core.step import Step
from stepup.core.workflow import Workflow


def fake_hash(path: str) -> FileHash:
    digest = b"d" if path.endswith("/") else hashlib.sha256(path.encode("utf8")).digest()
    mode = 0o755 if path.endswith("/") else 0o644
    return FileHash(digest, mode, 1.0, len(path) ** 2, len(path))


class WF:
    """A real workflow with a boot plan step, inside one open transaction-less session."""

    def __init__(self, **wfkw):
        self.stack = contextlib.ExitStack()
        self.wfkw = wfkw

    async def __aenter__(self):
        self.db = self.stack.enter_context(DBSession.open(":memory:"))
        self.wf = Workflow(self.db, dir_queue=None, **self.wfkw)
        await self.wf.initialize()
        self.sched = Scheduler(self.wf, db=self.db)
        await self.sched.initialize(None)
        async with self.db:
            self.confirm_static(self.wf.root, ["plan.py"])
            self.wf.define_step(self.wf.root, "./plan.py", inp_paths=["plan.py"], need=Need.PLAN, _safe=True)
            self.plan = self.wf.find(Step, "./plan.py")
            self.plan.set_state(StepState.RUNNING)
        return self

    async def __aexit__(self, *a):
        self.stack.close()

    def confirm_static(self, creator, paths):
        unconfirmed = self.wf.declare_static_files(creator, paths)
        self.wf.update_file_hashes({p: fake_hash(p) for p in unconfirmed}, cause=HashUpdateCause.CONFIRMED)


def run(coro):
    return asyncio.run(coro)
