"""C02: the result of a build does not depend on scheduling."""
from __future__ import annotations

import asyncio
import itertools
import random

from . import c02_e2 as b2
from . import c02_e3 as b3
from . import c02_rerun as rr
from stepup.core.enums import FileState

from . import common, e2, e3
from .c02_witness import VERDICTS, WITNESSES

PID = "C02"
PROPS_FILE = "props/C02.v"
MODEL_TARGETS = ["model/Commute.vo", "model/CommuteBuild.vo", "model/CommuteX.vo"]
RULE = ("E2 both orders: states reached by the seeded e2 generator (real Workflow + Scheduler, in-memory "
        "SQLite) with at least two running commands; pairs of requests (declare_static / define_step / "
        "amend_step / CONFIRMED hash result / exec_end) of two DIFFERENT running steps over a pool of 2-4 "
        "shared paths and 2 shared labels are applied in both orders (savepoints inside one rolled-back "
        "transaction; a sample and every difference re-done with two replayed databases and real "
        "transactions); outcome classes, message texts and final canonical dumps are compared, and the "
        "model's both-orders result (Commute.orders_check) is compared with the implementation's. A pair is "
        "non-trivial when both requests are accepted in some order or refuse each other; distinct by "
        "(state, r1, r2). E3: generated projects with concurrently running sub-plans that declare "
        "overlapping things, each built from scratch under -j1, -j4 with three seeded gate-release orders "
        "(start and end gates), a resource-limited run and a resumed no-change run; canonical graphs, "
        "return-code classes and (for one two-party conflict) error texts are compared; timing projects "
        "(a consumer reads an undeclared file and waits at a gate, its producer stops, unrelated steps start "
        "and stop in seeded, partly overlapping orders, then the consumer amends the file) under -j1 versus "
        "-j6 with four such gate orders and one random order: files and graph digests must agree. "
        "Re-executed steps (E2, c02_rerun): a step S whose script changed is executed again "
        "(reset_for_rerun detaches its product subtree, then it re-declares its producers one request at a "
        "time: unchanged / changed specification / dropped) while a running sibling U amends inputs among the "
        "outputs of that subtree or defines a consumer of them; U's request is placed at EVERY position among "
        "S's transactions, both steps complete (defer exactly when the real amend_step reported unavailable or "
        "unfresh inputs) and the real Scheduler.pop_next_job drives the build to quiescence; final dump "
        "(incl. deferred flags) and return-code class must not depend on the position; every executed sequence "
        "is replayed by the model (Commute.rerun_check). E3 (gen_rerun): second builds of generated projects in "
        "which sub-plans and sibling workers changed trivially, workers amend / define consumers of files "
        "produced under those sub-plans (also two levels below), -j1 versus -j4 with three directed gate orders "
        "(workers first, workers inside the re-execution, sub-plans first) and two seeded ones")
TRUSTED_BASE = [
    "Coq 8.16.1 kernel; vm_compute in the refutation lemmas, Examples and the correspondence evaluation",
    "Print Assumptions: Closed under the global context for every C02 theorem",
    "hand-written model coq/model/Graph.v (owned by C09, tied to the code by the E2 correspondence of C09 and, "
    "for pairs applied in both orders, by Commute.orders_check here)",
    "harness/e2.py Impl (real Workflow/Scheduler calls composed as the director handlers and executor do)",
    "harness/c02_e2.py savepoint emulation of per-request transactions (cross-checked against real transactions)",
    "harness/e3.py (real serve() in-process with simulated steps and gate-controlled completion order)",
    "no extraction: the model is evaluated inside Coq",
]
ASSUMPTIONS = [
    "the engine's only scheduling nondeterminism is the commit order of transactions of concurrently running "
    "steps (one transaction per RPC request, serialised by DBSession; C15)",
    "SQLite executes triggers, CHECK constraints, savepoints and transactions as documented",
    "not modelled in Graph.v: glob registrations (D3 is C08's), static trees, resources, targets, durations",
    "theorems are about the transaction-level model; confluence of the whole engine (dispatch, dynamic "
    "behaviour of steps) is stated as C02_full and not proved",
]

HEADER = ("From Coq Require Import List NArith Bool.\nImport ListNotations.\n"
          "From SV Require Import lib.Bytes model.Graph model.GraphDump model.GraphInv model.Commute.\n"
          "Open Scope N_scope.\n")
# the comparisons with the real Workflow use the transactions as the code has them since 84081f2
# (model/CommuteX.v: Graph.step_op followed by GraphExt.undefer_post); the refutation witnesses are checked
# against both_orders of model/Commute.v, which is what the lemmas state
HEADER_X = HEADER.replace("model.Commute.", "model.Commute model.GraphExt model.CommuteX.")
HEADER_HZ = HEADER.replace("model.Commute.", "model.Commute model.Dispatch model.CommuteBuild model.GraphExt model.CommuteX.")
HZ_CODE = {"D22": 22, "D23": 23, "D24": 24, "det": 1}


def _cq_op(op):
    """Plain model/Graph.v operation (harness/e2.py wraps them in GraphTree's OpBase since the
    static-tree layer exists; C02's traces never register a tree)."""
    return getattr(e2, "cq_base_op", e2.cq_op)(op)


def generate(ctx):
    """The message templates, verbs and hints behind C02_conflict_text_order_independent are those of
    C08's translator: re-read workflow.py and rewrite gen/GenClaims.v (fail-closed, same text as C08
    writes; a changed template shows up as a gen/golden difference and, when it breaks the symmetry
    of a message, as a broken obligation of props/C02.v)."""
    from translator import gen_claims
    text, facts = gen_claims.generate()
    ctx.write_gen("GenClaims.v", text)
    ctx.stats["claims_skeletons"] = facts.get("skeletons")
    # model/CommuteX.v (the transactions as the code has them since 84081f2) reads GraphExt.undefer_post,
    # whose shape follows gen/GenGraph.gen_undefer_refined: regenerate it from the repository under test
    # (C09's fail-closed translator) so that a run against another tree does not use a stale flag
    from translator import gen_graph
    gen_graph.generate(ctx)


# ---------------------------------------------------------------------------------------------
# E2 data: states and pairs
# ---------------------------------------------------------------------------------------------

def _node_status(g, key):
    if key not in g.detached:
        return "absent"
    if not g.detached[key]:
        return "attached"
    return "stale" if g.creator.get(key) is not None else "orphan"


def _issuer(r):
    n = r[0]
    if n in ("declare_static", "define_step"):
        return r[1]
    if n in ("amend_step", "exec_end"):
        return ("step", r[1])
    return None


def _fresh(g, r):
    """Mirror of Commute.fresh_req: issuer attached, no stale path, defined label absent."""
    c = _issuer(r)
    if c is not None and _node_status(g, c) != "attached":
        return False
    if any(_node_status(g, ("file", p)) == "stale" for p in b2.paths_of(r)):
        return False
    if r[0] == "define_step" and _node_status(g, ("step", r[2])) != "absent":
        return False
    return True


def _hazards(g, r):
    """Mirror of model/CommuteBuild.hazards on the real database (g.d = Impl._dump of the state the two
    requests meet): the circumstances under which a request of a running step is known not to commute.
      D22 stale-volatile-input  an input is supplied that is a stale node (detached, still owned) with a VOLATILE row
      D23 stale-wired-input     ... a stale node that still has an incoming dependency edge
      D24 recycle               define_step on a label whose node exists
      det detached-issuer       the issuer's node is detached (its creator is being executed again)"""
    hz = []
    n = r[0]
    inputs = r[3] if n == "define_step" else (r[2] if n == "amend_step" else ())
    wired = {b for _a, b, _dy in g.d["deps"]}
    stale = [p for p in inputs if _node_status(g, ("file", p)) == "stale"]
    if any(g.fstate.get(p) == FileState.VOLATILE.value for p in stale):
        hz.append("D22")
    if any(g.fstate.get(p) != FileState.VOLATILE.value and ("file", p) in wired for p in stale):
        hz.append("D23")
    if n == "define_step" and _node_status(g, ("step", r[2])) != "absent":
        hz.append("D24")
    c = _issuer(r)
    if c is not None and _node_status(g, c) != "attached":
        hz.append("det")
    return hz


def _defer_vs_reattach(p):
    """Cause of a DIFF-GRAPH pair: one request is exec_end(S, ..., wants_defer=True), both orders accept
    both requests and the ONLY difference between the two final dumps is the deferred flag of S (the other
    request re-attached an input of S, which clears the flag: trigger step_node_undefer_reattached)."""
    if p["verdict"] != "DIFF-GRAPH":
        return False
    ends = [r for r in (p["r1"], p["r2"]) if r[0] == "exec_end" and r[6]]
    if len(ends) != 1:
        return False
    diff = (p["detail"] or {}).get("only_in_12_vs_21") or {}
    if set(diff) != {"steps"}:
        return False
    a, b = diff["steps"]
    if len(a) != 1 or len(b) != 1:
        return False
    import ast
    ra, rb = ast.literal_eval(a[0]), ast.literal_eval(b[0])
    # step rows: (label, state, need, deferred, defer_count, holding, has_hash)
    return (ra[0] == rb[0] == ends[0][1] and ra[3] != rb[3]
            and ra[:3] + ra[4:] == rb[:3] + rb[4:])


def _pair_signature(p):
    if _defer_vs_reattach(p):
        return f"C02:noncommute:defer-vs-reattach:{p['kind']}"
    return f"C02:noncommute:{'fresh' if p['fresh'] else 'hazard-free'}:{p['kind']}:{p['verdict']}"


def _gen_pair(rng, g, running):
    c1, c2 = rng.sample(running, 2)
    pool = rng.sample(e2.FILES, rng.randint(2, 5))
    labels = rng.sample(e2.STEPS, 2)
    m = rng.random()
    if m < 0.72:
        r1 = b2.gen_request(rng, g, c1, pool, labels=labels)
        r2 = b2.gen_request(rng, g, c2, pool, labels=labels)
    elif m < 0.86:
        r1 = b2.gen_confirm(rng, g)
        r2 = b2.gen_request(rng, g, c2, pool, labels=labels) if rng.random() < 0.6 else b2.gen_confirm(rng, g)
        if r1 is None or r2 is None:
            return None
    else:
        r1 = b2.gen_exec_end(rng, g, c1)
        r2 = b2.gen_request(rng, g, c2, pool, labels=labels)
    for r in (r1, r2):
        # a step that defines itself is refused by a CHECK constraint (C09's business)
        if r[0] == "define_step" and r[2] == r[1][1]:
            return None
    if "update_hashes" in (r1[0], r2[0]) and b2.paths_of(r1) & b2.paths_of(r2):
        return None      # hash result versus declaration of the SAME path: see the witness
    return r1, r2


async def _collect_state(seed, length, npairs, rng):
    impl, g = await b2.make_state(seed, length)
    rec = {"seed": seed, "ops": [t[0] for t in g.trace if t[0][0] != "dispatch_error"],
           "ops_full": list(g.ops_full), "pairs": []}
    try:
        running = g.running()
        if len(running) < 2:
            return rec
        await g.snapshot()
        for _ in range(npairs):
            pr = _gen_pair(rng, g, running)
            if pr is None:
                continue
            r1, r2 = pr
            res = await b2.orders_savepoint(impl, r1, r2)
            verdict, detail = b2.compare(r1, r2, res)
            fails_anyway = any(r[0] == "exec_end" and not r[5] and not r[6] for r in (r1, r2))
            rec["pairs"].append({"r1": r1, "r2": r2, "res": res, "verdict": verdict, "detail": detail,
                                 "kind": b2.pair_kind(r1, r2), "fresh": _fresh(g, r1) and _fresh(g, r2),
                                 "hz": [_hazards(g, r1), _hazards(g, r2)],
                                 "fails_anyway": fails_anyway,
                                 "status": {p: _node_status(g, ("file", p))
                                            for p in sorted(b2.paths_of(r1) | b2.paths_of(r2))}})
    finally:
        impl.close()
    return rec


def _states(ctx):
    if getattr(ctx, "c02_states", None) is None:
        n, npairs = ctx.scale((160, 30), (450, 40))
        out = []
        for i in range(n):
            rng = random.Random(f"c02-pairs-{ctx.seed}-{ctx.tier}-{i}")
            out.append(asyncio.run(_collect_state(f"c02-{ctx.seed}-{ctx.tier}-{i}", 12 + (i * 7) % 75,
                                                  npairs, rng)))
        ctx.c02_states = out
    return ctx.c02_states


def _reruns(ctx):
    if getattr(ctx, "c02_reruns", None) is None:
        n = ctx.scale(70, 900)
        seeds = [100000 * ctx.seed + i for i in range(n)]
        ctx.c02_reruns = e3.pool_map(rr.run_scenario, seeds, nproc=6)
    return ctx.c02_reruns


def _cq_tr(ops):
    return common.coq_list([f"({_cq_op(o)}, {e2.OUTC[oc]})" for o, oc in ops])


def _rerun_term(r, name="rerun_check"):
    nbase = r["nbase"]
    base = r["model"][0][0][:nbase]
    cases = common.coq_list([f"({_cq_tr(ops[nbase:])}, {e2.cq_dump(d)})" for ops, d in r["model"]])
    return f"{name}_e 3 {_cq_tr(base)} {cases}"


def _rerun_wit(r, diff=None):
    sc = r["sc"]
    w = {"kind": "e2-rerun", "seed": r["seed"], "variant": sc["variant"], "S": sc["S"], "U": sc["U"],
         "first_declarations_of_S": [repr(f) for f in sc["fam"]],
         "second_declarations_of_S": [repr(f) for f in sc["redecl"]], "request_of_U": repr(sc["ureq"])}
    if diff is not None:
        w.update({"position": diff["k"], "U_completes_after_S": diff["u_late"], "rc_class": diff["rc"],
                  "only_in_position0_vs_k": diff["only_in_pos0_vs_k"], "replies_to_U": diff["replies"],
                  "transactions_position0": [repr(o) for o, _ in r["model"][0][0][r["nbase"]:]],
                  "transactions_position_k": [repr(o) for o, _ in r["model"][diff["run"]][0][r["nbase"]:]]})
    return w


def _cq_exp(order):
    outs, dump = order
    return f"({b2.cq_outcome(outs[0])}, {b2.cq_outcome(outs[1])}, {e2.cq_dump(dump)})"


def _cq_case(p):
    (o12, o21) = p["res"]
    return f"({_cq_op(p['r1'])}, {_cq_op(p['r2'])}, {_cq_exp(o12)}, {_cq_exp(o21)})"


def _wit(p):
    return {"kind": "e2-pair", "r1": repr(p["r1"]), "r2": repr(p["r2"]), "status": p.get("status"),
            "order_r1_r2": [list(x) for x in p["res"][0][0]], "order_r2_r1": [list(x) for x in p["res"][1][0]],
            "detail": p["detail"]}


# ---------------------------------------------------------------------------------------------
# correspondence: model versus implementation on both orders; witnesses
# ---------------------------------------------------------------------------------------------

def correspondence(ctx):
    states = _states(ctx)
    per_state = ctx.scale(10, 12)
    checks, idx = [], []
    for si, st in enumerate(states):
        pairs = st["pairs"][:per_state]
        if not pairs:
            continue
        ops = common.coq_list([_cq_op(o) for o in st["ops"]])
        cases = common.coq_list([_cq_case(p) for p in pairs])
        checks.append(f"orders_check_e 3 {ops} {cases}")
        idx.append(si)
        ctx.count("model-vs-impl pairs", len(pairs))
    bad = common.run_cases(ctx, "orders", HEADER_X, checks, chunk=4)
    ctx.traces_validated += len(checks) - len(bad)
    for b in bad[:3]:
        st = states[idx[b]]
        pairs = st["pairs"][:per_state]
        ops = common.coq_list([_cq_op(o) for o in st["ops"]])
        cases = common.coq_list([_cq_case(p) for p in pairs])
        v = common.eval_terms(ctx, "ordersdiag", HEADER_X, [f"orders_bad_e 3 {ops} {cases}"])
        flags = [x == "true" for x in (v[0] or "").replace("[", " ").replace("]", " ").replace(";", " ").split()]
        k = flags.index(False) if False in flags else 0
        p = pairs[k]
        ctx.add_failure("correspondence", "E2:both-orders", f"E2:both-orders:{p['kind']}",
                        f"model and implementation disagree on a pair applied in both orders (state {st['seed']})",
                        witness=dict(_wit(p), trace=[repr(o) for o in st["ops"]]))
    # the hazard classification of the oracle (on the real database) against model/CommuteBuild.hazards
    hchecks, hidx = [], []
    for si, st in enumerate(states):
        pairs = st["pairs"][:per_state]
        if not pairs or (si % 2 and not ctx.thorough()):
            continue
        ops = common.coq_list([_cq_op(o) for o in st["ops"]])
        cases = common.coq_list([f"({_cq_op(r)}, {common.coq_list([str(HZ_CODE[h]) for h in hz])})"
                                 for p in pairs for r, hz in ((p["r1"], p["hz"][0]), (p["r2"], p["hz"][1]))])
        hchecks.append(f"(let s := run_ops_e {ops} (init_st 3) in "
                       f"forallb (fun c : op * list N => str_eqb (hazard_codes (fst c) s) (snd c)) {cases})")
        hidx.append(si)
        ctx.count("model-vs-impl hazard classifications", 2 * len(pairs))
    badh = common.run_cases(ctx, "hazards", HEADER_HZ, hchecks, chunk=8)
    ctx.traces_validated += len(hchecks) - len(badh)
    for b in badh[:3]:
        st = states[hidx[b]]
        ctx.add_failure("correspondence", "E2:hazards", "E2:hazard-classes",
                        f"model/CommuteBuild.hazards and the oracle's classification on the real database disagree "
                        f"(state {st['seed']})",
                        witness={"kind": "e2-hazards", "trace": [repr(o) for o in st["ops"]],
                                 "requests": [[repr(p["r1"]), p["hz"][0], repr(p["r2"]), p["hz"][1]]
                                              for p in st["pairs"][:per_state]]})
    # re-executed steps: every executed sequence against the model
    reruns = [r for r in _reruns(ctx) if "skip" not in r]
    rchecks = [_rerun_term(r) for r in reruns]
    for r in reruns:
        ctx.count("model-vs-impl rerun sequences", len(r["model"]))
    badr = common.run_cases(ctx, "rerun", HEADER_X, rchecks, chunk=6)
    ctx.traces_validated += len(rchecks) - len(badr)
    for b in badr[:3]:
        r = reruns[b]
        v = common.eval_terms(ctx, "rerundiag", HEADER_X, [_rerun_term(r, "rerun_bad")])
        flags = [x == "true" for x in (v[0] or "").replace("[", " ").replace("]", " ").replace(";", " ").split()]
        k = flags.index(False) if False in flags else 0
        ops, final = r["model"][k]
        ctx.add_failure("correspondence", "E2:rerun", f"E2:rerun:{r['sc']['variant']}:{r['sc']['ukind']}",
                        f"model and implementation disagree on a sequence of the rerun oracle (scenario {r['seed']}, "
                        f"run {k}; base history accepted by the model: {bool(flags)})",
                        witness=dict(_rerun_wit(r), run=k, transactions=[repr(o) + " -> " + oc for o, oc in ops],
                                     final_steps=[list(x) for x in final["steps"]]))
    # a sample of pairs again with two replayed databases and real transactions
    rng = random.Random(f"c02-replay-{ctx.seed}")
    nrep = ctx.scale(12, 60)
    cand = [(st, p) for st in states for p in st["pairs"][:3]]
    for st, p in rng.sample(cand, min(nrep, len(cand))):
        try:
            res = asyncio.run(b2.orders_replay(st["ops_full"], p["r1"], p["r2"]))
        except RuntimeError as e:      # the replayed scheduler chose differently: not comparable
            ctx.count("savepoint-vs-transaction: replay diverged")
            ctx.notes.append(f"state {st['seed']}: {e}")
            continue
        ctx.count("savepoint-vs-transaction checks")
        if res != p["res"]:
            ctx.add_failure("correspondence", "savepoint-vs-transaction", "C02:harness:savepoint-vs-transaction",
                            "savepoint emulation and real per-request transactions disagree",
                            witness=dict(_wit(p), trace=[repr(o) for o in st["ops"]]))
    # witnesses of the refutation lemmas: model verdict and real-code verdict
    wchecks = []
    for name, w in WITNESSES.items():
        ops = common.coq_list([_cq_op(o) for o in w["trace"]])
        wchecks.append(f"(verdict_code (both_orders ({_cq_op(w['r1'])}) ({_cq_op(w['r2'])}) "
                       f"(run_ops {ops} (init_st 3))) =? {VERDICTS[w['verdict']]}) && "
                       f"all_ok {ops} (init_st 3)")
    badw = common.run_cases(ctx, "wit", HEADER, wchecks, chunk=10)
    names = list(WITNESSES)
    for b in badw:
        ctx.add_failure("correspondence", f"witness:{names[b]}", f"C02:witness:{names[b]}:model",
                        "the Python witness no longer has the verdict the refutation lemma states in the model",
                        witness={"witness": names[b]})
    ctx.c02_wit = {}
    for name, w in WITNESSES.items():
        res = asyncio.run(b2.orders_replay(w["trace"], w["r1"], w["r2"]))
        verdict, detail = b2.compare(w["r1"], w["r2"], res)
        ctx.c02_wit[name] = (verdict, detail, res)
        ctx.count(f"witness:{name}:{verdict}")
        if verdict != w["verdict"]:
            ctx.add_failure("correspondence", f"witness:{name}", f"C02:witness:{name}:implementation",
                            f"refutation witness replayed on the real Workflow gives {verdict}, the model "
                            f"(and the lemma) say {w['verdict']}",
                            witness={"witness": name, "detail": detail})


# ---------------------------------------------------------------------------------------------
# oracle
# ---------------------------------------------------------------------------------------------

def _conflict_path(text):
    import re
    m = re.search(r"File \((.*?)\)", text) or re.search(r"volatile: (.*)$", text)
    return m.group(1) if m else None


def _text_class(t1, t2):
    """Two requests may conflict in several ways (two paths, a path and a cycle); which conflict is
    reported first then depends on the order and says nothing about the symmetry of one message.
    Texts are compared only when both name the same path."""
    p1, p2 = _conflict_path(t1), _conflict_path(t2)
    if p1 is None or p2 is None or p1 != p2:
        return None
    def vol(t):
        return "Input is volatile" in t or "cannot be volatile" in t
    if vol(t1) and vol(t2):
        return "volatile-vs-input"
    return "same-path-collision"


# What each known stale-node scenario looks like when its OWN cause is at work: -j1 succeeds, the racing
# schedule is refused exactly one request, of this issuer, through this RPC, with this exception class and
# a message naming this path / these parties.  Any other difference between the two schedules of the same
# scenario (another request refused, another class, the roles of the schedules exchanged, a refusal under
# -j1) is a DIFFERENT violation and is reported under its own signature, never under the known one.
SCENARIO_CAUSE = {
    "stale_volatile_input": ("./sub.py", "define_step", "GraphError", r"File \(v\.txt\).*volatile.*step \(mkv\).*input.*step \(use\)"),
    "stale_output_cycle": ("./a.py", "amend_step", "CyclicError", r"cyclic dependency"),
    "recycle_subtree": ("./plan.py", "declare_static", "GraphError", r"File \(f\.txt\).*static by step \(\./plan\.py\).*built by step \(u\)"),
}


def _scenario_signature(name, r, known):
    import re
    exp = SCENARIO_CAUSE.get(name)
    j1, j2 = r["j1"], r["j2"]
    if exp and j1["cls"] == "ok" and not j1["rejected"] and j2["cls"].startswith("FAILED") and len(j2["rejected"]) == 1:
        lab, rpc, exc, pat = exp
        x = j2["rejected"][0]
        if x[0] == lab and x[1] == rpc and x[2] == exc and re.search(pat, x[3]):
            return known
        return f"C02:scenario:{name}:other-refusal:{x[1]}:{x[2]}"
    return f"C02:scenario:{name}:other-difference:j1={j1['cls']}:j2={j2['cls']}"


def _graph_diff_site(detail):
    """Where two canonical graphs differ: 'step.inp_digest', 'file.digest+step.state', 'nodes' ..."""
    if not isinstance(detail, dict):
        return "?"
    sites = set()
    for key, v in detail.items():
        a, b = (v or {}).get("j1"), (v or {}).get("other")
        kind = str(key).split(":", 1)[0]
        if not a or not b:
            sites.add(f"{kind}.presence")
            continue
        for part in ("props", "rel"):
            pa, pb = a.get(part) or {}, b.get(part) or {}
            for k in set(pa) | set(pb):
                if pa.get(k) != pb.get(k):
                    sites.add(f"{kind}.{k}")
    return "+".join(sorted(sites)) or "?"


def _e3_signature(r, kind, sched, detail=None):
    """Signature of a difference found by an E3 family: the known causes by their CIRCUMSTANCES (read off
    the harness' clock, per schedule and per step label), everything else with family and differing site."""
    fam = r["item"][0]
    prof = (r.get("profiles") or {}).get(sched) or {}
    if fam == "deferplan" and kind == "rc-class" and r["meta"].get("requests") == ["static", "static"]:
        by = r.get("by_schedule") or {}
        # which step had a request ACCEPTED / completed between the restart of its creator and the
        # creator's define_step that attaches it again
        req = sorted(k.split(":", 1)[1] for k in prof if k.startswith("detached-request:"))
        end = sorted(k.split(":", 1)[1] for k in prof if k.startswith("detached-completion:"))
        refused = (by.get(sched) or ["", [], []])[2]
        if by.get("j1", [""])[0].startswith("FAILED"):
            other = by.get(sched, [""])[0]
            if other == "ok" and len(req) >= 1:
                # nothing was refused although the two workers claim one file: a claim made by a detached
                # step was ignored / taken over
                return "C02:noncommute:detached-issuer"
            if other == "DRAINED" and refused and set(refused) <= set(req) | set(end):
                # the refused worker was detached when it asked or when it completed: its failure is not counted
                return "C02:noncommute:detached-issuer:failed-vs-pending"
    site = _graph_diff_site(detail) if kind in ("graph", "graph-digests") else ""
    if kind == "graph-digests" and site == "step.inp_digest":
        # the stored step hash of a step that completed successfully while one of its amended inputs was
        # detached (a creator above the input's producer was running again) leaves that input out
        steps = sorted(str(k).split(":", 1)[1] for k in detail)
        done = {k.split(":", 1)[1] for k in prof if k.startswith("detached-input-completion:")}
        if steps and set(steps) <= done:
            return "C02:noncommute:detached-input-at-completion"
    return f"C02:e3:{kind}:{fam}" + (f":{site}" if site else "")


def oracle(ctx):
    states = _states(ctx)
    # ---- E2: both orders on the real Workflow
    for st in states:
        for p in st["pairs"]:
            v, kind = p["verdict"], p["kind"]
            frag = "fresh" if p["fresh"] else "stale-or-detached"
            nontrivial = v != "both-reject" or "texts" in p["detail"]
            ctx.case((st["seed"], repr(p["r1"]), repr(p["r2"])), nontrivial=nontrivial)
            if p["fails_anyway"] and v in ("DIFF-SUCCESS", "DIFF-GRAPH"):
                ctx.count(f"e2:{frag}:{kind}:fails-anyway")
                continue
            ctx.count(f"e2:{frag}:{kind}:{v}")
            texts = p["detail"].get("texts")
            if texts:
                ctx.count("e2:texts:" + ("equal" if texts[0] == texts[1] else
                                         (_text_class(*texts) or "several-conflicts")))
            if texts and texts[0] != texts[1] and _text_class(*texts):
                tc = _text_class(*texts)
                ctx.add_failure("oracle", "error-text-symmetry", f"C02:error-text:{tc}",
                                f"two individually acceptable requests refuse each other with different texts "
                                f"depending on the arrival order: {texts[0]!r} versus {texts[1]!r}",
                                witness=dict(_wit(p), trace=[repr(o) for o in st["ops"]]))
            if v in ("commute", "both-reject"):
                continue
            hz = sorted(set(p["hz"][0] + p["hz"][1]))
            ctx.count(f"e2:hazard:{'+'.join(hz) or 'none'}:{v}")
            if not hz:
                # no known hazard class applies to either request: the pair has to commute.  (`fresh` pairs
                # are a subset: issuers attached, no stale path at all, label absent.)
                ctx.add_failure("oracle", "both-orders", _pair_signature(p),
                                f"two requests of different attached running steps to which none of the hazard "
                                f"classes (stale volatile input, stale wired input, recycle, detached issuer) "
                                f"applies do not commute on the real Workflow ({v})",
                                witness=dict(_wit(p), trace=[repr(o) for o in st["ops"]]))
            # a hazard applies: counted per class (see the witnesses / scenarios for the classes found)
    # ---- E2: a re-executed step against a sibling's request, every arrival position
    for r in _reruns(ctx):
        if "skip" in r:
            ctx.count("e2r:base-state-not-reached")
            continue
        sc = r["sc"]
        ctx.case(("e2r", r["seed"]), nontrivial=len(r["verdicts"]) > 1 or r["verdicts"] == ["defer"])
        ctx.count(f"e2r:{sc['variant']}:{sc['ukind']}:replies={'/'.join(map(str, r['verdicts']))}")
        ctx.count(f"e2r:rc={'/'.join(r['rcs'])}")
        ctx.count("e2r:runs", r["nruns"])
        for dff in r["diffs"][:1]:
            what = "rc-class" if dff["rc"][0] != dff["rc"][1] else ("not-quiescent" if dff["quiet"][0] != dff["quiet"][1] else "graph")
            if sc["variant"] == "dropped":
                # S no longer declares a producer whose output U asks for: U succeeds when its request
                # arrives before the failed skip check of S detached the producer, and is refused for good
                # afterwards.  Transaction level only (design.d/C02.md, "observed"); counted.
                ctx.count(f"e2r:dropped:{sc['ukind']}:position-dependent:{what}")
                continue
            ctx.add_failure("oracle", "rerun-positions", f"C02:rerun:{sc['variant']}:{sc['ukind']}:{what}",
                            f"step {sc['S']} is executed again and re-declares its products while {sc['U']} asks for "
                            f"files of that subtree: the state after both completed and nothing is dispatchable any "
                            f"more depends on where the request arrived (position 0 versus {dff['k']}: "
                            f"{dff['rc'][0]} versus {dff['rc'][1]})", witness=_rerun_wit(r, dff))
    # ---- a worker that is refused a detached input is dispatched again at once (counted, see design.d)
    bd = b3.run_busy_defer_scenario()
    ctx.count(f"scenario:busy_defer:j1={bd['j1']}:starved={bd['starved']}:runs_of_worker={bd['worker_runs']}")
    # ---- witnesses classified as findings: the system-level scenario decides
    for name, w in WITNESSES.items():
        if w["cls"] != "finding":
            continue
        r = b3.run_scenario(name)
        ctx.case(("scenario", name), nontrivial=True)
        ctx.count(f"scenario:{name}:j1={r['j1']['cls']}:j2={r['j2']['cls']}")
        if r["j1"]["first"] != "ok":
            ctx.add_failure("oracle", f"scenario:{name}", f"C02:scenario:{name}:setup",
                            "the first build of the scenario did not succeed", witness=r)
        elif r["j1"]["cls"] != r["j2"]["cls"]:
            ctx.add_failure("oracle", f"scenario:{name}", _scenario_signature(name, r, w["signature"]),
                            f"same database, sources and plan: -j1 ends {r['j1']['cls']}, -j2 with the other "
                            f"arrival order ends {r['j2']['cls']} {r['j2']['rejected'] or r['j1']['rejected']}",
                            witness={"kind": "scenario", "name": name, "j1": r["j1"]["cls"], "j2": r["j2"]["cls"],
                                     "rejected_j1": r["j1"]["rejected"], "rejected_j2": r["j2"]["rejected"],
                                     "project": r["project"], "edit": r["edit"],
                                     "e2_witness": {"trace": [repr(o) for o in w["trace"]],
                                                    "r1": repr(w["r1"]), "r2": repr(w["r2"])}})
        elif r["j1"]["cls"] == "ok" and r["j1"]["graph"] != r["j2"]["graph"]:
            ctx.add_failure("oracle", f"scenario:{name}", w["signature"] + ":graph",
                            "same database, sources and plan: both schedules succeed with different graphs",
                            witness={"kind": "scenario", "name": name})
    # ---- a worker whose requests arrive while its creator runs AGAIN within one build (detached issuer)
    ds = b3.run_detached_issuer_scenario()
    ctx.case(("scenario", "detached_issuer"), nontrivial=True)
    ctx.count(f"scenario:detached_issuer:j1={ds['j1']['cls']}:attached={ds['j4-attached']['cls']}:"
              f"detached={ds['j4-detached']['cls']}:requests-while-detached={ds['j4-detached']['requests_while_detached']}")
    if ds["j4-attached"]["cls"] != ds["j1"]["cls"]:
        ctx.add_failure("oracle", "scenario:detached_issuer", "C02:scenario:detached_issuer:control",
                        "the control schedule (requests before the creator is dispatched again) differs from -j1",
                        witness=dict(ds, kind="detached-issuer-scenario"))
    elif ds["j4-detached"]["cls"] != ds["j1"]["cls"]:
        own = (ds["j1"]["cls"].startswith("FAILED") and ds["j4-detached"]["cls"] == "ok"
               and len(ds["j4-detached"]["accepted_while_detached"]) >= 1)
        ctx.add_failure("oracle", "scenario:detached_issuer",
                        "C02:noncommute:detached-issuer" if own else
                        f"C02:scenario:detached_issuer:other-difference:j1={ds['j1']['cls']}:j4={ds['j4-detached']['cls']}",
                        f"one build from scratch: two workers declare s1.txt static; -j1 ends {ds['j1']['cls']} "
                        f"{[x[3][:90] for x in ds['j1']['rejected']]}, -j4 with both requests arriving while the "
                        f"workers are detached (their creator was deferred and is running again) ends "
                        f"{ds['j4-detached']['cls']}", witness=dict(ds, kind="detached-issuer-scenario"))
    # ---- a worker that amends an output of a re-executed sub-plan while that output is detached
    di = b3.run_detached_input_scenario()
    ctx.case(("scenario", "detached_input"), nontrivial=di["j2-worker-first"]["runs_of_worker"] >= 2)
    ctx.count(f"scenario:detached_input:j1={di['j1']['cls']}:worker-first={di['j2-worker-first']['cls']}"
              f"(runs={di['j2-worker-first']['runs_of_worker']}):sub-first={di['j2-sub-first']['cls']}")
    for name in ("j2-worker-first", "j2-sub-first"):
        what = ("rc-class" if di[name]["cls"] != di["j1"]["cls"] else
                "graph" if di["j1"]["cls"] == "ok" and di[name]["graph"] != di["j1"]["graph"] else None)
        if di["j1"]["first"] != "ok":
            what = "setup"
        if what:
            ctx.add_failure("oracle", "scenario:detached_input", f"C02:scenario:detached-input:{name}:{what}",
                            f"second build, ./sub.py re-executed (its unchanged producer w is recycled) while ./use.py "
                            f"amends w.out: -j1 ends {di['j1']['cls']}, {name} ends {di[name]['cls']} "
                            f"({di[name]['runs_of_worker']} runs of the worker)",
                            witness={"kind": "detached-input-scenario", "schedule": name,
                                     **{k: di[k] for k in ("project", "edit")},
                                     "j1": {k: v for k, v in di["j1"].items() if k != "graph"},
                                     name: {k: v for k, v in di[name].items() if k != "graph"}})
            break
    # ---- a worker that completes while an amended input is detached (a creator above its producer runs again)
    dc = b3.run_detached_input_completion_scenario()
    ctx.case(("scenario", "detached_input_completion"), nontrivial=True)
    a, b, c = dc["j1"], dc["j2-completes-while-detached"], dc["j2-completes-after"]
    ctx.count(f"scenario:detached_input_completion:control={'same' if c['worker'] == a['worker'] else 'DIFFERENT'}:"
              f"while-detached={'same' if b['worker'] == a['worker'] else 'different-inp_digest'}")
    def _same(x, y, digests=True):
        return (x["cls"] == y["cls"] and x["files"] == y["files"] and x["graph_without_digests"] == y["graph_without_digests"]
                and (not digests or x["worker"] == y["worker"]))
    slim = lambda d: {k: v for k, v in d.items() if k not in ("graph_without_digests", "files")}  # noqa: E731
    wit = {"kind": "detached-input-completion-scenario", "project": dc["project"], "edit": dc["edit"],
           "j1": slim(a), "j2-completes-while-detached": slim(b), "j2-completes-after": slim(c)}
    if a["first"] != "ok" or not _same(a, c):
        ctx.add_failure("oracle", "scenario:detached_input_completion", "C02:scenario:detached_input_completion:control",
                        "the control schedule (the worker completes after the re-definition) differs from -j1", witness=wit)
    elif not _same(a, b):
        own = (_same(a, b, digests=False) and b["completed_while_input_detached"] == ["./u.py"]
               and (a["worker"] or {}).get("out_digest") == (b["worker"] or {}).get("out_digest"))
        ctx.add_failure("oracle", "scenario:detached_input_completion",
                        "C02:noncommute:detached-input-at-completion" if own else
                        "C02:scenario:detached_input_completion:other-difference",
                        "second build: the worker ./u.py amends o.txt (accepted), the nested script above o.txt's "
                        "producer is dispatched again (o.txt detached), the worker completes, the producer is defined "
                        f"again: stored inp_digest {(b['worker'] or {}).get('inp_digest')} versus "
                        f"{(a['worker'] or {}).get('inp_digest')} under -j1 (same files, same edges, same out_digest)",
                        witness=wit)
    # ---- error text of a volatile output versus an input, at system level
    r = b3.run_text_scenario()
    ctx.case(("scenario", "volatile_vs_input_text"), nontrivial=True)
    ctx.count(f"scenario:volatile_vs_input_text:{'same' if r['texts'][0] == r['texts'][1] else 'different'}")
    if r["classes"][0] != r["classes"][1]:
        ctx.add_failure("oracle", "scenario:volatile_vs_input_text", "C02:e3:rc-class",
                        f"return-code class depends on the arrival order: {r['classes']}", witness=r)
    elif r["texts"][0] != r["texts"][1]:
        ctx.add_failure("oracle", "scenario:volatile_vs_input_text", "C02:error-text:volatile-vs-input",
                        f"one step declares v.txt volatile, another uses it as an input: the build fails either "
                        f"way, with {r['texts'][0]!r} or {r['texts'][1]!r} depending on which arrived first",
                        witness=dict(r, kind="text-scenario"))
    # ---- E3: one project, several schedules
    _e3_schedules(ctx)


MUST_REACH = [
    "amend:before-producer-start", "amend:while-producer-runs", "amend:after-producer-stop",
    "planners:shared:serial", "planners:shared:overlap-blocks", "planners:shared:rpcs-interleaved",
    "creator:started-while-creator-runs:stopped-while-creator-runs",
    "creator-reruns:started-before-creator-start:stopped-before-creator-start",
    "creator-reruns:request-while-detached", "creator-reruns:completion-while-detached",
    "creator-reruns:started-before-creator-start:stopped-after-creator-stop",
    "hash-commit:between-declarations", "hash-commit:next-to-another-hash-commit",
    "input:amend-while-input-detached",
]


def _e3_items(ctx):
    no, ng = ctx.scale((32, 16), (220, 110))
    nf, nd = ctx.scale((16, 12), (60, 70))
    shifts = ctx.scale([0], [0, 100, 200])
    items = []
    for sh in shifts:
        items += [("overlap", 10000 * ctx.seed + i, sh) for i in range(no)]
        items += [("gen", 5000 + 10000 * ctx.seed + i, sh) for i in range(ng)]
        # the same projects with a gate between consecutive requests of every sub-plan: two planners that
        # declare overlapping things interleaved REQUEST BY REQUEST (not only block by block)
        items += [("overlapfine", 10000 * ctx.seed + i, sh) for i in range(nf)]
    # a sub-plan that is deferred and executed again within ONE build while the workers it defined are
    # still running: their requests and completions before the restart / while detached / after the
    # re-definition / after the creator's second completion
    items += [("deferplan", 10000 * ctx.seed + i, 0) for i in range(nd)]
    # an OPTIONAL producer two levels below a sub-plan that runs twice in one build (three levels of
    # provenance); its only consumer is defined by a step of another branch before the restart / inside the
    # window in which the producer is detached (with a free job slot: the job loop polls the scheduler in
    # between) / after the re-definition (seeded C02-r5: Step.reattach flags)
    items += [("optbelow", 10000 * ctx.seed + i, 0) for i in range(ctx.scale(5, 40))]
    # timing bookkeeping (start/stop stamps behind amend()'s freshness test and the post-run input
    # check): consumer reads, producer stops, unrelated steps start and stop, consumer amends
    items += [("timing", 10000 * ctx.seed + i, 0) for i in range(ctx.scale(20, 180))]
    # second builds: re-executed sub-plans versus siblings that use what was declared under them
    items += [("rerun", 10000 * ctx.seed + i, 0) for i in range(ctx.scale(20, 350))]
    return items


def _e3_schedules(ctx):
    items = _e3_items(ctx)
    results = e3.pool_map(b3.run_case, items, nproc=6)
    reached = {}
    if ctx.thorough():
        perm_items = [("overlap", 10000 * ctx.seed + i, 0) for i in range(80)]
        results += e3.pool_map(run_permutations, perm_items, nproc=6)
    for r in results:
        if "crash" in r:
            ctx.add_failure("oracle", "e3-crash", "C02:e3:harness-crash", r["crash"][:600],
                            witness={"kind": "e3-case", "item": list(r["item"])})
            continue
        ctx.case(("e3", tuple(r["item"])), nontrivial=r["max_running"] >= 2)
        ctx.count(f"e3:{r['item'][0]}:{r['cls']}")
        ctx.count(f"e3:max_running={r['max_running']}")
        for c in r["meta"].get("conflicts", []):
            ctx.count(f"e3:seeded:{c[0]}")
        # distribution of the schedule settings (job count, resource pool, duration ranks)
        for sdesc in r.get("settings", []):
            ctx.count("e3:setting:" + sdesc)
        if "resource_steps" in r["meta"]:
            ctx.count(f"e3:steps-demanding-a-token={min(r['meta']['resource_steps'], 3)}{'+' if r['meta']['resource_steps'] > 3 else ''}")
        for n, mr in (r.get("running_by_schedule") or {}).items():
            if n == "res" and mr is not None:
                ctx.count(f"e3:one-token-pool:max_running={mr}")
        if r["item"][0] == "rerun":
            ctx.count("e3:rerun:" + ("a worker was deferred in some schedule" if r["meta"]["deferred_somewhere"]
                                     else "no defer"))
        # which interleavings the schedules went through (harness/c02_profile.py)
        for k, v in sorted((r.get("profile") or {}).items()):
            fam = "overlap" if r["item"][0] in ("overlap", "gen") else r["item"][0]
            if k.startswith("hash:"):
                a, b = k[5:].split("|")
                k = "hash-commit:" + ("between-declarations" if a == b == "decl" else
                                      "next-to-a-declaration" if "decl" in (a, b) else
                                      "next-to-another-hash-commit" if "hash" in (a, b) else "other")
            if k.startswith("detached-"):
                continue                      # per-label bookkeeping behind the signatures, not a class
            ctx.count(f"e3:interleaving:{fam}:{k}", v)
            reached[k] = reached.get(k, 0) + v
        for kind, sched, detail in r["diffs"]:
            ctx.add_failure("oracle", "e3-schedules", _e3_signature(r, kind, sched, detail),
                            f"project {r['item']} differs between schedule j1 and {sched}: {kind}",
                            witness={"kind": "e3-case", "item": list(r["item"]), "schedule": sched,
                                     "detail": detail, "project": r["project"]})
    # the interleavings that matter must have been reached by this run (a generator that stops reaching
    # them would leave the comparison vacuous); listed in the evidence, a miss is a note
    for k in MUST_REACH:
        ctx.count(f"e3:reached:{k}={'yes' if reached.get(k) else 'NO'}")
        if not reached.get(k):
            ctx.notes.append(f"E3 schedules did not reach the interleaving class {k}")
    if results and "crash" not in results[0]:
        ctx.sample({"e3_item": list(results[0]["item"]), "class": results[0]["cls"],
                    "max_running": results[0]["max_running"]})


def run_permutations(item):
    """thorough: every arrival order of the RPC blocks of the concurrently running sub-plans (start
    gates released in every permutation; up to 4 plan steps)."""
    kind, seed, _ = item
    project, meta = b3.gen_overlap(seed)
    subs = sorted(k for k in project.program["scripts"] if k.startswith("p") and k != "plan.py")[:4]
    scheds = [("j1", dict(njob=1, resources="tok:2"))]
    for n, perm in enumerate(itertools.permutations(subs)):
        order = [f"start:./{p}" for p in perm]
        scheds.append((f"perm{n}", dict(njob=5, resources="tok:2",
                                        schedule={"order": order, "policy": "fifo", "points": ["start", "end"]})))
    try:
        res = b3.run_schedules(project, schedules=scheds, resumed=False)
    except Exception as e:  # noqa: BLE001
        return {"item": item, "meta": meta, "crash": f"{type(e).__name__}: {e}"}
    two_party = [c for c in meta.get("conflicts", []) if c[0] != "undeclared"]
    diffs = b3.compare(res, texts=(len(two_party) == 1 and two_party[0][0] in ("static-twice", "step-twice")))
    return {"item": ("perm", seed, 0), "meta": meta, "cls": res["j1"]["cls"], "nrej": len(res["j1"]["rejected"]),
            "diffs": diffs, "max_running": max(r["max_running"] or 0 for r in res.values()),
            "project": project.to_json() if diffs else None}


def search(ctx):
    """Deeper run of the E2 both-orders oracle (more states and pairs) when an obligation broke."""
    ctx.c02_states = None
    old = ctx.tier
    ctx.tier = "thorough"
    try:
        states = _states(ctx)
    finally:
        ctx.tier = old
    for st in states:
        for p in st["pairs"]:
            if not (p["hz"][0] or p["hz"][1]) and not p["fails_anyway"] and p["verdict"] not in ("commute", "both-reject"):
                ctx.add_failure("oracle", "both-orders", _pair_signature(p),
                                "found by the deeper search", witness=dict(_wit(p), trace=[repr(o) for o in st["ops"]]))
                return


def replay(ctx, obj):
    w = (obj.get("failure") or {}).get("witness") or {}
    if w.get("kind") == "scenario":
        name = w["name"]
        r = b3.run_scenario(name)
        if r["j1"]["cls"] != r["j2"]["cls"]:
            ctx.add_failure("oracle", f"scenario:{name}", _scenario_signature(name, r, WITNESSES[name]["signature"]),
                            f"-j1 ends {r['j1']['cls']}, -j2 ends {r['j2']['cls']}", witness=w)
        return
    if w.get("kind") == "e2-rerun":
        r = rr.run_scenario(w["seed"])
        for dff in r.get("diffs", [])[:1]:
            sc = r["sc"]
            what = "rc-class" if dff["rc"][0] != dff["rc"][1] else ("not-quiescent" if dff["quiet"][0] != dff["quiet"][1] else "graph")
            ctx.add_failure("oracle", "rerun-positions", f"C02:rerun:{sc['variant']}:{sc['ukind']}:{what}",
                            f"position 0 versus {dff['k']}", witness=_rerun_wit(r, dff))
        return
    if w.get("kind") == "e3-case":
        r = b3.run_case(tuple(w["item"]))
        for kind, sched, detail in r.get("diffs", []):
            ctx.add_failure("oracle", "e3-schedules", _e3_signature(r, kind, sched, detail), f"{sched}: {kind}", witness=w)
        return
    if w.get("kind") == "detached-input-completion-scenario":
        dc = b3.run_detached_input_completion_scenario()
        if dc["j1"]["worker"] != dc["j2-completes-while-detached"]["worker"]:
            ctx.add_failure("oracle", "scenario:detached_input_completion", "C02:noncommute:detached-input-at-completion",
                            "the worker's stored inp_digest differs between -j1 and the directed -j2 schedule", witness=w)
        return
    if w.get("kind") == "detached-input-scenario":
        di = b3.run_detached_input_scenario()
        name = w["schedule"]
        if di[name]["cls"] != di["j1"]["cls"] or (di["j1"]["cls"] == "ok" and di[name]["graph"] != di["j1"]["graph"]):
            ctx.add_failure("oracle", "scenario:detached_input", f"C02:scenario:detached-input:{name}:"
                            + ("rc-class" if di[name]["cls"] != di["j1"]["cls"] else "graph"),
                            f"-j1 ends {di['j1']['cls']}, {name} ends {di[name]['cls']}", witness=w)
        return
    if w.get("kind") == "detached-issuer-scenario":
        ds = b3.run_detached_issuer_scenario()
        if ds["j4-detached"]["cls"] != ds["j1"]["cls"]:
            ctx.add_failure("oracle", "scenario:detached_issuer", "C02:noncommute:detached-issuer",
                            f"-j1 ends {ds['j1']['cls']}, -j4 ends {ds['j4-detached']['cls']}", witness=w)
        return
    correspondence(ctx)
    oracle(ctx)
