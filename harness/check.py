"""./check <ID> [--tier quick|thorough] [--replay FILE]   |   ./check --setup"""
import argparse
import importlib
import os
import sys
import time

from . import common


def all_ids():
    ids = []
    for p in sorted((common.VERIF / "harness").glob("p_c[0-9][0-9].py")):
        ids.append(p.stem[2:].upper())
    return ids


def setup():
    """Regenerate every gen/*.v from /repo and build the whole Coq development."""
    t0 = time.time()
    rc = 0
    for pid in all_ids():
        mod = importlib.import_module(f"harness.p_{pid.lower()}")
        ctx = common.Ctx(pid, "quick", 0)
        try:
            mod.generate(ctx)
        except Exception as e:  # noqa: BLE001
            print(f"setup: WARNING: generate {pid} failed: {e}")
    with common.CoqLock():
        common.ensure_makefile()
        ok, log = common.coq_make(["-k"], timeout=3000)
    if not ok:
        # A file that does not compile is reported by the check of the property that needs it;
        # the setup itself only pre-builds what it can.
        print(common.tail(log, 3000))
        print("setup: WARNING: some Coq files did not build (see above)")
    print(f"setup done in {time.time() - t0:.1f}s")
    return 0


def main():
    ap = argparse.ArgumentParser()
    ap.add_argument("pid", nargs="?")
    ap.add_argument("--tier", default=os.environ.get("VERIF_TIER", "quick"))
    ap.add_argument("--replay")
    ap.add_argument("--setup", action="store_true")
    ap.add_argument("--update-golden", action="store_true")
    args = ap.parse_args()
    if args.setup:
        sys.exit(setup())
    if args.update_golden:
        # Regenerate from /repo itself (never from a scratch copy) and copy only the files that
        # the named property's translator writes (all properties when no id is given).
        if os.environ.get("VERIF_REPO") not in (None, "", "/repo"):
            print("refusing to update goldens from a scratch repository")
            sys.exit(2)
        import shutil
        (common.COQ / "gen.golden").mkdir(exist_ok=True)
        pids = [args.pid.upper()] if args.pid else all_ids()
        for pid in pids:
            mod = importlib.import_module(f"harness.p_{pid.lower()}")
            ctx = common.Ctx(pid, "quick", 0)
            ctx.written = []
            orig = ctx.write_gen
            def rec(name, text, orig=orig, ctx=ctx):
                ctx.written.append(name)
                orig(name, text)
            ctx.write_gen = rec
            try:
                mod.generate(ctx)
            except Exception as e:  # noqa: BLE001
                print(f"update-golden: generate {pid} failed: {e}")
                continue
            for name in ctx.written:
                shutil.copy(common.COQ / "gen" / name, common.COQ / "gen.golden" / name)
            print(f"update-golden {pid}: {ctx.written}")
        return
    seed = int(os.environ.get("VERIF_SEED", "0"))
    mod = importlib.import_module(f"harness.p_{args.pid.lower()}")
    sys.exit(common.run_property(mod, args.tier, seed, replay=args.replay))


if __name__ == "__main__":
    main()
