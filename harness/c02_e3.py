"""C02, E3 level: one project, several schedules, on the REAL director (harness/e3.py).

`gen_overlap(seed)` renders projects whose concurrently running sub-plans declare overlapping
things: a source used as an input by a step of one plan and declared static by another plan,
outputs of one plan's steps consumed (initially or through amend) by another plan's steps, and,
at small rates, genuine conflicts (one file declared static by two plans, one step defined by two
plans, one output path claimed twice) where only the return-code class and the error text can be
compared.  `run_case(item)` builds the project under the schedules of DESIGN.md section 6 C02:
  j1, j4 with three seeded gate-release orders (start and end gates), a resource-limited run,
  and a resumed no-change run on the database the j1 run left behind.
"""
from __future__ import annotations

import random
import tempfile

from . import e3
from . import c02_profile as pf


def gen_overlap(seed, fine: bool = False) -> tuple[e3.Project, dict]:
    """`fine`: an explicit gate between consecutive requests of every sub-plan, so that the schedule
    interleaves the sub-plans REQUEST BY REQUEST (without it a simulated command issues its requests en
    bloc and schedules only permute whole blocks)."""
    rng = random.Random(f"c02-overlap-{seed}")
    nsub = rng.randint(2, 3)
    nsrc = rng.randint(2, 4)
    sources = {f"s{i}.txt": f"source {i} {seed}\n" for i in range(nsrc)}
    subs = [f"p{i}.py" for i in range(nsub)]
    declarers = ["plan.py"] + subs
    meta = {"conflicts": []}
    # who declares which source static
    static_by = {d: [] for d in declarers}
    for src in sources:
        r = rng.random()
        if r < 0.95:
            static_by[rng.choice(declarers)].append(src)
        elif r < 0.98:
            a, b = rng.sample(declarers, 2)
            static_by[a].append(src)
            static_by[b].append(src)
            meta["conflicts"].append(("static-twice", src))
        else:
            meta["conflicts"].append(("undeclared", src))
    # steps: a DAG over sources and earlier outputs
    nstep = rng.randint(3, 6)
    steps, avail = [], list(sources)
    used_out = []
    for i in range(nstep):
        owner = rng.choice(subs if rng.random() < 0.85 else declarers)
        inp = sorted(rng.sample(avail, rng.randint(0, min(2, len(avail)))))
        out = [f"o{i}.txt"]
        if used_out and rng.random() < 0.025:
            out = [rng.choice(used_out)]
            meta["conflicts"].append(("output-twice", out[0]))
        label = f"c{i}"
        kind = rng.choices(["run", "script"], weights=[3, 2])[0]
        steps.append({"i": i, "owner": owner, "label": label, "inp": inp, "out": out, "kind": kind})
        avail += out
        used_out += out
    if rng.random() < 0.06 and len(steps) >= 2:
        a, b = rng.sample(steps, 2)
        if a["owner"] != b["owner"]:
            b["label"] = a["label"]
            b["kind"] = a["kind"] = "run"
            meta["conflicts"].append(("step-twice", a["label"]))
    scripts = {d: [] for d in declarers}
    commands = {}
    workers = []
    for d in declarers:
        if static_by[d]:
            scripts[d].append({"op": "static", "paths": sorted(static_by[d])})
    scripts["plan.py"].insert(0, {"op": "static", "paths": sorted(subs)})
    for st in steps:
        acts = scripts[st["owner"]]
        if st["kind"] == "run":
            a = {"op": "run", "label": st["label"], "shell": True, "inp": st["inp"], "out": st["out"]}
            if rng.random() < 0.35:
                a["resources"] = {"tok": 1}
            acts.append(a)
            commands[st["label"]] = [{"op": "auto"}]
        else:
            w = f"w{st['i']}.py"
            workers.append(w)
            k = rng.randint(0, len(st["inp"]))
            initial, amended = st["inp"][:k], st["inp"][k:]
            am_out = rng.random() < 0.4
            acts.append({"op": "run", "label": f"./{w}", "inp": initial,
                         "out": [] if am_out else st["out"]})
            body = [{"op": "amend", "inp": amended, "out": st["out"] if am_out else []}]
            body += [{"op": "read", "paths": st["inp"]}]
            body += [{"op": "write", "path": o} for o in st["out"]]
            scripts[w] = body
    if workers:
        scripts["plan.py"].insert(1, {"op": "static", "paths": sorted(workers)})
    for sp in subs:
        scripts["plan.py"].append({"op": "plan", "label": f"./{sp}"})
    # shuffle the order of calls inside each sub-plan (call order inside one step is part of the
    # program, not of the schedule)
    for sp in subs:
        rng.shuffle(scripts[sp])
    if fine:
        for sp in subs:
            acts, spaced = scripts[sp], []
            for k, a in enumerate(acts):
                if k:
                    spaced.append({"op": "gate", "name": f"{sp}:{k}"})
                spaced.append(a)
            scripts[sp] = spaced
    project = e3.Project(sources=sources, program={"scripts": scripts, "commands": commands})
    meta["nsteps"] = nstep
    meta["nsub"] = nsub
    return project, meta


SCHEDULES = [
    ("j1", dict(njob=1, resources="tok:2")),
    ("j4-a", dict(njob=4, resources="tok:2", schedule={"seed": 11, "points": ["start", "end"]})),
    ("j4-b", dict(njob=4, resources="tok:2", schedule={"seed": 22, "points": ["start", "end"]})),
    ("j4-c", dict(njob=4, resources="tok:2", schedule={"seed": 33, "policy": "lifo", "points": ["start", "end"]})),
    ("res", dict(njob=4, resources="tok:1", schedule={"seed": 44, "points": ["end"]})),
]


def schedules_for(seed) -> list:
    """The schedules of one generated project (seeded, so that a replay rebuilds them): the -j1
    reference, three runs whose job count (2, 3, 4, 8), size of the resource pool (1-3 tokens; steps
    may demand one), and relative step durations (which waiting command is released first at its start
    and end gates: seeded shuffle / lifo / fifo / sorted) are drawn per project, and a run with a
    one-token pool.  `describe(kw)` is what the evidence counts."""
    rng = random.Random(f"c02-sched-{seed}")
    out = [("j1", dict(njob=1, resources="tok:2"))]
    for k, name in enumerate(("a", "b", "c")):
        nj = rng.choice([2, 3, 4, 8])
        tok = rng.choice([1, 2, 2, 3])
        pol = rng.choice(["seed", "seed", "lifo", "fifo", "sorted"])
        sch = {"seed": 11 * (k + 1), "points": ["start", "end"]}
        if pol != "seed":
            sch["policy"] = pol
        out.append((f"j{nj}-{name}", dict(njob=nj, resources=f"tok:{tok}", schedule=sch)))
    out.append(("res", dict(njob=rng.choice([2, 4]), resources="tok:1",
                            schedule={"seed": 44, "points": ["end"]})))
    return out


def describe(kw: dict) -> str:
    sch = kw.get("schedule") or {}
    pol = sch.get("policy", "seed" if "seed" in sch else ("order" if "order" in sch else "none"))
    return (f"jobs={kw.get('njob', 1)}:pool={kw.get('resources', '-')}:durations={pol}"
            f":gates={'+'.join(sch.get('points', [])) or '-'}")


def _summary(r: e3.BuildResult, program: dict | None = None) -> dict:
    return {"rc": r.returncode, "cls": e3.rc_class(r.returncode),
            "profile": pf.profile(r, program) if program is not None else {},
            "graph": e3.canon_graph(r.graph, digests=False) if r.graph else None,
            "graph_d": e3.canon_graph(r.graph, digests=True) if r.graph else None,
            "rejected": sorted([list(x) for x in r.rejected]),
            "files": dict(r.files), "error": r.error,
            "max_running": r.max_running}


def run_schedules(project: e3.Project, schedules=SCHEDULES, resumed=True, seed_shift=0, timeout=60):
    out = {}
    for name, kw in schedules:
        kw = dict(kw)
        if "schedule" in kw and "seed" in kw["schedule"]:
            kw["schedule"] = dict(kw["schedule"], seed=kw["schedule"]["seed"] + seed_shift)
        with tempfile.TemporaryDirectory(prefix="c02-") as tmp:
            project.materialise(tmp)
            r = e3.build(tmp, project.program, env=project.env, timeout=timeout, **kw)
            out[name] = _summary(r, project.program)
            if name == "j1" and resumed:
                r2 = e3.build(tmp, project.program, env=project.env, timeout=timeout, njob=1,
                              resources="tok:2")
                out["resumed"] = _summary(r2)
                out["resumed"]["executed"] = sorted(c["label"] for c in r2.commands)
    return out


def compare(results: dict, texts: bool = True) -> list:
    """Differences against the j1 reference: [(kind, schedule, detail)].  `texts`: compare the
    error text when both runs refused exactly one declaration (only meaningful for projects with
    exactly one two-party conflict)."""
    ref = results["j1"]
    diffs = []
    for name, r in results.items():
        if name == "j1":
            continue
        if r["error"] or ref["error"]:
            if bool(r["error"]) != bool(ref["error"]):
                diffs.append(("error", name, {"j1": ref["error"], name: r["error"]}))
            continue
        if r["cls"] != ref["cls"]:
            diffs.append(("rc-class", name, {"j1": [ref["cls"], ref["rejected"]],
                                             name: [r["cls"], r["rejected"]]}))
            continue
        if ref["cls"] == "ok":
            if r["graph"] != ref["graph"]:
                diffs.append(("graph", name, _graph_diff(ref["graph"], r["graph"])))
            elif r["graph_d"] != ref["graph_d"]:
                diffs.append(("graph-digests", name, _graph_diff(ref["graph_d"], r["graph_d"])))
            if r["files"] != ref["files"]:
                diffs.append(("files", name, sorted(p for p in set(ref["files"]) | set(r["files"])
                                                    if ref["files"].get(p) != r["files"].get(p))))
            if name == "resumed" and r.get("executed"):
                diffs.append(("resumed-executes", name, r["executed"]))
        else:
            ta = [x[3] for x in ref["rejected"]]
            tb = [x[3] for x in r["rejected"]]
            if texts and len(ta) == 1 and len(tb) == 1 and ta != tb:
                diffs.append(("error-text", name, {"j1": ref["rejected"], name: r["rejected"]}))
    return diffs


def _graph_diff(a: str, b: str) -> dict:
    ga, gb = e3.parse_graph(a), e3.parse_graph(b)
    return {k: {"j1": ga.get(k), "other": gb.get(k)} for k in sorted(set(ga) | set(gb))
            if ga.get(k) != gb.get(k)}


def run_case(item):
    """pool_map worker: item = (kind, seed, seed_shift)."""
    kind, seed, shift = item
    if kind == "timing":
        return run_timing_case(item)
    if kind == "rerun":
        return run_rerun_case(item)
    if kind == "deferplan":
        return run_deferplan_case(item)
    if kind == "optbelow":
        return run_optbelow_case(item)
    if kind in ("overlap", "overlapfine"):
        project, meta = gen_overlap(seed, fine=(kind == "overlapfine"))
    else:
        from . import e3_gen
        project, _history = e3_gen.gen_case(seed, max_phases=1)
        meta = {}
    scheds = schedules_for(seed)
    meta["resource_steps"] = sum(1 for acts in project.program["scripts"].values() for a in acts
                                 if isinstance(a, dict) and a.get("resources"))
    try:
        res = run_schedules(project, schedules=scheds, seed_shift=shift)
    except Exception as e:  # noqa: BLE001 - reported by the caller
        return {"item": item, "meta": meta, "crash": f"{type(e).__name__}: {e}", "project": project.to_json()}
    two_party = [c for c in meta.get("conflicts", []) if c[0] != "undeclared"]
    diffs = compare(res, texts=(len(two_party) == 1 and two_party[0][0] in ("static-twice", "step-twice")))
    return {"item": item, "meta": meta, "cls": res["j1"]["cls"],
            "nrej": len(res["j1"]["rejected"]), "diffs": diffs,
            "max_running": max(r["max_running"] or 0 for r in res.values()),
            "settings": [describe(kw) for _, kw in scheds],
            "running_by_schedule": {n: res[n]["max_running"] for n, _ in scheds},
            "profile": pf.merge(r.get("profile") for n, r in res.items() if n not in ("j1", "resumed")),
            "project": project.to_json() if diffs else None}


# ---------------------------------------------------------------------------------------------
# system-level scenarios for the refuted pairs: a database left by a first build, an edited plan,
# then the SAME second build under two schedules (-j1 versus -j2 with a chosen arrival order)
# ---------------------------------------------------------------------------------------------

def _scn_stale_volatile():
    """Build 1 leaves the volatile output v.txt of `mkv`.  The edited plan drops `mkv`, starts the
    sub-plan ./sub.py (which defines a step with input v.txt) and later declares v.txt static."""
    plan1 = [{"op": "run", "label": "mkv", "shell": True, "vol": ["v.txt"]}]
    plan2 = [{"op": "static", "paths": ["sub.py"]}, {"op": "plan", "label": "./sub.py"},
             {"op": "gate", "name": "g"}, {"op": "static", "paths": ["v.txt"]}]
    sub = [{"op": "run", "label": "use", "shell": True, "inp": ["v.txt"], "out": ["o.txt"]}]
    p = e3.Project(sources={}, program={
        "scripts": {"plan.py": plan1, "sub.py": sub},
        "commands": {"mkv": [{"op": "write", "path": "v.txt", "content": "V\n"}],
                     "use": [{"op": "auto"}]}})
    return p, [{"op": "script", "path": "plan.py", "actions": plan2}], "./sub.py"


def _scn_stale_cycle():
    """Build 1: ./a.py builds o.txt, `u` builds f.txt from o.txt.  The edited plan drops `u`,
    declares f.txt static (after a gate) and the edited ./a.py amends f.txt as an input: the stale
    edge u -> f.txt closes a cycle until f.txt has been re-declared."""
    plan1 = [{"op": "static", "paths": ["a.py"]}, {"op": "run", "label": "./a.py", "out": ["o.txt"]},
             {"op": "run", "label": "u", "shell": True, "inp": ["o.txt"], "out": ["f.txt"]}]
    a1 = [{"op": "write", "path": "o.txt", "content": "O\n"}]
    a2 = [{"op": "amend", "inp": ["f.txt"]}, {"op": "read", "paths": ["f.txt"]},
          {"op": "write", "path": "o.txt", "content": "O\n"}]
    plan2 = [{"op": "static", "paths": ["a.py"]}, {"op": "run", "label": "./a.py", "out": ["o.txt"]},
             {"op": "gate", "name": "g"}, {"op": "static", "paths": ["f.txt"]}]
    p = e3.Project(sources={}, program={"scripts": {"plan.py": plan1, "a.py": a1},
                                        "commands": {"u": [{"op": "auto"}]}})
    return p, [{"op": "script", "path": "plan.py", "actions": plan2},
               {"op": "script", "path": "a.py", "actions": a2}], "./a.py"


def _scn_recycle_subtree():
    """Build 1: ./t.py defines `u` which builds f.txt.  The edited plan defines ./t.py through the
    new sub-plan ./s.py (identical definition: recycled together with `u` and its claim on f.txt)
    and declares f.txt static after a gate."""
    plan1 = [{"op": "static", "paths": ["t.py"]}, {"op": "run", "label": "./t.py"}]
    t = [{"op": "run", "label": "u", "shell": True, "out": ["f.txt"]}]
    plan2 = [{"op": "static", "paths": ["t.py", "s.py"]}, {"op": "plan", "label": "./s.py"},
             {"op": "gate", "name": "g"}, {"op": "static", "paths": ["f.txt"]}]
    s = [{"op": "run", "label": "./t.py"}]
    p = e3.Project(sources={}, program={"scripts": {"plan.py": plan1, "t.py": t, "s.py": s},
                                        "commands": {"u": [{"op": "auto"}]}})
    return p, [{"op": "script", "path": "plan.py", "actions": plan2}], "./s.py"


SCENARIOS = {"stale_volatile_input": _scn_stale_volatile, "stale_output_cycle": _scn_stale_cycle,
             "recycle_subtree": _scn_recycle_subtree}


def run_scenario(name: str) -> dict:
    p, edit, racer = SCENARIOS[name]()
    out = {}
    for rn, kw in (("j1", dict(njob=1)),
                   ("j2", dict(njob=2, schedule={"order": [f"start:{racer}", f"end:{racer}", "g"],
                                                 "points": ["start", "end"]}))):
        rs = e3.run_history(p, [{"edits": edit, "build": kw}])
        out[rn] = {"first": e3.rc_class(rs[0].returncode), "cls": e3.rc_class(rs[-1].returncode),
                   "rejected": [list(x) for x in rs[-1].rejected],
                   "graph": e3.canon_graph(rs[-1].graph, digests=False) if rs[-1].graph else None}
    out["project"] = p.to_json()
    out["edit"] = edit
    return out


def run_text_scenario() -> dict:
    """From scratch: sub-plan p0 defines a step with volatile output v.txt, sub-plan p1 a step with
    input v.txt.  The build fails in either arrival order; the texts are compared."""
    plan = [{"op": "static", "paths": ["p0.py", "p1.py"]}, {"op": "plan", "label": "./p0.py"},
            {"op": "plan", "label": "./p1.py"}]
    p0 = [{"op": "run", "label": "mkv", "shell": True, "vol": ["v.txt"]}]
    p1 = [{"op": "run", "label": "use", "shell": True, "inp": ["v.txt"], "out": ["o.txt"]}]
    p = e3.Project(sources={}, program={"scripts": {"plan.py": plan, "p0.py": p0, "p1.py": p1},
                                        "commands": {"mkv": [{"op": "auto"}], "use": [{"op": "auto"}]}})
    out = {"classes": [], "texts": [], "rejected": []}
    for first, second in (("./p0.py", "./p1.py"), ("./p1.py", "./p0.py")):
        r = e3.from_scratch(p, njob=3, schedule={"order": [f"start:{first}", f"end:{first}", f"start:{second}"],
                                                 "points": ["start", "end"]})
        out["classes"].append(e3.rc_class(r.returncode))
        out["rejected"].append([list(x) for x in r.rejected])
        out["texts"].append([x[3] for x in r.rejected])
    out["project"] = p.to_json()
    return out


# ---------------------------------------------------------------------------------------------
# timing bookkeeping of the scheduler: start/stop stamps consulted by amend()'s freshness test and
# by the post-run input check.  A consumer reads a file WITHOUT having declared it, its producer
# stops, unrelated steps start and stop (possibly overlapping), then the consumer amends the file.
# With -j1 producer and consumer never overlap; with -j6 and the gate orders below they do, and
# only the stamps make the engine rerun the consumer.  The consumer's output folds everything it
# read, so a missed rerun shows in the files and in the digests of the graph.
# ---------------------------------------------------------------------------------------------

def gen_timing(seed) -> tuple[e3.Project, dict]:
    rng = random.Random(f"c02-timing-{seed}")
    npair = rng.randint(1, 2)
    nun = rng.randint(2, 3)
    scripts = {"plan.py": []}
    commands = {}
    plan = scripts["plan.py"]
    workers = []
    meta = {"pairs": [], "unrelated": []}
    for i in range(npair):
        f, cout, w = f"f{i}.txt", f"c{i}.txt", f"c{i}.py"
        workers.append(w)
        plan.append({"op": "run", "label": f"p{i}", "shell": True, "out": [f]})
        commands[f"p{i}"] = [{"op": "write", "path": f, "content": f"produced {i} {seed}\n"}]
        body = [{"op": "read", "paths": [f], "required": False}, {"op": "gate", "name": f"g{i}"},
                {"op": "amend", "inp": [f]}]
        if rng.random() < 0.5:
            body.append({"op": "read", "paths": [f], "required": False})
        body.append({"op": "write", "path": cout})
        scripts[w] = body
        plan.append({"op": "run", "label": f"./{w}", "out": [cout]})
        meta["pairs"].append((f"p{i}", f"./{w}", f"g{i}"))
    for j in range(nun):
        plan.append({"op": "run", "label": f"u{j}", "shell": True, "out": [f"u{j}.txt"]})
        commands[f"u{j}"] = [{"op": "auto"}]
        meta["unrelated"].append(f"u{j}")
    if rng.random() < 0.6:
        plan.append({"op": "run", "label": "z", "shell": True,
                     "inp": [f"c{i}.txt" for i in range(npair)], "out": ["z.txt"]})
        commands["z"] = [{"op": "auto"}]
    rng.shuffle(plan)
    plan.insert(0, {"op": "static", "paths": sorted(workers)})
    return e3.Project(sources={}, program={"scripts": scripts, "commands": commands}), meta


def timing_orders(meta: dict, seed, n: int = 4) -> list:
    """Gate orders: consumers start first and wait at their gates; producers run and stop;
    unrelated steps start and stop in a seeded interleaving (some overlapping); then the
    consumers' gates open."""
    orders = []
    for k in range(n):
        rng = random.Random(f"c02-timing-order-{seed}-{k}")
        order = ["start:./plan.py", "end:./plan.py"]
        order += [f"start:{c}" for _, c, _ in meta["pairs"]]
        prod = [f"start:{p}" for p, _, _ in meta["pairs"]]
        rng.shuffle(prod)
        order += prod
        order += [f"end:{p}" for p, _, _ in meta["pairs"]] if k % 2 == 0 else []
        # unrelated steps: a random interleaving of their start and end events (start before end)
        ev = []
        for u in meta["unrelated"]:
            ev += [("s", u), ("e", u)]
        rng.shuffle(ev)
        seen, inter = set(), []
        for kind, u in ev:
            if kind == "s":
                seen.add(u)
                inter.append(f"start:{u}")
            elif u in seen:
                inter.append(f"end:{u}")
            else:
                inter += [f"start:{u}"]
                seen.add(u)
                ev.append(("e", u))
        inter += [f"end:{u}" for u in meta["unrelated"] if f"end:{u}" not in inter]
        order += inter
        if k % 2 == 1:
            order += [f"end:{p}" for p, _, _ in meta["pairs"]]
            # one more unrelated stop after the producers stopped, if any is still running
        gates = [g for _, _, g in meta["pairs"]]
        rng.shuffle(gates)
        order += gates
        orders.append(order)
    return orders


def run_timing_case(item):
    kind, seed, _ = item
    project, meta = gen_timing(seed)
    scheds = [("j1", dict(njob=1))]
    for k, order in enumerate(timing_orders(meta, seed)):
        scheds.append((f"j6-{k}", dict(njob=6, schedule={"order": order, "policy": "fifo",
                                                          "points": ["start", "end"]})))
    scheds.append(("j6-seed", dict(njob=6, schedule={"seed": 7 + (seed % 1000), "points": ["start", "end"]})))
    try:
        res = run_schedules(project, schedules=scheds, resumed=False)
    except Exception as e:  # noqa: BLE001
        return {"item": item, "meta": {}, "crash": f"{type(e).__name__}: {e}", "project": project.to_json()}
    diffs = compare(res, texts=False)
    return {"item": item, "meta": {}, "cls": res["j1"]["cls"], "nrej": 0, "diffs": diffs,
            "max_running": max(r["max_running"] or 0 for r in res.values()),
            "profile": pf.merge(r.get("profile") for n, r in res.items() if n != "j1"),
            "project": project.to_json() if diffs else None}


# ---------------------------------------------------------------------------------------------
# second builds in which sub-plans are RE-EXECUTED while sibling steps use what was declared under
# them.  `Step.reset_for_rerun` of a re-executed sub-plan detaches its whole product subtree; the
# sub-plan then declares the products again one by one (unchanged ones are recycled without being
# run).  A concurrently running sibling that amends / defines inputs among the files of that
# subtree sees them attached, detached or re-attached depending on the arrival order of its
# request, and is deferred or not; the outcome of the build may not depend on it.
# ---------------------------------------------------------------------------------------------

def gen_rerun(seed) -> tuple[e3.Project, list, dict]:
    """(project, edits of the second build, meta).  Sub-plans p_i define producers (directly or
    through a nested script n_i); workers u_j (siblings of the sub-plans, or products of ANOTHER
    sub-plan) amend outputs of those producers as inputs and/or define consumers of them; `z` folds
    the workers' outputs.  The edits change the scripts of some sub-plans and some workers
    trivially (a leading `print`), optionally a source that a producer reads."""
    rng = random.Random(f"c02-rerun-{seed}")
    nsub = rng.randint(1, 2)
    subs = [f"p{i}.py" for i in range(nsub)]
    sources = {f"s{i}.txt": f"source {i} {seed}\n" for i in range(rng.randint(1, 3))}
    scripts = {"plan.py": [], **{sp: [] for sp in subs}}
    commands = {}
    script_files = list(subs)
    avail = sorted(sources)
    outs = []                 # (path, owning sub-plan)
    nested = {}               # sub-plan -> nested script that declares (part of) its producers
    for i in range(rng.randint(1, 4)):
        owner = rng.choice(subs)
        inp = sorted(rng.sample(avail, rng.randint(0, min(2, len(avail)))))
        out = f"o{i}.txt"
        act = {"op": "run", "label": f"c{i}", "shell": True, "inp": inp, "out": [out]}
        commands[f"c{i}"] = [{"op": "auto"}]
        where = owner
        if rng.random() < 0.3:
            # a producer two levels below the sub-plan: the detached subtree is deeper
            if owner not in nested:
                nested[owner] = f"n{len(nested)}.py"
                scripts[nested[owner]] = []
                script_files.append(nested[owner])
                scripts[owner].append({"op": "run", "label": f"./{nested[owner]}"})
            where = nested[owner]
        scripts[where].append(act)
        avail.append(out)
        outs.append((out, owner))
    workers, wouts = [], []
    for j in range(rng.randint(1, 3)):
        w = f"u{j}.py"
        picked = rng.sample(outs, rng.randint(1, min(2, len(outs))))
        amended = sorted(p for p, _ in picked)
        initial = sorted(rng.sample(sorted(sources), rng.randint(0, 1)))
        others = [sp for sp in subs if sp not in {o for _, o in picked}]
        owner = rng.choice(others) if others and rng.random() < 0.3 else "plan.py"
        mode = rng.choices(["amend", "define", "both"], weights=[6, 2, 2])[0]
        body = []
        wout = f"w{j}.txt"
        if mode in ("define", "both"):
            body.append({"op": "run", "label": f"d{j}", "shell": True, "inp": amended, "out": [f"d{j}.txt"]})
            commands[f"d{j}"] = [{"op": "auto"}]
        if mode in ("amend", "both"):
            body.append({"op": "amend", "inp": amended})
            body.append({"op": "read", "paths": initial + amended})
        else:
            body.append({"op": "read", "paths": initial})
        body.append({"op": "write", "path": wout})
        scripts[w] = body
        script_files.append(w)
        scripts[owner].append({"op": "run", "label": f"./{w}", "inp": initial, "out": [wout]})
        workers.append(w)
        wouts.append(wout)
    if rng.random() < 0.6:
        scripts["plan.py"].append({"op": "run", "label": "z", "shell": True, "inp": sorted(wouts), "out": ["z.txt"]})
        commands["z"] = [{"op": "auto"}]
    for sp in subs:
        rng.shuffle(scripts[sp])
        scripts["plan.py"].append({"op": "plan", "label": f"./{sp}"})
    rng.shuffle(scripts["plan.py"])
    scripts["plan.py"].insert(0, {"op": "static", "paths": sorted(script_files) + sorted(sources)})
    project = e3.Project(sources=sources, program={"scripts": scripts, "commands": commands})
    # ---- the second build
    ch_subs = [sp for sp in subs if rng.random() < 0.8] or [rng.choice(subs)]
    ch_workers = [w for w in workers if rng.random() < 0.75] or [rng.choice(workers)]
    edits = [{"op": "script", "path": f, "actions": [{"op": "print", "text": f"second version {seed}"}] + scripts[f]}
             for f in ch_subs + ch_workers]
    for sp in ch_subs:
        if sp in nested and rng.random() < 0.3:
            n = nested[sp]
            edits.append({"op": "script", "path": n, "actions": [{"op": "print", "text": "v2"}] + scripts[n]})
    if rng.random() < 0.3:
        s = rng.choice(sorted(sources))
        edits.append({"op": "write", "path": s, "content": f"changed {s} {seed}\n"})
    meta = {"subs": [f"./{sp}" for sp in ch_subs], "workers": [f"./{w}" for w in ch_workers],
            "nested": [f"./{n}" for n in nested.values()]}
    return project, edits, meta


def rerun_schedules(meta: dict, seed) -> list:
    subs, workers = meta["subs"], meta["workers"]
    both = dict(policy="fifo", points=["start", "end"])
    return [
        ("j1", dict(njob=1)),
        # every changed worker issues its requests and stops before any sub-plan re-declares anything
        ("j4-workers-first", dict(njob=4, schedule=dict(
            both, order=[f"start:{w}" for w in workers] + [f"end:{w}" for w in workers]))),
        # the workers' requests arrive while the subtree is detached, the sub-plans stop first
        ("j4-workers-inside", dict(njob=4, schedule=dict(
            both, order=[f"start:{w}" for w in workers] + [f"start:{s}" for s in subs]
            + [f"end:{s}" for s in subs]))),
        ("j4-subs-first", dict(njob=4, schedule=dict(
            both, order=[f"start:{s}" for s in subs] + [f"end:{s}" for s in subs]))),
        # a worker that is a product of a re-executed sub-plan starts before its creator, and FINISHES
        # while the creator is running again (its node is detached from the creator's reset_for_rerun
        # until the creator has defined it again)
        ("j4-workers-end-inside", dict(njob=4, schedule=dict(
            both, order=[f"start:{w}" for w in workers] + [f"start:{s}" for s in subs]
            + [f"end:{w}" for w in workers] + [f"end:{s}" for s in subs]))),
        ("j4-seed-a", dict(njob=4, schedule={"seed": 101 + seed % 997, "points": ["start", "end"]})),
        # (no lifo here: a worker that was refused a detached input is PENDING, not deferred, and is
        # dispatched again at once; releasing the newest gate first starves the sub-plan until the
        # worker hits the defer cap -- see `run_busy_defer_scenario`)
        ("j4-seed-b", dict(njob=4, schedule={"seed": 202 + seed % 991, "points": ["start", "end"]})),
    ]


def run_rerun_case(item):
    """First build (-j1, no gates), the edits, then the same second build under every schedule."""
    kind, seed, _ = item
    project, edits, meta = gen_rerun(seed)
    res, first = {}, None
    try:
        for name, kw in rerun_schedules(meta, seed):
            rs = e3.run_history(project, [{"edits": edits, "build": kw}], njob=1, timeout=60)
            first = e3.rc_class(rs[0].returncode)
            res[name] = _summary(rs[-1], project.program)
            res[name]["executed"] = [c["label"] for c in rs[-1].commands]
    except Exception as e:  # noqa: BLE001 - reported by the caller
        return {"item": item, "meta": meta, "crash": f"{type(e).__name__}: {e}", "project": project.to_json()}
    diffs = compare(res, texts=False)
    if first != "ok":
        diffs.append(("rerun-setup", "first", first))
    rerun = set().union(*[set(r["executed"]) for r in res.values()])
    return {"item": item, "meta": {"rerun_subs": sorted(rerun & set(meta["subs"])),
                                   "rerun_workers": sorted(rerun & set(meta["workers"])),
                                   "deferred_somewhere": any(len(r["executed"]) != len(set(r["executed"]))
                                                             for r in res.values())},
            "cls": res["j1"]["cls"], "nrej": len(res["j1"]["rejected"]), "diffs": diffs,
            "max_running": max(r["max_running"] or 0 for r in res.values()),
            "profile": pf.merge(r.get("profile") for n, r in res.items() if n != "j1"),
            "profiles": {n: r.get("profile") or {} for n, r in res.items()},
            "project": dict(project.to_json(), edits=edits) if diffs else None}


# ---------------------------------------------------------------------------------------------
# a step that FINISHES (and issues requests) while its creator is running AGAIN within one build:
# the sub-plan ./sub.py defines workers, then amends an input that is not built yet and is deferred;
# the workers are dispatched (their creator is RUNNING or, later, PENDING-deferred ... the scheduler
# only dispatches them while the creator chain is safe, so they start during the creator's first run);
# the producer finishes, ./sub.py is dispatched again (reset_for_rerun detaches the workers that are
# still RUNNING), re-defines them (recycle), defines the steps behind the amend.  The workers' own
# requests and completions are placed before the restart, between the restart and the re-definition,
# after the re-definition and after the creator's second completion.
# ---------------------------------------------------------------------------------------------

def gen_deferplan(seed) -> tuple[e3.Project, dict]:
    rng = random.Random(f"c02-deferplan-{seed}")
    nw = rng.randint(1, 2)
    sources = {f"s{i}.txt": f"source {i} {seed}\n" for i in range(2)}
    scripts = {"plan.py": [], "sub.py": []}
    commands = {"q": [{"op": "write", "path": "f.txt", "content": f"produced {seed}\n"}]}
    workers = [f"a{i}.py" for i in range(nw)]
    sub = scripts["sub.py"]
    sub.append({"op": "gate", "name": "sub:top"})
    meta = {"workers": [f"./{w}" for w in workers], "requests": [], "late": []}
    twice = nw == 2 and rng.random() < 0.25      # both workers declare the same source static
    for i, w in enumerate(workers):
        if i:
            sub.append({"op": "gate", "name": "sub:between"})
        sub.append({"op": "run", "label": f"./{w}", "out": [f"a{i}.txt"]})
        kind = "static" if twice else rng.choice(["none", "amend-src", "amend-out", "static", "define", "amend-f"])
        body = [{"op": "gate", "name": f"a{i}:req"}]
        if kind == "amend-src":
            body.append({"op": "amend", "inp": ["s0.txt"]})
            body.append({"op": "read", "paths": ["s0.txt"]})
        elif kind == "amend-out":
            body.append({"op": "amend", "out": [f"x{i}.txt"]})
            body.append({"op": "write", "path": f"x{i}.txt"})
        elif kind == "static":
            body.append({"op": "static", "paths": ["s1.txt"]})
        elif kind == "define":
            body.append({"op": "run", "label": f"d{i}", "shell": True, "inp": ["s0.txt"], "out": [f"d{i}.txt"]})
            commands[f"d{i}"] = [{"op": "auto"}]
        elif kind == "amend-f":
            body.append({"op": "amend", "inp": ["f.txt"]})
            body.append({"op": "read", "paths": ["f.txt"]})
        body.append({"op": "write", "path": f"a{i}.txt"})
        scripts[w] = body
        meta["requests"].append(kind)
    sub.append({"op": "gate", "name": "sub:mid"})
    sub.append({"op": "amend", "inp": ["f.txt"]})
    sub.append({"op": "read", "paths": ["f.txt"]})
    # behind the amend: only reached by the second execution of ./sub.py
    late = rng.choice(["none", "consumer", "static-s1", "worker"])
    if late == "consumer":
        sub.append({"op": "run", "label": "z", "shell": True, "inp": [f"a{i}.txt" for i in range(nw)], "out": ["z.txt"]})
        commands["z"] = [{"op": "auto"}]
    elif late == "static-s1":
        # collides with a worker that declares s1.txt static, in -j1 as in every other schedule
        sub.append({"op": "static", "paths": ["s1.txt"]})
    elif late == "worker":
        scripts["b.py"] = [{"op": "gate", "name": "b:req"}, {"op": "static", "paths": ["s1.txt"]},
                           {"op": "write", "path": "b.txt"}]
        sub.append({"op": "run", "label": "./b.py", "out": ["b.txt"]})
    meta["late"] = late
    plan = scripts["plan.py"]
    plan.append({"op": "static", "paths": sorted(["sub.py", "s0.txt"] + workers + (["b.py"] if late == "worker" else []))})
    plan.append({"op": "plan", "label": "./sub.py"})
    plan.append({"op": "run", "label": "q", "shell": True, "out": ["f.txt"]})
    if not any(k == "static" for k in meta["requests"]) and late not in ("static-s1", "worker"):
        plan.append({"op": "static", "paths": ["s1.txt"]})
    return e3.Project(sources=sources, program={"scripts": scripts, "commands": commands}), meta


def deferplan_schedules(meta: dict, seed) -> list:
    ws = meta["workers"]
    reqs = [f"a{i}:req" for i in range(len(ws))]
    first = ["start:./plan.py", "end:./plan.py", "start:./sub.py", "sub:top", "sub:between", "sub:mid", "end:./sub.py"]
    again = ["start:./sub.py", "sub:top", "sub:between", "sub:mid", "end:./sub.py"]
    startw = [f"start:{w}" for w in ws]
    endw = [f"end:{w}" for w in ws]
    prod = ["start:q", "end:q"]
    both = dict(policy="fifo", points=["start", "end"])
    return [
        ("j1", dict(njob=1)),
        # the workers are done before the creator starts again
        ("j4-before-restart", dict(njob=4, schedule=dict(both, order=first + startw + reqs + endw + prod
                                                         + again))),
        # requests and completions arrive while the creator runs again and has NOT yet defined them again
        ("j4-detached", dict(njob=4, schedule=dict(both, order=first + startw + prod + ["start:./sub.py"] + reqs + endw
                                                   + again[1:]))),
        # requests while detached, completion after the re-definition
        ("j4-req-detached-end-after", dict(njob=4, schedule=dict(both, order=first + startw + prod + ["start:./sub.py"]
                                                                 + reqs + ["sub:top", "sub:between"] + endw
                                                                 + ["sub:mid", "end:./sub.py"]))),
        # requests after the re-definition, completion after the creator's second completion
        ("j4-after-redefine", dict(njob=4, schedule=dict(both, order=first + startw + prod
                                                         + ["start:./sub.py", "sub:top", "sub:between"] + reqs
                                                         + ["sub:mid", "end:./sub.py"] + endw))),
        # the first worker has been defined again (attached), the second one is still detached: the
        # detached one's request first, then the attached one's -- and the other way round
        ("j4-mixed-detached-first", dict(njob=4, schedule=dict(both, order=first + startw + prod
                                                               + ["start:./sub.py", "sub:top"] + reqs[::-1] + endw
                                                               + again[2:]))),
        ("j4-mixed-attached-first", dict(njob=4, schedule=dict(both, order=first + startw + prod
                                                               + ["start:./sub.py", "sub:top"] + reqs + endw
                                                               + again[2:]))),
        ("j4-seed", dict(njob=4, schedule={"seed": 303 + seed % 977, "points": ["start", "end"]})),
    ]


def run_deferplan_case(item):
    kind, seed, _ = item
    project, meta = gen_deferplan(seed)
    try:
        res = run_schedules(project, schedules=deferplan_schedules(meta, seed), resumed=False)
    except Exception as e:  # noqa: BLE001 - reported by the caller
        return {"item": item, "meta": meta, "crash": f"{type(e).__name__}: {e}", "project": project.to_json()}
    diffs = compare(res, texts=False)
    return {"item": item, "meta": meta, "cls": res["j1"]["cls"], "nrej": len(res["j1"]["rejected"]), "diffs": diffs,
            "max_running": max(r["max_running"] or 0 for r in res.values()),
            "profile": pf.merge(r.get("profile") for n, r in res.items() if n != "j1"),
            "profiles": {n: r.get("profile") or {} for n, r in res.items()},
            "by_schedule": {n: [r["cls"], [x[3][:80] for x in r["rejected"]], [x[0] for x in r["rejected"]]]
                            for n, r in res.items()},
            "project": project.to_json() if diffs else None}


def run_detached_input_scenario() -> dict:
    """Directed second build: ./sub.py (changed) is executed again and re-defines the UNCHANGED producer
    `w` of w.out (recycled, not run: w.out stays BUILT and only changes from detached to attached), while
    the changed worker ./use.py amends w.out.  -j1: the two never overlap.  -j2 with the worker's request
    AND completion arriving after the sub-plan was dispatched (reset_for_rerun detached w.out) and before
    it defined `w` again: the worker is refused the detached input and has to be run once more after
    the re-definition.  Whatever parks the worker (deferred flag, pending bookkeeping) must be undone by
    the re-attachment, which is no change of a file STATE.  Both schedules must end alike."""
    plan = [{"op": "static", "paths": ["sub.py", "use.py"]}, {"op": "plan", "label": "./sub.py"},
            {"op": "run", "label": "./use.py", "out": ["u.out"]}]
    sub = [{"op": "run", "label": "w", "shell": True, "out": ["w.out"]}]
    use = [{"op": "amend", "inp": ["w.out"]}, {"op": "read", "paths": ["w.out"]}, {"op": "write", "path": "u.out"}]
    p = e3.Project(sources={}, program={"scripts": {"plan.py": plan, "sub.py": sub, "use.py": use},
                                        "commands": {"w": [{"op": "auto"}]}})
    edit = [{"op": "script", "path": f, "actions": [{"op": "print", "text": "second version"}] + a}
            for f, a in (("sub.py", sub), ("use.py", use))]
    both = dict(policy="fifo", points=["start", "end"])
    out = {"project": p.to_json(), "edit": edit}
    for name, kw in (("j1", dict(njob=1)),
                     ("j2-worker-first", dict(njob=2, schedule=dict(both, order=["start:./use.py", "end:./use.py",
                                                                                  "start:./sub.py", "end:./sub.py"]))),
                     ("j2-sub-first", dict(njob=2, schedule=dict(both, order=["start:./sub.py", "end:./sub.py",
                                                                               "start:./use.py", "end:./use.py"])))):
        rs = e3.run_history(p, [{"edits": edit, "build": kw}])
        r = rs[-1]
        out[name] = {"first": e3.rc_class(rs[0].returncode), "cls": e3.rc_class(r.returncode),
                     "rejected": [list(x) for x in r.rejected],
                     "graph": e3.canon_graph(r.graph, digests=True) if r.graph else None,
                     "runs_of_worker": sum(1 for c in r.commands if c["label"] == "./use.py"),
                     "gate_releases": [t[0] for t in r.schedule_trace]}
    return out


def run_detached_input_completion_scenario() -> dict:
    """Directed second build (finding C02:noncommute:detached-input-at-completion).  ./p.py defines the
    nested script ./n.py, which defines the producer `c` of o.txt; the worker ./u.py amends o.txt.  All
    three scripts change trivially.  -j2, order: ./p.py defines ./n.py again (o.txt attached again), the
    worker's amend is accepted, ./p.py ends, ./n.py is dispatched (its reset_for_rerun detaches `c` and
    o.txt), the worker COMPLETES, then ./n.py defines `c` again.  Step.inp_paths() leaves detached sources
    out, so the step hash stored for the worker is computed without o.txt: same files, same edges, another
    inp_digest than under -j1."""
    plan = [{"op": "static", "paths": ["n.py", "p.py", "u.py"]}, {"op": "plan", "label": "./p.py"},
            {"op": "run", "label": "./u.py", "out": ["w.txt"]}]
    pp = [{"op": "run", "label": "./n.py"}]
    nn = [{"op": "run", "label": "c", "shell": True, "out": ["o.txt"]}]
    uu = [{"op": "amend", "inp": ["o.txt"]}, {"op": "read", "paths": ["o.txt"]}, {"op": "write", "path": "w.txt"}]
    p = e3.Project(sources={}, program={"scripts": {"plan.py": plan, "p.py": pp, "n.py": nn, "u.py": uu},
                                        "commands": {"c": [{"op": "auto"}]}})
    edit = [{"op": "script", "path": f, "actions": [{"op": "print", "text": "second version"}] + a}
            for f, a in (("p.py", pp), ("n.py", nn), ("u.py", uu))]
    both = dict(policy="fifo", points=["start", "end"])
    out = {"project": p.to_json(), "edit": edit}
    for name, kw in (("j1", dict(njob=1)),
                     ("j2-completes-while-detached", dict(njob=2, schedule=dict(both, order=[
                         "start:./p.py", "start:./u.py", "end:./p.py", "end:./u.py", "start:./n.py", "end:./n.py"]))),
                     ("j2-completes-after", dict(njob=2, schedule=dict(both, order=[
                         "start:./p.py", "start:./u.py", "end:./p.py", "start:./n.py", "end:./n.py", "end:./u.py"])))):
        rs = e3.run_history(p, [{"edits": edit, "build": kw}])
        r = rs[-1]
        prof = pf.profile(r, p.program)
        g = e3.parse_graph(e3.canon_graph(r.graph, digests=True)) if r.graph else {}
        out[name] = {"first": e3.rc_class(rs[0].returncode), "cls": e3.rc_class(r.returncode),
                     "graph_without_digests": e3.canon_graph(r.graph, digests=False) if r.graph else None,
                     "worker": (g.get("step:./u.py") or {}).get("props"), "files": dict(r.files),
                     "completed_while_input_detached": sorted(k.split(":", 1)[1] for k in prof
                                                              if k.startswith("detached-input-completion:")),
                     "commands": [[c["label"], c["start"], c["stop"], c["rc"]] for c in r.commands],
                     "gate_releases": [t[0] for t in r.schedule_trace]}
    return out


def _optional_below_rerun_project(seed=None):
    """T = ./sub.py defines S = ./n.py (a nested script) and is deferred by amend(inp=f.txt); S defines the
    OPTIONAL step `o` with output z.txt and succeeds; `q` builds f.txt and T is dispatched again
    (reset_for_rerun detaches S and, below it, `o`) and defines S again (full recycle with `o` as product).
    ./w.py, a step of another branch, defines the only consumer `c` of z.txt."""
    rng = random.Random(f"c02-optbelow-{seed}") if seed is not None else None
    extra = rng.randint(0, 2) if rng else 0          # further optional steps below S nobody consumes
    plan = [{"op": "static", "paths": ["n.py", "sub.py", "w.py"]}, {"op": "plan", "label": "./sub.py"},
            {"op": "run", "label": "q", "shell": True, "out": ["f.txt"]},
            {"op": "run", "label": "./w.py", "out": ["w.txt"]}]
    if rng:
        rng.shuffle(plan[1:])
        plan = [plan[0]] + plan[1:]
    sub = [{"op": "gate", "name": "sub:top"}, {"op": "run", "label": "./n.py"}, {"op": "gate", "name": "sub:mid"},
           {"op": "amend", "inp": ["f.txt"]}, {"op": "read", "paths": ["f.txt"]}]
    nn = [{"op": "run", "label": "o", "shell": True, "out": ["z.txt"], "optional": True}]
    # `c` reads z.txt from the disk like a shell command would (an `auto` command asks get_step_info for its
    # inputs, which leaves out an input that is detached at that moment: same root as D46)
    commands = {"q": [{"op": "write", "path": "f.txt", "content": "F\n"}], "o": [{"op": "auto"}],
                "c": [{"op": "read", "paths": ["z.txt"]}, {"op": "write", "path": "c.txt"}]}
    for i in range(extra):
        nn.append({"op": "run", "label": f"x{i}", "shell": True, "out": [f"x{i}.txt"], "optional": True})
        commands[f"x{i}"] = [{"op": "auto"}]
    if rng:
        rng.shuffle(nn)
    ww = [{"op": "gate", "name": "w:req"}, {"op": "run", "label": "c", "shell": True, "inp": ["z.txt"], "out": ["c.txt"]},
          {"op": "write", "path": "w.txt"}]
    return e3.Project(sources={}, program={"scripts": {"plan.py": plan, "sub.py": sub, "n.py": nn, "w.py": ww},
                                           "commands": commands})


def optional_below_rerun_schedules(seed=0) -> list:
    first = ["start:./plan.py", "end:./plan.py", "start:./sub.py", "sub:top", "sub:mid", "end:./sub.py",
             "start:./n.py", "end:./n.py", "start:./w.py"]
    again = ["start:./sub.py", "sub:top", "sub:mid", "end:./sub.py"]
    both = dict(policy="fifo", points=["start", "end"])
    return [
        ("j1", dict(njob=1)),
        # the consumer is defined before T is dispatched again
        ("j4-before-restart", dict(njob=4, schedule=dict(both, order=first + ["w:req", "end:./w.py", "start:q", "end:q"] + again))),
        # ... between T's restart (S and `o` detached) and T's re-definition of S, with a free job slot
        # (the job loop polls the scheduler in between)
        ("j4-inside-window", dict(njob=4, schedule=dict(both, order=first + ["start:q", "end:q", "start:./sub.py", "w:req",
                                                                             "end:./w.py", "sub:top", "sub:mid", "end:./sub.py"]))),
        ("j4-inside-window-w-late", dict(njob=4, schedule=dict(both, order=first + ["start:q", "end:q", "start:./sub.py", "w:req",
                                                                                    "sub:top", "sub:mid", "end:./sub.py", "end:./w.py"]))),
        # ... after the re-definition
        ("j4-after-redefine", dict(njob=4, schedule=dict(both, order=first + ["start:q", "end:q", "start:./sub.py", "sub:top",
                                                                              "w:req", "end:./w.py", "sub:mid", "end:./sub.py"]))),
        ("j4-seed", dict(njob=4, schedule={"seed": 404 + seed % 971, "points": ["start", "end"]})),
    ]


def run_optbelow_case(item):
    """E3 family `optbelow`: an OPTIONAL producer two levels below a sub-plan that runs twice in one build;
    its only consumer is defined by another branch before / inside / after the window in which it is detached."""
    kind, seed, _ = item
    project = _optional_below_rerun_project(seed)
    try:
        res = run_schedules(project, schedules=optional_below_rerun_schedules(seed), resumed=False)
    except Exception as e:  # noqa: BLE001 - reported by the caller
        return {"item": item, "meta": {}, "crash": f"{type(e).__name__}: {e}", "project": project.to_json()}
    diffs = compare(res, texts=False)
    return {"item": item, "meta": {}, "cls": res["j1"]["cls"], "nrej": len(res["j1"]["rejected"]), "diffs": diffs,
            "max_running": max(r["max_running"] or 0 for r in res.values()),
            "profile": pf.merge(r.get("profile") for n, r in res.items() if n != "j1"),
            "profiles": {n: r.get("profile") or {} for n, r in res.items()},
            "by_schedule": {n: [r["cls"], [x[3][:80] for x in r["rejected"]], [x[0] for x in r["rejected"]]]
                            for n, r in res.items()},
            "project": project.to_json() if diffs else None}


def run_detached_issuer_scenario() -> dict:
    """Directed, from scratch, ONE build (finding C02:noncommute:detached-issuer).  ./sub.py defines the
    workers ./a0.py and ./a1.py and is deferred by amend(inp=f.txt); both workers declare the source
    s1.txt static.  -j1: the workers run one after the other, the second declaration is refused, the
    build FAILS.  -j4 with the workers' requests arriving after ./sub.py was dispatched again (its
    reset_for_rerun detached the RUNNING workers) and before it defined them again: both declarations
    are accepted (the second takes the file over from a detached owner) and the build SUCCEEDS."""
    plan = [{"op": "static", "paths": ["a0.py", "a1.py", "s0.txt", "sub.py"]}, {"op": "plan", "label": "./sub.py"},
            {"op": "run", "label": "q", "shell": True, "out": ["f.txt"]}]
    sub = [{"op": "gate", "name": "sub:top"}, {"op": "run", "label": "./a0.py", "out": ["a0.txt"]},
           {"op": "run", "label": "./a1.py", "out": ["a1.txt"]}, {"op": "amend", "inp": ["f.txt"]},
           {"op": "read", "paths": ["f.txt"]}]
    worker = lambda i: [{"op": "gate", "name": f"a{i}:req"}, {"op": "static", "paths": ["s1.txt"]},  # noqa: E731
                        {"op": "write", "path": f"a{i}.txt"}]
    p = e3.Project(sources={"s0.txt": "0\n", "s1.txt": "1\n"}, program={
        "scripts": {"plan.py": plan, "sub.py": sub, "a0.py": worker(0), "a1.py": worker(1)},
        "commands": {"q": [{"op": "write", "path": "f.txt", "content": "F\n"}]}})
    first = ["start:./plan.py", "end:./plan.py", "start:./sub.py", "sub:top", "end:./sub.py",
             "start:./a0.py", "start:./a1.py", "start:q", "end:q"]
    both = dict(policy="fifo", points=["start", "end"])
    out = {"project": p.to_json()}
    for name, kw in (("j1", dict(njob=1)),
                     # control: the requests arrive before the creator is dispatched again
                     ("j4-attached", dict(njob=4, schedule=dict(both, order=first[:7] + ["a0:req", "a1:req", "end:./a0.py",
                                                                                          "end:./a1.py"] + first[7:]))),
                     ("j4-detached", dict(njob=4, schedule=dict(both, order=first + ["start:./sub.py", "a0:req", "a1:req",
                                                                                     "end:./a0.py", "end:./a1.py", "sub:top",
                                                                                     "end:./sub.py"])))):
        r = e3.from_scratch(p, **kw)
        prof = pf.profile(r, p.program)
        out[name] = {"cls": e3.rc_class(r.returncode), "rejected": [list(x) for x in r.rejected],
                     "requests_while_detached": prof.get("creator-reruns:request-while-detached", 0),
                     "accepted_while_detached": sorted(
                         c["label"] for c in r.commands for n, ok, s in c["rpc"]
                         if ok and n == "declare_static" and prof.get("detached-request:" + c["label"])),
                     "gate_releases": [t[0] for t in r.schedule_trace]}
    return out


def run_busy_defer_scenario(cap: int = 3) -> dict:
    """The unchanged engine, counted as evidence (design.d/C02.md, 'observed'): a worker that is
    refused a DETACHED BUILT input is PENDING without the deferred flag (`has_unavailable_dynamic_input`
    looks at file states only) and a detached dynamic input does not block dispatch, so the worker is
    handed out again at once, and again, until the sub-plan that is being re-executed has re-declared
    the producer -- or until the defer cap turns the worker into a FAILED step.  With `--defer-cap`
    = `cap` and a schedule that lets the worker run `cap` + 1 times before the sub-plan's command
    starts, the second build FAILS; under -j1 it succeeds."""
    plan = [{"op": "static", "paths": ["sub.py", "use.py"]}, {"op": "plan", "label": "./sub.py"},
            {"op": "run", "label": "./use.py", "out": ["u.out"]}]
    sub = [{"op": "run", "label": "w", "shell": True, "out": ["w.out"]}]
    use = [{"op": "amend", "inp": ["w.out"]}, {"op": "read", "paths": ["w.out"]}, {"op": "write", "path": "u.out"}]
    p = e3.Project(sources={}, program={"scripts": {"plan.py": plan, "sub.py": sub, "use.py": use},
                                        "commands": {"w": [{"op": "auto"}]}})
    edit = [{"op": "script", "path": f, "actions": [{"op": "print", "text": "second version"}] + a}
            for f, a in (("sub.py", sub), ("use.py", use))]
    order = ["start:./use.py", "end:./use.py"] * (cap + 1) + ["start:./sub.py"]
    out = {}
    for name, kw in (("j1", dict(njob=1)),
                     ("starved", dict(njob=2, schedule={"order": order, "policy": "fifo", "points": ["start", "end"]}))):
        rs = e3.run_history(p, [{"edits": edit, "build": kw}], defer_cap=cap)
        out[name] = e3.rc_class(rs[-1].returncode)
        out[name + "_runs"] = sum(1 for c in rs[-1].commands if c["label"] == "./use.py")
    out["worker_runs"] = out["starved_runs"]
    return out
