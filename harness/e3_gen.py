"""Seeded generator of mostly-valid E3 projects and edit histories.

``gen_case(seed, stats) -> (Project, history)``.  A project is kept as a list of *units*
(declarations of the main plan, possibly nested in a sub-plan); ``render`` turns units into the
plan scripts of the E3 DSL.  History phases mutate sources, units and environment and re-render,
so that "add / drop / re-add / redefine a step or declaration" are all reachable.

Unit kinds
  static   one ``static(files...)`` call
  tree     ``static("data/")``: static tree, its files become inputs lazily
  pattern  ``static("pat/*.txt")``: pattern registered, matches declared
  glob     ``glob("g_*.txt")`` + ``static(glob)`` + one step per match
  step     plain step ``t<id>`` (behaviour ``auto``: reads declared inputs, writes declared outputs)
  script   ``./w<id>.py``: script step that amends inputs/outputs/env and reads env vars
  subplan  ``./p<id>.py``: a plan step whose script declares further units

Invalid constructs are injected with small probability (undeclared input, deleted declared
source, output collision) because rejections and PENDING outcomes are part of the behaviour.
"""
from __future__ import annotations

import collections
import copy
import random

from harness.e3 import Project

ENV_NAMES = ["VA", "VB", "VC"]


class Stats:
    """Distribution of what the generator produced (for the evidence of callers)."""

    def __init__(self):
        self.units = collections.Counter()
        self.edits = collections.Counter()
        self.nsteps = collections.Counter()
        self.nphases = collections.Counter()
        self.ncases = 0

    def merge(self, other: "Stats"):
        for name in ("units", "edits", "nsteps", "nphases"):
            getattr(self, name).update(getattr(other, name))
        self.ncases += other.ncases

    def to_json(self) -> dict:
        return {"cases": self.ncases, "units": dict(self.units), "edits": dict(self.edits),
                "steps_per_project": {str(k): v for k, v in sorted(self.nsteps.items())},
                "phases_per_history": {str(k): v for k, v in sorted(self.nphases.items())}}

    def summary(self) -> str:
        j = self.to_json()
        return (f"cases={j['cases']}\nunits={j['units']}\nedits={j['edits']}\n"
                f"steps/project={j['steps_per_project']}\nphases/history={j['phases_per_history']}")


# ---------------------------------------------------------------------------------------------
# Units -> program
# ---------------------------------------------------------------------------------------------


def _unit_actions(unit: dict, scripts: dict) -> list:
    kind = unit["k"]
    if kind == "static":
        return [{"op": "static", "paths": list(unit["files"])}] if unit["files"] else []
    if kind == "tree":
        return [{"op": "static", "paths": [unit["path"]]}]
    if kind == "pattern":
        return [{"op": "static", "paths": [unit["pattern"]]}]
    if kind == "glob":
        return [{"op": "glob", "pattern": unit["pattern"], "static": True, "foreach": [
            {"op": "step", "label": "cp {m} " + unit["prefix"] + "{stem}.out", "inp": ["{m}"],
             "out": [unit["prefix"] + "{stem}.out"]}]}]
    if kind == "step":
        a = {"op": "step", "label": f"t{unit['id']}", "inp": list(unit["inp"]),
             "out": list(unit["out"])}
        if unit.get("env"):
            a["env"] = list(unit["env"])
        if unit.get("vol"):
            a["vol"] = list(unit["vol"])
        if unit.get("optional"):
            a["need"] = "OPTIONAL"
        if unit.get("res"):
            a["resources"] = dict(unit["res"])
        return [a]
    if kind == "script":
        path = f"w{unit['id']}.py"
        body = []
        if unit.get("amend_env"):
            body.append({"op": "amend", "env": list(unit["amend_env"])})
        if unit.get("amend_inp") or unit.get("amend_out"):
            body.append({"op": "amend", "inp": list(unit.get("amend_inp", [])),
                         "out": list(unit.get("amend_out", []))})
        if unit.get("amend_inp"):
            body.append({"op": "read", "paths": list(unit["amend_inp"]), "required": True})
        for name in unit.get("env", []) + unit.get("amend_env", []):
            body.append({"op": "getenv", "name": name})
        body.append({"op": "auto"})
        for out in unit.get("amend_out", []):
            body.append({"op": "write", "path": out})
        scripts[path] = body
        a = {"op": "run", "label": f"./{path}", "inp": list(unit["inp"]), "out": list(unit["out"])}
        if unit.get("env"):
            a["env"] = list(unit["env"])
        if unit.get("optional"):
            a["optional"] = True
        return [{"op": "static", "paths": [path]}, a]
    if kind == "subplan":
        path = f"p{unit['id']}.py"
        body = []
        if unit.get("hold"):
            body.append({"op": "hold"})
        for sub in unit["units"]:
            body.extend(_unit_actions(sub, scripts))
        if unit.get("hold"):
            body.append({"op": "release"})
        scripts[path] = body
        return [{"op": "static", "paths": [path]}, {"op": "plan", "label": f"./{path}"}]
    raise ValueError(kind)


def render(units: list) -> dict:
    scripts: dict = {}
    main = []
    for unit in units:
        main.extend(_unit_actions(unit, scripts))
    scripts["plan.py"] = main
    return {"scripts": scripts, "commands": {}}


def _all_steps(units: list) -> list:
    out = []
    for u in units:
        if u["k"] in ("step", "script"):
            out.append(u)
        elif u["k"] == "subplan":
            out.extend(_all_steps(u["units"]))
    return out


# ---------------------------------------------------------------------------------------------
# Generation state
# ---------------------------------------------------------------------------------------------


class _Gen:
    def __init__(self, seed: int, stats: Stats | None):
        self.rng = random.Random(seed)
        self.stats = stats or Stats()
        self.sources: dict = {}
        self.env: dict = {}
        self.units: list = []
        self.dropped: list = []
        self.next_id = 0
        self.next_src = 0

    # helpers ---------------------------------------------------------------------------------
    def new_id(self) -> int:
        self.next_id += 1
        return self.next_id

    def new_source(self, prefix: str = "s", directory: str = "") -> str:
        self.next_src += 1
        path = f"{directory}{prefix}{self.next_src}.txt"
        self.sources[path] = f"content of {path} v0\n"
        return path

    def declared_files(self) -> list:
        """Files usable as inputs without further declarations, in unit order."""
        files = []
        for u in self.units:
            files.extend(self._unit_provides(u))
        return files

    def _unit_provides(self, u: dict) -> list:
        k = u["k"]
        if k == "static":
            return list(u["files"])
        if k == "tree":
            return sorted(p for p in self.sources if p.startswith(u["path"]) and not p.endswith("/"))
        if k == "pattern":
            d = u["pattern"].rsplit("/", 1)[0] + "/" if "/" in u["pattern"] else ""
            pre = u["pattern"].rsplit("/", 1)[-1].split("*")[0]
            return sorted(p for p in self.sources
                          if p.startswith(d + pre) and p.endswith(".txt") and "/" not in p[len(d):])
        if k == "glob":
            pre = u["pattern"].split("*")[0]
            return sorted(p for p in self.sources if p.startswith(pre) and "/" not in p)
        if k in ("step", "script"):
            return list(u["out"]) + list(u.get("amend_out", []))
        if k == "subplan":
            out = []
            for sub in u["units"]:
                out.extend(self._unit_provides(sub))
            return out
        return []

    def pick_inputs(self, avail: list, lo: int = 0, hi: int = 3) -> list:
        if not avail:
            return []
        n = min(len(avail), self.rng.randint(lo, hi))
        return sorted(self.rng.sample(avail, n))

    # unit construction -----------------------------------------------------------------------
    def make_step(self, avail: list, *, script: bool | None = None) -> dict:
        rng = self.rng
        uid = self.new_id()
        if script is None:
            script = rng.random() < 0.3
        unit = {"k": "script" if script else "step", "id": uid,
                "inp": self.pick_inputs(avail, 0 if rng.random() < 0.2 else 1, 3),
                "out": [f"o{uid}.txt"] + ([f"o{uid}b.txt"] if rng.random() < 0.15 else [])}
        if rng.random() < 0.25:
            unit["env"] = sorted(rng.sample(ENV_NAMES, rng.randint(1, 2)))
        if rng.random() < 0.2:
            unit["optional"] = True
        if not script and rng.random() < 0.1:
            unit["vol"] = [f"v{uid}.log"]
        if not script and rng.random() < 0.1:
            unit["res"] = {"tok": 1}
        if script:
            rest = [p for p in avail if p not in unit["inp"]]
            if rest and rng.random() < 0.7:
                unit["amend_inp"] = self.pick_inputs(rest, 1, 2)
            if rng.random() < 0.3:
                unit["amend_out"] = [f"o{uid}x.txt"]
            if rng.random() < 0.3:
                unit["amend_env"] = [rng.choice(ENV_NAMES)]
                unit["amend_env"] = [n for n in unit["amend_env"] if n not in unit.get("env", [])]
        if rng.random() < 0.012:
            unit["inp"] = sorted(set(unit["inp"]) | {"undeclared.txt"})   # stays PENDING
        return unit

    def initial(self):
        rng = self.rng
        for _ in range(rng.randint(2, 4)):
            self.new_source()
        roots = sorted(self.sources)
        self.units.append({"k": "static", "files": roots})
        if rng.random() < 0.5:
            for _ in range(rng.randint(1, 3)):
                self.new_source("d", "data/")
            self.units.append({"k": "tree", "path": "data/"})
        if rng.random() < 0.4:
            for _ in range(rng.randint(1, 3)):
                self.new_source("m", "pat/")
            self.units.append({"k": "pattern", "pattern": "pat/m*.txt"})
        if rng.random() < 0.35:
            for _ in range(rng.randint(1, 2)):
                self.new_source("g_")
            self.units.append({"k": "glob", "pattern": "g_*.txt", "prefix": "c_"})
        for name in ENV_NAMES:
            if rng.random() < 0.6:
                self.env[name] = f"{name.lower()}0"
        nstep = rng.randint(2, 9)
        subplan = None
        if rng.random() < 0.45:
            subplan = {"k": "subplan", "id": self.new_id(), "units": [], "hold": rng.random() < 0.3}
        for i in range(nstep):
            avail = self.declared_files() + (self._unit_provides(subplan) if subplan else [])
            unit = self.make_step(avail)
            if subplan is not None and rng.random() < 0.4:
                subplan["units"].append(unit)
            else:
                self.units.append(unit)
            if subplan is not None and i == nstep // 2:
                self.units.append(subplan)
                subplan_done = subplan
                subplan = None
                del subplan_done
        if subplan is not None:
            self.units.append(subplan)
        # Make most optional chains needed: a mandatory consumer of some optional output.
        opts = [u for u in _all_steps(self.units) if u.get("optional")]
        if opts and rng.random() < 0.6:
            src = rng.choice(opts)
            uid = self.new_id()
            self.units.append({"k": "step", "id": uid, "inp": [src["out"][0]], "out": [f"o{uid}.txt"]})

    # edits -----------------------------------------------------------------------------------
    def removable(self) -> list:
        return [u for u in self.units if u["k"] in ("step", "script", "subplan", "pattern", "glob", "tree")]

    def consumers_fix(self):
        """After structural edits: drop inputs that nothing provides any more (mostly), so the
        project stays mostly valid; 5% of dangling inputs are kept on purpose."""
        provided = set(self.declared_files())
        for u in _all_steps(self.units):
            for key in ("inp", "amend_inp"):
                if key in u:
                    keep = []
                    for p in u[key]:
                        if p in provided or p == "undeclared.txt" or self.rng.random() < 0.05:
                            keep.append(p)
                    u[key] = keep

    def edit_phase(self) -> list:
        """Mutate the state; return the list of E3 edits that realise the mutation."""
        rng = self.rng
        edits = []
        structural = False
        for _ in range(rng.randint(1, 3)):
            kind = rng.choices(
                ["change_src", "add_src", "del_src", "drop", "readd", "redefine", "add_step", "env",
                 "noop"],
                [22, 10, 8, 12, 8, 16, 10, 10, 4])[0]
            self.stats.edits[kind] += 1
            if kind == "change_src" and self.sources:
                p = rng.choice(sorted(self.sources))
                n = int(self.sources[p].rsplit("v", 1)[-1]) + 1 if "v" in self.sources[p] else 1
                same_size = rng.random() < 0.3
                new = f"content of {p} v{n}\n" if not same_size or n > 9 else self.sources[p][:-2] + f"{n}\n"
                self.sources[p] = new
                edits.append({"op": "write", "path": p, "content": new})
            elif kind == "add_src":
                where = rng.choice(["", "data/", "pat/", "g_"])
                if where == "g_":
                    p = self.new_source("g_")
                elif where:
                    p = self.new_source("d" if where == "data/" else "m", where)
                else:
                    p = self.new_source()
                    statics = [u for u in self.units if u["k"] == "static"]
                    if statics and rng.random() < 0.7:
                        statics[0]["files"] = sorted(set(statics[0]["files"]) | {p})
                        structural = True
                edits.append({"op": "write", "path": p, "content": self.sources[p]})
            elif kind == "del_src" and len(self.sources) > 1:
                p = rng.choice(sorted(self.sources))
                del self.sources[p]
                edits.append({"op": "delete", "path": p})
                if rng.random() < 0.92:
                    for u in self.units:
                        if u["k"] == "static" and p in u["files"]:
                            u["files"] = [f for f in u["files"] if f != p]
                    structural = True
            elif kind == "drop" and self.removable():
                u = rng.choice(self.removable())
                self.units.remove(u)
                self.dropped.append(u)
                structural = True
            elif kind == "readd" and self.dropped:
                u = self.dropped.pop(rng.randrange(len(self.dropped)))
                self.units.insert(rng.randint(1, len(self.units)), u)
                structural = True
            elif kind == "redefine" and _all_steps(self.units):
                u = rng.choice(_all_steps(self.units))
                idx = next((i for i, top in enumerate(self.units)
                            if top is u or (top["k"] == "subplan" and u in top["units"])), 0)
                avail = []
                for top in self.units[:idx]:
                    avail.extend(self._unit_provides(top))
                what = rng.choice(["inp", "env", "optional", "out", "amend"])
                if what == "inp":
                    u["inp"] = self.pick_inputs(avail, 0, 3)
                elif what == "env":
                    u["env"] = sorted(rng.sample(ENV_NAMES, rng.randint(0, 2)))
                    if "amend_env" in u:
                        u["amend_env"] = [n for n in u["amend_env"] if n not in u["env"]]
                elif what == "optional":
                    u["optional"] = not u.get("optional", False)
                elif what == "out":
                    extra = f"o{u['id']}c.txt"
                    u["out"] = [o for o in u["out"] if o != extra] if extra in u["out"] else u["out"] + [extra]
                elif u["k"] == "script":
                    rest = [p for p in avail if p not in u["inp"]]
                    u["amend_inp"] = self.pick_inputs(rest, 0, 2)
                structural = True
            elif kind == "add_step":
                self.units.append(self.make_step(self.declared_files()))
                structural = True
            elif kind == "env":
                name = rng.choice(ENV_NAMES)
                value = None if rng.random() < 0.25 else f"{name.lower()}{rng.randint(1, 3)}"
                self.env[name] = value
                edits.append({"op": "setenv", "name": name, "value": value})
        if structural:
            self.consumers_fix()
            edits.append({"op": "program", "program": render(self.units)})
        return edits


def gen_case(seed: int, stats: Stats | None = None, *, max_phases: int = 6,
             watch_safe: bool = False) -> tuple[Project, list]:
    """One project and one history of 1..max_phases phases.

    watch_safe   no ``setenv`` edits (the environment of a running director cannot change).
    The initial plan uses at most the resource ``tok``; pass ``resources="tok:1"`` (or more) to
    ``build`` unless steps waiting for an unavailable resource are wanted.
    """
    g = _Gen(seed, stats)
    g.initial()
    project = Project(sources=dict(g.sources), program=render(g.units), env=dict(g.env))
    g.stats.ncases += 1
    for u in g.units:
        g.stats.units[u["k"]] += 1
        if u["k"] == "subplan":
            for sub in u["units"]:
                g.stats.units["sub:" + sub["k"]] += 1
    g.stats.nsteps[len(_all_steps(g.units))] += 1
    history = []
    nphase = g.rng.randint(1, max_phases)
    g.stats.nphases[nphase] += 1
    for _ in range(nphase):
        edits = g.edit_phase()
        if watch_safe:
            edits = [e for e in edits if e["op"] != "setenv"]
        history.append({"edits": copy.deepcopy(edits)})
    return project, history
