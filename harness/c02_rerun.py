"""C02, E2 level: a RE-EXECUTED step against a request of a concurrently running sibling.

`Step.reset_for_rerun` of a step S that is executed again detaches the whole subtree S created
(product steps and their outputs keep their states: a BUILT output stays BUILT, detached).  S then
declares its products again, one request at a time; an unchanged product is re-attached without
running (full recycle), a changed one is re-created (partial recycle).  A sibling U that runs at the
same time and asks for files of that subtree (amend(inp=...), or a new step that consumes them)
finds them attached, detached or re-attached depending on where its request falls between S's
transactions, is deferred or not, and is woken up or not.

One scenario = (base state, T, r):
  base  the plan defined S and U; S defined a family of producers; (some) producers and U ran;
        S and U were made pending and dispatched again (U's command runs, S is being checked)
  T     S's transactions: the failed skip check (`_reset_step_to_pending`, which already detaches
        what S created), its dispatch by the real scheduler, reset_for_rerun, its re-declarations
        one by one, its completion
  r     U's request
Every arrival position k of r in T is executed on a fresh copy of the base state (the state is
rebuilt from the seed; every transaction is a real `async with db` transaction), U completes
(right after its request or after S: `exec_end` with wants_defer exactly when the real
`amend_step` reported unavailable or unfresh inputs, the real `Scheduler.ran_concurrently` behind
it), and then the build is driven to quiescence with the REAL `Scheduler.pop_next_job`, one job at
a time, every step behaving as a fixed function of its label (`programs`).  What is compared
between the positions: the final canonical dump (nodes with creators and detached flags, file
states and hashes, step states with deferred flag / defer_count / hash, edges, env rows) and the
return-code class it implies.  Nothing is dispatchable at the end by construction; a step that is
PENDING + deferred in one position and SUCCEEDED in another is exactly such a difference.

Every executed sequence is also replayed by the model (Commute.rerun_check: outcome class of every
transaction and the final dump).
"""
from __future__ import annotations

import asyncio
import random

from stepup.core.enums import FileState, StepState

from . import e2
from .e2 import FILES, STEPS, Impl, classify

PLAN = "./plan.py"
PLAIN = [f for f in FILES if "/" not in f]
MAX_JOBS = 40


def hid(path):
    """Content of an output is a function of its path (inputs never change here)."""
    return 100 + FILES.index(path)


class BaseStateError(Exception):
    """The seeded base state could not be reached (counted, not a finding)."""


class Drv:
    """A real Workflow + Scheduler, every call one real transaction, everything recorded."""

    def __init__(self):
        self.impl = Impl(3)
        self.ops = []          # (op, outcome) in commit order, dispatches included
        self.programs = {}     # label -> list of request tuples issued on every run
        self.notes = []

    async def start(self):
        await self.impl.start()

    def close(self):
        self.impl.close()

    async def do(self, op):
        outcome, detail = await self.impl.apply(op)
        self.ops.append((op, outcome))
        return outcome, detail

    async def must(self, op):
        outcome, detail = await self.do(op)
        if outcome != "ok":
            raise BaseStateError(f"base state: {op} was refused: {detail}")

    async def amend(self, op):
        """amend_step as DirectorHandler.amend does it: the reply decides about the defer."""
        _, label, inp, env, out, vol = op
        impl = self.impl
        una, unf = set(), set()
        try:
            async with impl.db:
                una, unf, _chk = impl.wf.amend_step(
                    impl.node(("step", label)), inp_paths=list(inp), env_deps=list(env),
                    out_paths=list(out), vol_paths=list(vol),
                    ran_concurrently=impl.sched.ran_concurrently)
            outcome, detail = "ok", ""
        except Exception as e:  # noqa: BLE001
            outcome, detail = classify(e), f"{type(e).__name__}: {e}"
        self.ops.append((op, outcome))
        return outcome, detail, bool(una or unf)

    async def dispatch(self):
        r = await self.impl.dispatch()
        if r is None:
            return None
        if r[0] == "!":
            raise BaseStateError(f"pop_next_job raised {r[1]}")
        self.ops.append((("dispatch", r[0]), "ok"))
        return r

    async def dump(self):
        return await self.impl.dump()

    # -- the executor's transactions around one command ---------------------------------------
    async def node_i(self, label):
        async with self.impl.db:
            return self.impl.node(("step", label)).i

    async def begin(self, label):
        self.impl.sched.record_run_started(await self.node_i(label))
        await self.do(("reset_for_rerun", label))

    async def outputs(self, label):
        d = await self.dump()
        fstate = {l: (s, h) for l, s, h in d["files"]}
        det = {k: x for k, _, x in d["nodes"]}
        k = ("step", label)
        res = []
        for a, b, _ in d["deps"]:
            if a == k and b[0] == "file" and (det.get(k, True) or not det.get(b, True)):
                res.append((b[1], *fstate[b[1]]))
        return sorted(res)

    async def end(self, label, verdict):
        """verdict: 'ok' | 'defer' | 'fail'."""
        step_i = await self.node_i(label)
        if verdict == "ok":
            hs = []
            for p, s, h in await self.outputs(label):
                if s == FileState.PLANNED.value or (s == FileState.OUTDATED.value and h is None):
                    hs.append((p, hid(p)))
            op = ("exec_end", label, (), "SUCCEEDED", tuple(hs), True, False)
        else:
            op = ("exec_end", label, (), "FAILED", (), False, verdict == "defer")
        out = await self.do(op)
        self.impl.sched.record_run_stopped(step_i, succeeded=(verdict == "ok"))
        return out

    async def requests(self, label):
        """Issue the requests of `label`'s program; returns the verdict of the command."""
        verdict = "ok"
        for r in self.programs.get(label, ()):
            if r[0] == "amend_step":
                outcome, _, defer = await self.amend(r)
                if outcome != "ok":
                    return "fail"
                if defer:
                    return "defer"      # api.amend raises InputNotFoundError: the command ends
            else:
                outcome, _ = await self.do(r)
                if outcome != "ok":
                    return "fail"
        return verdict

    async def run_job(self, r):
        """One dispatched job carried out completely (the -j1 executor)."""
        label, kind, has_hash = r
        if kind == "ValidateDynamicJob":
            await self.do(("validate_pending", label))      # initial inputs unchanged
            return
        if has_hash:
            # try_skip_job: nothing a step reads changes its content here, so the digests match
            await self.end(label, "ok")
            return
        await self.begin(label)
        await self.end(label, await self.requests(label))

    async def to_quiescence(self):
        for _ in range(MAX_JOBS):
            r = await self.dispatch()
            if r is None:
                return True
            await self.run_job(r)
        return False

    async def run_until_dispatched(self, label, limit=12):
        """Carry out jobs until `label` itself is handed out; returns its job or None."""
        for _ in range(limit):
            r = await self.dispatch()
            if r is None:
                return None
            if r[0] == label:
                return r
            await self.run_job(r)
        return None


def rc_class(d):
    det = {k: x for k, _, x in d["nodes"]}
    states = {l: (s, need) for l, s, need, *_ in d["steps"] if not det.get(("step", l), True)}
    if any(s == StepState.FAILED.value for s, _ in states.values()):
        return "FAILED"
    if any(s != StepState.SUCCEEDED.value for s, _ in states.values()):
        return "PENDING"
    return "ok"


def gen_scenario(seed):
    """Everything random about a scenario; no database involved."""
    rng = random.Random(f"c02-rerun-e2-{seed}")
    S, U, X, *others = rng.sample(STEPS, 6)
    k = rng.choice([1, 2, 2, 3])
    names = others[:k]
    pool = rng.sample(PLAIN, k + 3)
    static = pool[k + 2]
    chain = rng.random() < 0.6
    built = [rng.random() < 0.85 for _ in names]
    fam, second_used = [], False
    for i, lab in enumerate(names):
        inp = ()
        if i > 0 and chain:
            inp = (pool[i - 1],)
        elif rng.random() < 0.3:
            inp = (static,)
        out = (pool[i],)
        if not second_used and rng.random() < 0.2:
            out = tuple(sorted((pool[i], pool[k])))
            second_used = True
        # a producer that is not built in the first build is OPTIONAL and not needed by anyone yet
        fam.append((lab, inp, (), out, (), "DEFAULT" if built[i] else "OPTIONAL"))
    produced = sorted({o for f in fam for o in f[3]})
    # what the re-executed S declares this time
    variant = rng.choices(["identical", "changed", "dropped"], weights=[70, 22, 8])[0]
    redecl = [list(f) for f in fam]
    if variant == "changed":
        j = rng.randrange(k)
        how = rng.choice(["more-input", "more-output", "need"])
        if how == "more-input":
            redecl[j][1] = tuple(sorted(set(redecl[j][1]) | {static}))
        elif how == "more-output":
            redecl[j][3] = tuple(sorted(set(redecl[j][3]) | {pool[k + 1]}))
        else:
            redecl[j][5] = "OPTIONAL" if rng.random() < 0.5 else "PLAN"
        if tuple(redecl[j]) == fam[j]:
            variant = "identical"
    elif variant == "dropped":
        del redecl[rng.randrange(k)]
    order = list(range(len(redecl)))
    if rng.random() < 0.5:
        rng.shuffle(order)
    redecl = [tuple(redecl[i]) for i in order]
    # U's request
    want = tuple(sorted(rng.sample(produced, rng.randint(1, min(2, len(produced))))))
    if rng.random() < 0.2:
        want = tuple(sorted(set(want) | {static}))
    u_out = ()
    if rng.random() < 0.5:
        u_out = (pool[k + 1],) if variant != "changed" else ()
    ukind = rng.choices(["amend", "define"], weights=[7, 3])[0]
    if ukind == "define":
        ureq = ("define_step", ("step", U), X, want, (), (), (), "DEFAULT")
    else:
        ukind = "amend"
        ureq = ("amend_step", U, want, (), (), ())
    return {"seed": seed, "S": S, "U": U, "fam": fam, "redecl": redecl, "variant": variant, "static": static,
            "ureq": ureq, "ukind": ukind, "u_out": u_out, "s_need": rng.choice(["PLAN", "DEFAULT"]),
            "u_ran_before": rng.random() < 0.6, "built": built,
            "u_end_late": rng.random() < 0.5}


async def build_base(sc) -> Drv:
    """The state in which S has been handed out for its re-execution and U's command is running."""
    d = Drv()
    await d.start()
    S, U = sc["S"], sc["U"]
    await d.must(("declare_static", ("root", ""), ("plan.py",)))
    await d.must(("update_hashes", "CONFIRMED", (("plan.py", 1),)))
    await d.must(("define_step", ("root", ""), PLAN, ("plan.py",), (), (), (), "PLAN"))
    async with d.impl.db:   # what initialize_boot does for the boot step
        d.impl.db.execute("UPDATE step SET _safe = 1, _safe_ignoring_hold = 1, _check_safe = 0")
    plan_prog = [("declare_static", ("step", PLAN), (sc["static"],)),
                 ("define_step", ("step", PLAN), S, ("plan.py",), (), (), (), sc["s_need"]),
                 ("define_step", ("step", PLAN), U, (), (), sc["u_out"], (), "DEFAULT")]
    d.programs = {PLAN: plan_prog,
                  S: [("define_step", ("step", S), *f) for f in sc["fam"]],
                  U: [sc["ureq"]] if sc["u_ran_before"] else []}
    # first build: the plan, S, the producers that are built, U
    r = await d.run_until_dispatched(PLAN)
    if r is None:
        raise BaseStateError("base state: the plan was not dispatched")
    await d.begin(PLAN)
    if await d.requests(PLAN) != "ok":
        raise BaseStateError("base state: the plan's declarations were refused")
    await d.must(("update_hashes", "CONFIRMED", ((sc["static"], 50),)))
    await d.end(PLAN, "ok")
    if not await d.to_quiescence():
        raise BaseStateError("base state: the first build does not end")
    # second build: S and U changed (their scripts), both are executed again
    d.programs[S] = [("define_step", ("step", S), *f) for f in sc["redecl"]]
    d.programs[U] = [sc["ureq"]]
    await d.do(("mark_step_pending", S))
    await d.do(("mark_step_pending", U))
    # S has a stored hash: it is handed out for a check first (the check will find the changed script)
    got = set()
    for _ in range(MAX_JOBS):
        if len(got) == 2:
            break
        r = await d.dispatch()
        if r is None:
            raise BaseStateError(f"base state: {sorted({S, U} - got)} not dispatched")
        lab = r[0]
        if lab == S and r[1] != "ValidateDynamicJob" and r[2]:
            got.add(S)                                   # CHECKING; T starts with the failed check
        elif lab == U and (r[1] == "ValidateDynamicJob" or r[2]):
            await d.do(("reset_to_pending", U))          # its script changed: digest mismatch
        elif lab == U:
            got.add(U)
            await d.begin(U)
        elif lab == S:
            raise BaseStateError("base state: S has no stored hash")
        else:
            await d.run_job(r)
    else:
        raise BaseStateError("base state: S and U are not handed out")
    return d


async def run_position(sc, k, u_late):
    """r arrives before the k-th transaction of T (k = len(T): after S completed)."""
    d = await build_base(sc)
    try:
        S, U = sc["S"], sc["U"]
        nbase = len(d.ops)
        T = [("nocheck",), ("dispatch",), ("begin",)] + [("req", r) for r in d.programs[S]] + [("end",)]
        s_verdict = "ok"
        u_done = False
        detail = {"replies": []}

        async def u_request():
            nonlocal u_done
            r = sc["ureq"]
            if r[0] == "amend_step":
                outcome, text, defer = await d.amend(r)
            else:
                outcome, text = await d.do(r)
                defer = False
            v = "fail" if outcome != "ok" else ("defer" if defer else "ok")
            detail["replies"].append((outcome, text, v))
            return v

        u_verdict = None
        for i, t in enumerate(T + [None]):
            if i == k:
                u_verdict = await u_request()
                if not u_late:
                    await d.end(U, u_verdict)
                    u_done = True
            if t is None:
                break
            if t[0] == "nocheck":
                # Executor.try_skip_job found another digest: _reset_step_to_pending, which already
                # detaches everything S created
                await d.do(("reset_to_pending", S))
            elif t[0] == "dispatch":
                # the real scheduler decides when S gets its job; whatever it hands out before is
                # carried out (U again, when it was refused an input and has completed already)
                if await d.run_until_dispatched(S, limit=MAX_JOBS) is None:
                    detail["s_not_dispatched"] = True
                    break
            elif t[0] == "begin":
                await d.begin(S)
            elif t[0] == "req":
                if s_verdict == "ok":
                    outcome, text = await d.do(t[1])
                    if outcome != "ok":
                        s_verdict = "fail"
                        detail["s_refused"] = (t[1], text)
            else:
                await d.end(S, s_verdict)
        if not u_done and u_verdict is not None:
            await d.end(U, u_verdict)
        mid = await d.dump()
        quiet = await d.to_quiescence()
        final = await d.dump()
        return {"k": k, "u_late": u_late, "ops": d.ops, "nbase": nbase, "final": final, "mid": mid,
                "quiet": quiet, "rc": rc_class(final), "u_verdict": u_verdict, "s_verdict": s_verdict,
                "detail": detail, "njobs": sum(1 for o, _ in d.ops[nbase:] if o[0] == "dispatch")}
    finally:
        d.close()


def summary(run):
    """What must not depend on the arrival position."""
    return (run["rc"], run["quiet"], run["final"])


def diff_dumps(a, b):
    return {t: [sorted(set(map(repr, a[t])) - set(map(repr, b[t]))),
                sorted(set(map(repr, b[t])) - set(map(repr, a[t])))]
            for t in a if a[t] != b[t]}


async def run_scenario_async(seed):
    sc = gen_scenario(seed)
    nT = len(sc["redecl"]) + 4
    runs = []
    for k in range(nT + 1):
        runs.append(await run_position(sc, k, sc["u_end_late"]))
    # the other completion order at the two positions around S's first re-declaration
    for k in (1, 3, 4):
        runs.append(await run_position(sc, k, not sc["u_end_late"]))
    return sc, runs


def run_scenario(seed):
    """pool_map worker."""
    try:
        sc, runs = asyncio.run(run_scenario_async(seed))
    except BaseStateError as e:
        return {"seed": seed, "skip": str(e)}
    ref = runs[0]
    diffs = []
    for i, r in enumerate(runs):
        if summary(r) != summary(ref):
            diffs.append({"run": i, "k": r["k"], "u_late": r["u_late"], "rc": [ref["rc"], r["rc"]],
                          "quiet": [ref["quiet"], r["quiet"]],
                          "only_in_pos0_vs_k": diff_dumps(ref["final"], r["final"]),
                          "replies": [ref["detail"]["replies"], r["detail"]["replies"]]})
    stale = {"deferred-unwoken": False}
    for r in runs:
        det = {key: x for key, _, x in r["final"]["nodes"]}
        for l, s, need, deferred, *_ in r["final"]["steps"]:
            if deferred and not det.get(("step", l), True):
                stale["deferred-unwoken"] = True
    return {"seed": seed, "sc": sc, "diffs": diffs, "nruns": len(runs),
            "rcs": sorted({r["rc"] for r in runs}), "verdicts": sorted({r["u_verdict"] for r in runs}),
            "deferred_left": stale["deferred-unwoken"],
            "model": [(r["ops"], r["final"]) for r in runs], "nbase": runs[0]["nbase"],
            "njobs": max(r["njobs"] for r in runs)}
