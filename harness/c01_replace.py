"""C01: the edit kind "a file is REPLACED by another file of the same size, mode and mtime".

``{"op": "replace_keep", "path": p, "content": text}`` (a source) or ``{..., "actions": [...]}``
(a simulated script): a new file with OTHER bytes of the SAME length is created next to the path,
given the mode and the mtime (ns) of the old one and renamed over it (rsync -t, cp -p + mv, an
editor that saves atomically and restores the time stamp): only the inode number and the digest
differ.  Never an in-place rewrite with the old time stamp (no stat field differs then: the
documented limit of the stat shortcut, C03 no_stat_forgery).  When the new text has another length
or the path does not exist the edit degrades to the ordinary write / script edit.

``e3.apply_edit`` is extended by wrapping (e3.py is shared and not edited): every E3 entry point
looks the function up in the module at call time.

``gen_replace_case``: small chains; phases replace a source, the script of a script step or a plan
script this way (ordinary rewrites in between); restart and watch flavour."""
from __future__ import annotations

import os
import random
import stat as stat_mod

from . import c01_oracle as co
from . import e3

_ORIG_APPLY = e3.apply_edit


def _replace_keep(path: str, text: str) -> bool:
    """Rename a new file with ``text`` over ``path`` keeping size, mode and mtime; False when the
    old file is missing or the size differs (nothing done)."""
    data = text.encode("utf-8")
    try:
        old = os.stat(path)
    except OSError:
        return False
    if not stat_mod.S_ISREG(old.st_mode) or old.st_size != len(data) or open(path, "rb").read() == data:
        return False
    tmp = path + ".new~"
    with open(tmp, "wb") as fh:
        fh.write(data)
    assert os.stat(tmp).st_ino != old.st_ino
    os.chmod(tmp, stat_mod.S_IMODE(old.st_mode))
    os.utime(tmp, ns=(old.st_atime_ns, old.st_mtime_ns))
    os.replace(tmp, path)
    return True


def apply_edit(project, root, edit):
    if edit.get("op") != "replace_keep":
        return _ORIG_APPLY(project, root, edit)
    p = edit["path"]
    if "actions" in edit:
        ordinary = {"op": "script", "path": p, "actions": edit["actions"]}
        text = e3.script_text(edit["actions"])
    else:
        ordinary = {"op": "write", "path": p, "content": edit["content"]}
        text = edit["content"]
    if root is None or not _replace_keep(os.path.join(root, p), text):
        return _ORIG_APPLY(project, root, ordinary)
    if "actions" in edit:
        project.program.setdefault("scripts", {})[p] = edit["actions"]
    else:
        project.sources[p] = edit["content"]
    return None


e3.apply_edit = apply_edit


def same_size_text(text: str, k: int) -> str:
    """Another text of the same length (k-th variant)."""
    tag = f"<{k % 1000:03d}>"
    body = text.rstrip("\n")
    if len(body) >= len(tag):
        new = body[: len(body) - len(tag)] + tag
    else:
        new = "".join(chr(ord("a") + (ord(c) + k) % 26) for c in body)
    new += text[len(body):]
    if new == text:
        new = same_size_text(text, k + 1)
    assert len(new) == len(text)
    return new


def _program(tag_w: str, tag_p: str) -> dict:
    """plan.py: static files, sub-plan p1.py (defines step q<tag_p>), script step ./w.py, a chain."""
    w = [{"op": "print", "text": f"w{tag_w}"}, {"op": "read", "paths": ["w.py", "a.txt"], "required": True},
         {"op": "auto"}]
    p1 = [{"op": "step", "label": f"q{tag_p}", "inp": ["b.txt"], "out": [f"q{tag_p}.txt"]}]
    main = [{"op": "static", "paths": ["a.txt", "b.txt", "w.py", "p1.py"]},
            {"op": "run", "label": "./w.py", "inp": ["a.txt"], "out": ["w.txt"]},
            {"op": "step", "label": "t", "inp": ["b.txt", "w.txt"], "out": ["t.txt"]},
            {"op": "plan", "label": "./p1.py"}]
    return {"scripts": {"plan.py": main, "w.py": w, "p1.py": p1}, "commands": {}}


def gen_replace_case(rng: random.Random):
    sources = {"a.txt": "content of a v00\n", "b.txt": "content of b v00\n"}
    tw, tp = 10, 10
    prog = _program(str(tw), str(tp))
    project = e3.Project(sources=dict(sources), program=prog, env={})
    history, kinds, k = [], [], 0
    for _ in range(rng.randint(1, 3)):
        k += 1
        what = rng.choice(["source", "source", "step-script", "plan-script", "ordinary", "noop"])
        if what == "source":
            p = rng.choice(sorted(sources))
            sources[p] = same_size_text(sources[p], k + rng.randrange(900))
            edits = [{"op": "replace_keep", "path": p, "content": sources[p]}]
        elif what == "step-script":
            tw += 1
            edits = [{"op": "replace_keep", "path": "w.py", "actions": _program(str(tw), str(tp))["scripts"]["w.py"]}]
        elif what == "plan-script":
            tp += 1
            edits = [{"op": "replace_keep", "path": "p1.py", "actions": _program(str(tw), str(tp))["scripts"]["p1.py"]}]
        elif what == "ordinary":
            p = rng.choice(sorted(sources))
            sources[p] = sources[p].rstrip("\n") + " more\n"
            edits = [{"op": "write", "path": p, "content": sources[p]}]
        else:
            edits = []
        kinds.append(what)
        history.append({"edits": edits})
    flavour = "watch" if rng.random() < 0.4 else "restart"
    return co.case_json(project, history, flavour), {"kinds": kinds, "flavour": flavour}


def guard_cases() -> dict:
    out = {}
    for flavour in ("restart", "watch"):
        for what in ("source", "step-script", "plan-script"):
            p = e3.Project(sources={"a.txt": "content of a v00\n", "b.txt": "content of b v00\n"},
                           program=_program("10", "10"), env={})
            if what == "source":
                edit = {"op": "replace_keep", "path": "a.txt", "content": "content of a v01\n"}
            elif what == "step-script":
                edit = {"op": "replace_keep", "path": "w.py", "actions": _program("11", "10")["scripts"]["w.py"]}
            else:
                edit = {"op": "replace_keep", "path": "p1.py", "actions": _program("10", "11")["scripts"]["p1.py"]}
            out[f"replaced-same-stat:{what}:{flavour}"] = co.case_json(p, [{"edits": [edit]}], flavour)
    return out
