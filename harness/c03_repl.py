"""C03, system level: an input is replaced underneath a running command in each of the ways a file
system allows (c03_driver.REPLACE_KINDS), through the REAL serve() (Builder job loop, Scheduler,
Executor, Workflow, hash threads, SQLite file); only `launch_command` is replaced by simulated
steps.  The external actor acts from inside the command coroutine of the consumer, between its two
reads of the input, so the history is deterministic (no sleeps, no threads racing).

Per kind, two builds on the same .stepup/graph.db:
  build 1  plan.py declares data.txt static and defines c (inp data.txt, out result.txt).  c reads
           data.txt, the file is replaced, c reads it again and writes result.txt.
           content/size/mode changed  -> FAIL c, the scheduler drains, c FAILED, return code FAILED;
           nothing changed (same bytes in a new inode, touch) -> SUCCESS c.
  build 2  (only after a quiet build 1) the file is replaced by the same kind while no build runs;
           content changed -> c is executed again and result.txt is built from the new bytes;
           nothing changed -> c is not started.
This is the implementation-level counterpart of props/C03.v C03_refreshed_exact: the property's
"changed underneath a running step" must not depend on which stat fields the replacement preserves.
"""
from __future__ import annotations

import asyncio
import os
import sqlite3
import tempfile

from path import Path

S_SUCCEEDED, S_FAILED = 23, 24


def _stat_of(path):
    try:
        st = os.stat(path)
    except OSError as exc:
        return {"error": type(exc).__name__}
    return {"ino": st.st_ino, "mtime_ns": st.st_mtime_ns, "size": st.st_size, "mode": st.st_mode}


def _exotic(path, how):
    """Replacements after which the path is not a readable regular file."""
    if how == "to_dir":
        os.remove(path)
        os.mkdir(path)
    elif how == "to_dangling":
        os.remove(path)
        os.symlink("nowhere.txt", path)
    else:
        raise ValueError(how)


async def _one_kind(how, between_builds, keep_going=False):
    import stepup.core.director as di
    import stepup.core.executor as ex
    from stepup.core.constants import GRAPH_DB
    from stepup.core.director import ServeConfig, serve
    from stepup.core.enums import Need
    from stepup.core.outcome import ChildOutcome
    from stepup.core.reporter import ReporterClient
    from stepup.core.rpc import BaseAsyncRPCClient
    from stepup.core.sqlite3 import DBSession

    from .c03_driver import replace_file

    events, handler, log = [], {}, {"reads": [], "stats": []}
    build = [1]

    class Rec(BaseAsyncRPCClient):
        async def __call__(self, name, /, *args, **kwargs):
            if name == "report" and args and args[0] in ("START", "SUCCESS", "FAIL", "DEFERRED", "SKIP", "ERROR"):
                events.append([args[0], str(args[1])])
            return None

    orig_wire = di._wire_director

    async def wire(**kw):
        h = await orig_wire(**kw)
        handler["h"] = h
        return h

    D = Need.DEFAULT.value

    def replace(variant):
        before = _stat_of("data.txt")
        if how in ("inplace", "rename"):
            target = "data.txt" if how == "inplace" else "data.txt.new~"
            Path(target).write_text(f"payload version {variant} " + "x" * variant)
            if how == "rename":
                os.replace(target, "data.txt")
        elif how.startswith("to_"):
            _exotic("data.txt", how)
        else:
            replace_file("data.txt", variant, how)
        log["stats"].append({"before": before, "after": _stat_of("data.txt")})

    async def fake_launch(command, *, shell, env, cwd, mp_ctx, run):
        h = handler["h"]
        j = run.job_i
        if command == "./plan.py":
            await h.declare_static(j, [], ["data.txt"], [])
            await h.define_step(j, "c", ["data.txt"], [], ["result.txt"], [], ".", D, {})
            if keep_going:
                # an independent step that is ready all the time: with one worker it is dispatched after c
                await h.define_step(j, "z", [], [], ["z.txt"], [], ".", D, {})
        elif command == "z":
            Path("z.txt").write_text("z")
        elif command == "c":
            first = Path("data.txt").read_bytes()
            if build[0] == 1 and not between_builds:
                replace(7)
            try:
                second = Path("data.txt").read_bytes()
            except OSError as exc:           # replaced by a directory / a dangling link
                second = f"<{type(exc).__name__}>".encode()
            log["reads"].append([build[0], first.decode(), second.decode()])
            Path("result.txt").write_bytes(first + b"|" + second)
        return ChildOutcome(0, "", "")

    old_cwd = os.getcwd()
    old_launch = ex.launch_command
    out = {"how": how, "between_builds": between_builds}
    with tempfile.TemporaryDirectory(prefix="verif-c03repl-") as d:
        try:
            os.chdir(d)
            ex.launch_command = fake_launch
            di._wire_director = wire
            Path("plan.py").write_text("#!/usr/bin/env python3\n")
            os.chmod("plan.py", 0o755)
            Path("data.txt").write_text("payload version A\n")
            # a time stamp well in the past: an in-place rewrite gets a different one whatever the
            # granularity of the file system clock
            os.utime("data.txt", ns=(1_600_000_000 * 10**9, 1_600_000_000 * 10**9))
            Path(".stepup").makedirs_p()
            for b in ((1, 2) if between_builds else (1,)):
                build[0] = b
                if b == 2:
                    replace(8)
                events.append(["BUILD", str(b)])
                try:
                    with DBSession.open(GRAPH_DB) as db:
                        res = await asyncio.wait_for(
                            serve(ServeConfig(njob=1 if keep_going else 2, use_duration=False, keep_going=keep_going),
                                  director_socket_path=Path(".stepup/sock"),
                                  reporter=ReporterClient(Rec()), db=db, handle_signals=False), 60)
                    out[f"rc{b}"] = res.returncode.value
                except BaseException as e:  # noqa: BLE001
                    out[f"rc{b}"] = f"EXC {type(e).__name__}: {e}"
                con = sqlite3.connect(".stepup/graph.db")
                states = dict(con.execute("SELECT label, state FROM node JOIN step ON node.i = step.node").fetchall())
                con.close()
                out[f"c_state{b}"] = states.get("c")
                out[f"data{b}"] = Path("data.txt").read_text() if Path("data.txt").is_file() else None
                out[f"result{b}"] = Path("result.txt").read_text() if Path("result.txt").exists() else None
        finally:
            ex.launch_command = old_launch
            di._wire_director = orig_wire
            os.chdir(old_cwd)
    out["events"] = events
    out["reads"] = log["reads"]
    out["stats"] = log["stats"]
    return out


def replace_system(ctx):
    """Returns a list of (signature, detail, witness)."""
    from stepup.core.enums import ReturnCode

    from .c03_driver import REPLACE_KINDS
    fails = []
    summary = {}
    for how, changes in REPLACE_KINDS.items():
        for between in (False, True):
            phase = "between-builds" if between else "during-command"
            try:
                res = asyncio.run(asyncio.wait_for(_one_kind(how, between), 150))
            except asyncio.TimeoutError:
                ctx.notes.append(f"c03_repl: {how}/{phase} timed out")
                continue
            ctx.case(("replace-system", how, phase), nontrivial=True)
            ev = res["events"]
            wit = {"system": res}
            if not between:
                noticed = (["FAIL", "c"] in ev and ["SUCCESS", "c"] not in ev and res.get("c_state1") == S_FAILED
                           and isinstance(res.get("rc1"), int) and bool(res["rc1"] & ReturnCode.FAILED.value)
                           and any(e[0] == "ERROR" and "draining" in e[1] for e in ev))
                quiet = ["SUCCESS", "c"] in ev and res.get("c_state1") == S_SUCCEEDED and res.get("rc1") == 0
                summary[f"{how}:{phase}"] = "noticed" if noticed else "quiet" if quiet else "other"
                if changes and not noticed:
                    two = res["reads"][0][1] != res["reads"][0][2] if res["reads"] else None
                    fails.append((f"oracle:replace-system:{how}:during-command:not-noticed",
                                  f"real serve(): data.txt was replaced ({how}) while the command of c ran (the command read "
                                  f"two different contents: {two}; stat before/after {res['stats']}), but c is "
                                  f"{'SUCCEEDED' if res.get('c_state1') == S_SUCCEEDED else res.get('c_state1')}, build return "
                                  f"code {res.get('rc1')}, events {ev}", wit))
                elif not changes and not quiet:
                    # not forbidden by the property (a step may fail needlessly); reported as a note
                    ctx.notes.append(f"c03_repl: data.txt replaced by the same bytes ({how}) during the command of c, "
                                     f"c did not succeed: state {res.get('c_state1')}, events {ev}")
            else:
                ev2 = ev[ev.index(["BUILD", "2"]):] if ["BUILD", "2"] in ev else []
                rerun = ["START", "c"] in ev2 and res.get("c_state2") == S_SUCCEEDED and res.get("rc2") == 0 \
                    and res.get("result2") == f"{res.get('data2')}|{res.get('data2')}"
                quiet = ["START", "c"] not in ev2 and res.get("c_state2") == S_SUCCEEDED and res.get("rc2") == 0
                summary[f"{how}:{phase}"] = "rerun" if rerun else "quiet" if quiet else "other"
                if res.get("c_state1") != S_SUCCEEDED:
                    fails.append((f"oracle:replace-system:{how}:between-builds:witness-shape",
                                  f"build 1 did not succeed: {res}", wit))
                elif changes and not rerun:
                    fails.append((f"oracle:replace-system:{how}:between-builds:not-rebuilt",
                                  f"real serve(): data.txt was replaced ({how}) between two builds (stat before/after "
                                  f"{res['stats']}); build 2 left c {res.get('c_state2')} with result.txt = "
                                  f"{res.get('result2')!r} while data.txt = {res.get('data2')!r}; events {ev2}", wit))
                elif not changes and not quiet:
                    ctx.notes.append(f"c03_repl: data.txt replaced by the same bytes ({how}) between two builds, c was "
                                     f"executed again (allowed by the property): events {ev2}")
    ctx.stats["replace_system"] = summary
    return fails


SIG_UNREADABLE = "oracle:replace-system:to_dir:during-command:dispatch-not-stopped"


def unreadable_input_system(ctx):
    """Finding C03-unreadable-input: with --keep-going and one worker, data.txt is replaced by a
    directory while the command of c runs; an independent step z is ready all the time.  The property
    wants c FAILED and no further dispatch.  Control: a dangling symbolic link (stat fails: "vanished")
    drains.  Returns a list of (signature, detail, witness)."""
    fails = []
    out = {}
    for how in ("to_dangling", "to_dir"):
        try:
            res = asyncio.run(asyncio.wait_for(_one_kind(how, False, keep_going=True), 150))
        except asyncio.TimeoutError:
            ctx.notes.append(f"c03_repl: keep-going/{how} timed out")
            continue
        ctx.case(("replace-system-keep-going", how), nontrivial=True)
        ev = res["events"]
        failed = ["FAIL", "c"] in ev and res.get("c_state1") == S_FAILED
        later = ev[ev.index(["FAIL", "c"]) + 1:] if ["FAIL", "c"] in ev else ev
        started_after = [e for e in later if e[0] == "START"]
        out[how] = {"failed": failed, "started_after_fail": started_after}
        if not failed:
            fails.append((f"oracle:replace-system:{how}:during-command:not-noticed",
                          f"real serve() --keep-going: data.txt was replaced ({how}) during the command of c but c did not "
                          f"FAIL: state {res.get('c_state1')}, events {ev}", {"system": res}))
        elif started_after:
            fails.append((f"oracle:replace-system:{how}:during-command:dispatch-not-stopped",
                          f"real serve() --keep-going, one worker: data.txt was replaced ({how}) while the command of c ran; "
                          f"c FAILED, but dispatch was not stopped: {started_after} after the FAIL "
                          f"(events {ev}, build return code {res.get('rc1')})", {"system": res}))
    ctx.stats["replace_system_keep_going"] = out
    return fails


from .p_c03_sigs import SIG_AMENDED_RECORD  # noqa: E402


async def _amended_record_scenario():
    """Two real serve() runs on one .stepup/graph.db.

    plan.py declares the static files c_src.txt, f.txt, g_src.txt and the steps g (inp g_src.txt, out
    g.txt), d (inp f.txt, g.txt) and c (inp c_src.txt, out o.txt).  c amends f.txt (accepted: the
    file is CONFIRMED) and reads it.  While c still runs the user edits f.txt (inside the command of g,
    ordered by an event); d is dispatched, its pre-run check finds f.txt modified, records the NEW
    hash, d FAILS and the scheduler drains.  c finishes: the post-run check compares f.txt with the
    hash recorded now.  Build 2: nothing was touched in between.
    """
    import stepup.core.director as di
    import stepup.core.executor as ex
    from stepup.core.constants import GRAPH_DB
    from stepup.core.director import ServeConfig, serve
    from stepup.core.enums import Need
    from stepup.core.outcome import ChildOutcome
    from stepup.core.reporter import ReporterClient
    from stepup.core.rpc import BaseAsyncRPCClient
    from stepup.core.sqlite3 import DBSession

    events, handler, gates, log = [], {}, {}, {}

    class Rec(BaseAsyncRPCClient):
        async def __call__(self, name, /, *args, **kwargs):
            if name == "report" and args and args[0] in ("START", "SUCCESS", "FAIL", "DEFERRED", "SKIP", "ERROR"):
                events.append([args[0], str(args[1])])
            return None

    orig_wire = di._wire_director

    async def wire(**kw):
        h = await orig_wire(**kw)
        handler["h"] = h
        return h

    D = Need.DEFAULT.value

    async def state_of(label):
        h = handler["h"]
        async with h.db:
            row = h.db.execute("SELECT state FROM step JOIN node ON node.i = step.node WHERE node.label = ?",
                               (label,)).fetchone()
        return row and row[0]

    async def fake_launch(command, *, shell, env, cwd, mp_ctx, run):
        h = handler["h"]
        j = run.job_i
        if command == "./plan.py":
            await h.declare_static(j, [], ["c_src.txt", "f.txt", "g_src.txt"], [])
            await h.define_step(j, "g", ["g_src.txt"], [], ["g.txt"], [], ".", D, {})
            await h.define_step(j, "d", ["f.txt", "g.txt"], [], ["d.txt"], [], ".", D, {})
            await h.define_step(j, "c", ["c_src.txt"], [], ["o.txt"], [], ".", D, {})
        elif command == "g":
            await gates["c_read"].wait()
            Path("f.txt").write_text("f version 2 (edited by the user during the build)")
            Path("g.txt").write_text("g")
        elif command == "d":
            Path("d.txt").write_text("d:" + Path("f.txt").read_text())
        elif command == "c":
            carry = await h.amend_step(j, ["f.txt"], set(), [], [])
            log["carry_on"] = bool(carry)
            first = "c_read" not in log
            read = Path("f.txt").read_text()
            log.setdefault("c_read", read)
            log["c_runs"] = log.get("c_runs", 0) + 1
            gates["c_read"].set()
            while first and await state_of("d") != S_FAILED:   # event driven: d's pre-run check has been recorded
                await asyncio.sleep(0)
            Path("o.txt").write_text("o:" + read)
        return ChildOutcome(0, "", "")

    old_cwd = os.getcwd()
    old_launch = ex.launch_command
    out = {}
    with tempfile.TemporaryDirectory(prefix="verif-c03amrec-") as d:
        try:
            os.chdir(d)
            ex.launch_command = fake_launch
            di._wire_director = wire
            gates["c_read"] = asyncio.Event()
            Path("plan.py").write_text("#!/usr/bin/env python3\n")
            os.chmod("plan.py", 0o755)
            Path("f.txt").write_text("f version 1")
            os.utime("f.txt", ns=(1_600_000_000 * 10**9, 1_600_000_000 * 10**9))
            Path("c_src.txt").write_text("c")
            Path("g_src.txt").write_text("g")
            Path(".stepup").makedirs_p()
            for b in (1, 2):
                events.append(["BUILD", str(b)])
                try:
                    with DBSession.open(GRAPH_DB) as db:
                        res = await asyncio.wait_for(
                            serve(ServeConfig(njob=4, use_duration=False), director_socket_path=Path(".stepup/sock"),
                                  reporter=ReporterClient(Rec()), db=db, handle_signals=False), 60)
                    out[f"rc{b}"] = res.returncode.value
                except BaseException as e:  # noqa: BLE001
                    out[f"rc{b}"] = f"EXC {type(e).__name__}: {e}"
                con = sqlite3.connect(".stepup/graph.db")
                out[f"states{b}"] = dict(con.execute("SELECT label, state FROM node JOIN step ON node.i = step.node").fetchall())
                con.close()
                out[f"f{b}"] = Path("f.txt").read_text()
                out[f"o{b}"] = Path("o.txt").read_text() if Path("o.txt").exists() else None
        finally:
            ex.launch_command = old_launch
            di._wire_director = orig_wire
            os.chdir(old_cwd)
    out["events"] = events
    out.update(log)
    return out


def amended_record_system(ctx):
    """Finding C03-amended-record through the real serve().  Returns (signature, detail, witness) list."""
    try:
        res = asyncio.run(asyncio.wait_for(_amended_record_scenario(), 150))
    except asyncio.TimeoutError:
        ctx.notes.append("c03_repl: amended-record scenario timed out (the interleaving did not occur)")
        return []
    ctx.case(("amended-record-system",), nontrivial=True)
    ctx.sample({"amended-record-system": res})
    ev = res["events"]
    b2 = ev[ev.index(["BUILD", "2"]):] if ["BUILD", "2"] in ev else []
    shape = res.get("carry_on") is True and ["FAIL", "d"] in ev and res.get("c_read") != res.get("f1") \
        and isinstance(res.get("rc2"), int)
    stale1 = res.get("states1", {}).get("c") == S_SUCCEEDED and res.get("o1") == "o:" + str(res.get("c_read"))
    stale2 = res.get("states2", {}).get("c") == S_SUCCEEDED and res.get("o2") == res.get("o1") and ["START", "c"] not in b2
    ctx.stats["amended_record_system"] = {"shape": bool(shape), "succeeded_on_old_content": bool(stale1),
                                          "never_rebuilt": bool(stale2), "rc": [res.get("rc1"), res.get("rc2")],
                                          "c_runs": res.get("c_runs"), "o_final": res.get("o2")}
    if not shape:
        return [("oracle:amended-record:witness-shape", f"the scenario did not play out as intended: {res}", {"system": res})]
    if stale1:
        return [(SIG_AMENDED_RECORD,
                 f"real serve(): c amended the static file f.txt (accepted) and read {res.get('c_read')!r}; while c was running "
                 f"the file was edited and the pre-run check of step d recorded the new hash (d FAILED, scheduler drained); c "
                 f"then ended SUCCEEDED with o.txt = {res.get('o1')!r} although f.txt = {res.get('f1')!r}; the next build "
                 f"{'does not run c again (o.txt stays stale)' if stale2 else 'runs c again'}: events {ev}", {"system": res})]
    return []
