"""C09 (D17), used by harness/p_c09.py and probes/c09_stale_hash_result.py: the result of a CONFIRMED hash job arrives after its file node was detached
and taken over by another declaration.  The job runs through the real Executor.run_hash_job with
a real HashJob; only the hashing itself (FileHash.refreshed, executed in the worker thread) is
held back by a gate, as a slow hash of a large file would be.

Run: PYTHONPATH=/repo:/repo/tests:/verif PYTHONHASHSEED=0 /venv/bin/python /verif/probes/c09_stale_hash_result.py
"""
import asyncio
import threading

from stepup.core.enums import HashUpdateCause
from stepup.core.executor import Executor
from stepup.core.hash import FileHash
from stepup.core.hash_queue import HashJob

from . import e2


class Reporter:
    async def __call__(self, tag, label, pages=None):
        print("REPORT", tag, label)

    def job_started(self, *a):
        pass

    def job_stopped(self, *a):
        pass


async def stale_hash_scenario(verbose=True):
    """Returns (outcome, detail) of the hash job: ('ok', '') or ('internal', 'ConsistencyError: ...')."""
    impl = e2.Impl(3)
    await impl.start()
    gate = threading.Event()
    started = threading.Event()
    orig = FileHash.refreshed

    def slow_refreshed(self, path, cancel_event=None):
        started.set()
        gate.wait(30)
        return e2.fh(7)

    FileHash.refreshed = slow_refreshed
    try:
        async def ap(op):
            r = await impl.apply(op)
            if verbose:
                print(op[0], op[1:4], "->", r)
            return r
        await ap(("declare_static", ("root", ""), ("plan.py",)))
        await ap(("update_hashes", "CONFIRMED", (("plan.py", 1),)))
        await ap(("define_step", ("root", ""), "./plan.py", ("plan.py",), (), (), (), "PLAN"))
        async with impl.db:
            impl.db.execute("UPDATE step SET _safe = 1, _safe_ignoring_hold = 1, _check_safe = 0")
        await impl.dispatch()
        await ap(("reset_for_rerun", "./plan.py"))
        # the plan declares f5 static: the director submits a hash job with cause CONFIRMED
        await ap(("declare_static", ("step", "./plan.py"), ("f5",)))
        executor = Executor(scheduler=impl.sched, workflow=impl.wf, db=impl.db, reporter=Reporter(),
                            explain_rerun=False, keep_going=False, live_progress=False,
                            write_joblog=False, infra_env={})
        job = HashJob("f5", FileHash.unknown(), HashUpdateCause.CONFIRMED, -1)
        task = asyncio.create_task(executor.run_hash_job(job))
        while not started.is_set():
            await asyncio.sleep(0.01)
        # ... meanwhile the build goes on
        await ap(("define_step", ("step", "./plan.py"), "A", (), (), (), (), "DEFAULT"))
        await impl.dispatch()
        await ap(("reset_for_rerun", "A"))
        await ap(("exec_end", "./plan.py", (), "SUCCEEDED", (), True, False))
        await ap(("mark_step_pending", "./plan.py"))
        await impl.dispatch()
        await ap(("reset_to_pending", "./plan.py"))
        await impl.dispatch()
        await ap(("reset_for_rerun", "./plan.py"))      # detaches f5 and A (A is still running)
        await ap(("amend_step", "A", (), (), (), ("f5",)))  # A takes the stale node over: VOLATILE
        gate.set()                                       # the slow hash completes now
        try:
            await asyncio.wait_for(task, 20)
            return "ok", ""
        except BaseException as e:  # noqa: BLE001
            return e2.classify(e), f"{type(e).__name__}: {e}"
    finally:
        gate.set()
        FileHash.refreshed = orig
        impl.close()


