"""C05 crash oracle on the real system (engine: harness/e3.py).

A *case* is a project, a history prefix (built without interruption) and one last phase whose
build is the one that gets killed.  For a case:

1. reference: the whole history built without interruption in a scratch directory; the last
   build yields the number of committing transactions N and of file-system stages M;
2. for a crash point (``commit k before|after``, ``stage k``): the same history in another scratch
   directory, the last build in a forked child that ``os._exit``s at that point; the database
   left behind is inspected (copy); a restart build runs on the same directory;
3. comparison of the restart with the reference.

Nothing here prints a verdict; ``check_point`` returns a list of failure records
``{"kind", "signature", "detail"}``.
"""
from __future__ import annotations

import asyncio
import contextlib
import io
import os
import random
import shutil
import socket
import sqlite3
import stat
import tempfile

from harness import c05_windows as cw
from harness import e3

RUNNING, SUCCEEDED, CHECKING = 22, 23, 25
UNCONFIRMED, BUILT = 12, 16

SIG_D6 = "C05:D6:orphan-after-crash-between-delete_detached-commit-and-file-removal"
SIG_D6B = "C05:D6b:orphan-after-crash-between-revert_optional_steps-commit-and-file-removal"
SIG_D13 = "C05:D13:open-fails-after-crash-before-root-commit"


# ---------------------------------------------------------------------------------------------
# Project families
# ---------------------------------------------------------------------------------------------


def _auto(parts):
    return [{"op": "auto", "parts": parts}]


def _proj(sources, plan, scripts=None, commands=None, env=None):
    sc = {"plan.py": plan}
    sc.update(scripts or {})
    return e3.Project(sources=dict(sources), program={"scripts": sc, "commands": dict(commands or {})},
                      env=dict(env or {}))


def fam_chain(rng):
    n = rng.randint(2, 4)
    plan = [{"op": "static", "paths": ["src.txt"]}]
    prev, cmds = "src.txt", {}
    for i in range(n):
        out = f"out/c{i}.txt" if rng.random() < 0.5 else f"c{i}.txt"
        plan.append({"op": "step", "label": f"chain{i}", "inp": [prev], "out": [out]})
        cmds[f"chain{i}"] = _auto(rng.randint(1, 3))
        prev = out
    p = _proj({"src.txt": "v1\n"}, plan, commands=cmds)
    edits = [{"op": "write", "path": "src.txt", "content": "v2 longer\n"}]
    return p, [{"edits": edits}]


def fam_diamond(rng):
    plan = [{"op": "static", "paths": ["a.txt", "b.txt"]},
            {"op": "step", "label": "left", "inp": ["a.txt"], "out": ["l.txt"]},
            {"op": "step", "label": "right", "inp": ["a.txt", "b.txt"], "out": ["r.txt", "r2.txt"]},
            {"op": "step", "label": "join", "inp": ["l.txt", "r.txt"], "out": ["j.txt"], "vol": ["j.log"]}]
    cmds = {k: _auto(rng.randint(1, 3)) for k in ("left", "right", "join")}
    p = _proj({"a.txt": "a1\n", "b.txt": "b1\n"}, plan, commands=cmds)
    edits = [{"op": "write", "path": rng.choice(["a.txt", "b.txt"]), "content": "changed!\n"}]
    return p, [{"edits": edits}]


def fam_subplan(rng):
    sub = [{"op": "static", "paths": ["sub/in.txt"]},
           {"op": "step", "label": "subwork", "inp": ["sub/in.txt"], "out": ["sub/out.txt"]},
           {"op": "step", "label": "subwork2", "inp": ["sub/out.txt"], "out": ["sub/out2.txt"]}]
    plan = [{"op": "static", "paths": ["p1.py"]},
            {"op": "plan", "label": "./p1.py"},
            {"op": "step", "label": "top", "inp": ["sub/out2.txt"], "out": ["top.txt"]}]
    cmds = {"subwork": _auto(2), "subwork2": _auto(rng.randint(1, 2)), "top": _auto(2)}
    p = _proj({"sub/in.txt": "x\n"}, plan, scripts={"p1.py": sub}, commands=cmds)
    # second phase: the sub-plan drops one step and the top step goes with it
    sub2 = sub[:2]
    plan2 = plan[:2]
    edits = [{"op": "script", "path": "p1.py", "actions": sub2},
             {"op": "script", "path": "plan.py", "actions": plan2}]
    return p, [{"edits": edits}]


def fam_amend(rng):
    work = [{"op": "amend", "inp": ["gen.txt"]},
            {"op": "read", "paths": ["gen.txt", "w.cfg"]},
            {"op": "amend", "out": ["w.extra"]},
            {"op": "write", "path": "w.out", "parts": rng.randint(1, 3)},
            {"op": "write", "path": "w.extra", "parts": 2}]
    plan = [{"op": "static", "paths": ["w.py", "w.cfg", "g.in"]},
            {"op": "run", "label": "./w.py", "inp": ["w.cfg"], "out": ["w.out"]},
            {"op": "step", "label": "gen", "inp": ["g.in"], "out": ["gen.txt"]},
            {"op": "step", "label": "last", "inp": ["w.out", "w.extra"], "out": ["last.txt"]}]
    p = _proj({"w.cfg": "cfg\n", "g.in": "g\n"}, plan, scripts={"w.py": work}, commands={"gen": _auto(2)})
    edits = [{"op": "write", "path": "g.in", "content": "g changed\n"}]
    return p, [{"edits": edits}]


def fam_optional(rng):
    plan = [{"op": "static", "paths": ["o.in"]},
            {"op": "step", "label": "opt1", "inp": ["o.in"], "out": ["opt/o1.txt"], "vol": ["opt/o1.log"],
             "need": "OPTIONAL"},
            {"op": "step", "label": "opt2", "inp": ["opt/o1.txt"], "out": ["opt/o2.txt"], "need": "OPTIONAL"},
            {"op": "step", "label": "user", "inp": ["opt/o2.txt"], "out": ["user.txt"]},
            {"op": "step", "label": "other", "inp": ["o.in"], "out": ["other.txt"]}]
    cmds = {"opt1": _auto(2), "opt2": _auto(rng.randint(1, 2)), "user": _auto(2)}
    p = _proj({"o.in": "o\n"}, plan, commands=cmds)
    # second phase: the mandatory consumer disappears, the optional chain is reverted
    plan2 = [a for a in plan if a.get("label") != "user"]
    return p, [{"edits": [{"op": "script", "path": "plan.py", "actions": plan2}]}]


def fam_drop(rng):
    n = rng.randint(2, 4)
    plan = [{"op": "static", "paths": ["d.in"]}]
    cmds = {}
    for i in range(n):
        d = rng.choice(["", "gone/", "gone/deep/"])
        plan.append({"op": "step", "label": f"mk{i}", "inp": ["d.in"], "out": [f"{d}m{i}.txt"],
                     "vol": ([f"{d}m{i}.tmp"] if rng.random() < 0.4 else [])})
        cmds[f"mk{i}"] = _auto(rng.randint(1, 2))
    p = _proj({"d.in": "d\n"}, plan, commands=cmds)
    keep = rng.randint(0, n - 1)
    plan2 = [plan[0]] + [a for i, a in enumerate(plan[1:]) if i < keep]
    return p, [{"edits": [{"op": "script", "path": "plan.py", "actions": plan2}]}]


def fam_newstatic(rng):
    plan = [{"op": "static", "paths": ["n1.txt"]},
            {"op": "step", "label": "cat1", "inp": ["n1.txt"], "out": ["cat1.txt"]}]
    plan2 = [{"op": "static", "paths": ["n1.txt", "n2.txt", "n3.txt"]},
             {"op": "step", "label": "cat1", "inp": ["n1.txt"], "out": ["cat1.txt"]},
             {"op": "step", "label": "cat2", "inp": ["n2.txt", "n3.txt", "cat1.txt"], "out": ["cat2.txt"],
              "env": ["C05VAR"]}]
    p = _proj({"n1.txt": "1\n"}, plan, commands={"cat1": _auto(2), "cat2": _auto(2)}, env={"C05VAR": "a"})
    edits = [{"op": "write", "path": "n2.txt", "content": "2\n"},
             {"op": "write", "path": "n3.txt", "content": "3\n"},
             {"op": "script", "path": "plan.py", "actions": plan2}]
    if rng.random() < 0.5:
        edits.append({"op": "setenv", "name": "C05VAR", "value": "b"})
    return p, [{"edits": edits}]


def fam_failing(rng):
    """A step that fails in the interrupted build (its BUILT outputs get degraded)."""
    plan = [{"op": "static", "paths": ["f.in", "flag"]},
            {"op": "step", "label": "mayfail", "inp": ["f.in", "flag"], "out": ["f.out"]},
            {"op": "step", "label": "after", "inp": ["f.out"], "out": ["after.txt"]}]
    cmds = {"mayfail": [{"op": "read", "paths": ["f.in", "flag"]},
                        {"op": "write", "path": "f.out", "parts": 2},
                        {"op": "if_exists", "path": "fail.marker", "then": [{"op": "exit", "rc": 3}]}]}
    p = _proj({"f.in": "f\n", "flag": "0\n"}, plan, commands=cmds)
    edits = [{"op": "write", "path": "flag", "content": "1\n"}]
    return p, [{"edits": edits}]


def case_detachrun(seed: int) -> dict:
    """A step that is RUNNING **and detached** when the director dies: the sub-plan p1.py defines
    `slow`, then amends the output of `gen` (a step of plan.py) which is not built yet: p1.py is
    deferred; with two job slots `slow` and `gen` start; `gen` ends first (schedule), p1.py is
    dispatched again and its reset_for_rerun detaches the products of its first pass, `slow` among
    them, while the command of `slow` still runs.  Until p1.py defines `slow` again every kill
    leaves a detached RUNNING row (what `Workflow.steps(state)` does not return)."""
    rng = random.Random(f"c05-detachrun-{seed}")
    sub = [{"op": "step", "label": "slow", "out": ["slow.out"]},
           {"op": "amend", "inp": ["gen.txt"]},
           {"op": "read", "paths": ["gen.txt"]},
           {"op": "step", "label": "late", "inp": ["gen.txt"], "out": ["late.out"]}]
    plan = [{"op": "static", "paths": ["p1.py", "g.in"]},
            {"op": "step", "label": "gen", "inp": ["g.in"], "out": ["gen.txt"]},
            {"op": "plan", "label": "./p1.py"}]
    p = _proj({"g.in": "g\n"}, plan, scripts={"p1.py": sub},
              commands={"slow": _auto(rng.randint(1, 2)), "gen": _auto(1)})
    order = ["end:./plan.py", "end:./p1.py", "end:gen", "end:./p1.py", "end:slow"]
    return {"name": "detachrun", "seed": seed, "project": p.to_json(), "history": [],
            "build": {"njob": 2, "schedule": {"order": order, "points": ["end"]}}}


def detached_window_points(ref: e3.BuildResult) -> list:
    """Directed points for ``case_detachrun``: after the commit that ends the launch of every command
    and before every define_step commit (between the second launch of p1.py and its define_step of
    `slow` the step is RUNNING and detached)."""
    pts = []
    for k, (site, _wrote) in enumerate(ref.commit_points, start=1):
        if site == "Executor._run_command":
            pts.append({"kind": "commit", "k": k, "when": "after"})
        elif site == "DirectorHandler.define_step":
            pts.append({"kind": "commit", "k": k, "when": "before"})
    return pts


FAMILIES = [("chain", fam_chain), ("diamond", fam_diamond), ("subplan", fam_subplan),
            ("amend", fam_amend), ("optional", fam_optional), ("drop", fam_drop),
            ("newstatic", fam_newstatic), ("failing", fam_failing)]


# ---------------------------------------------------------------------------------------------
# Startup families: something changed SINCE THE LAST COMPLETE BUILD that only the startup
# sequence of the next build can notice (startup.resume_from_db: reset_interrupted_steps,
# rescan_env_vars, rescan_files + its hash jobs, rescan_nglobs; Workflow.initialize_boot).
# The plan is unchanged, every kind of change comes ALONE in its case (two changes mask each
# other: a step that reruns for a changed source hides a lost environment change), the commands
# fold what they read (file contents, variable values) into what they write, and the interrupted
# build is killed at every commit of its startup sequence.
# ---------------------------------------------------------------------------------------------

STARTUP_KINDS = ["env", "env-unset", "env-set", "env-two", "env-amended", "source", "source-delete",
                 "glob-add", "glob-del", "out-del", "out-tamper", "plan-touch", "interrupted", "combo"]


def _startup_project(rng):
    work = [{"op": "amend", "env": ["C05C"]},
            {"op": "getenv", "name": "C05C"},
            {"op": "read", "paths": ["cfg.txt"]},
            {"op": "write", "path": "w.out", "parts": rng.randint(1, 2)}]
    plan = [{"op": "static", "paths": ["in.txt", "cfg.txt", "w.py", "g/"]},
            {"op": "glob", "pattern": "g/*.dat", "static": True,
             "foreach": [{"op": "step", "label": "cp {stem}", "inp": ["{m}"], "out": ["o_{stem}.txt"]}]},
            {"op": "step", "label": "e1", "inp": ["in.txt"], "env": ["C05A"], "out": ["e1.txt"]},
            {"op": "step", "label": "e2", "inp": ["e1.txt"], "env": ["C05A", "C05B"], "out": ["sub/e2.txt"],
             "vol": (["sub/e2.log"] if rng.random() < 0.5 else [])},
            {"op": "step", "label": "e3", "inp": ["cfg.txt"], "env": ["C05D"], "out": ["e3.txt"]},
            {"op": "step", "label": "e4", "inp": ["e3.txt", "o_a.txt"], "out": ["e4.txt"]},
            {"op": "run", "label": "./w.py", "inp": ["cfg.txt"], "out": ["w.out"]}]
    cmds = {"e1": [{"op": "getenv", "name": "C05A"}, {"op": "auto", "parts": rng.randint(1, 2)}],
            "e2": [{"op": "getenv", "name": "C05A"}, {"op": "getenv", "name": "C05B"}, {"op": "auto"}],
            "e3": [{"op": "getenv", "name": "C05D"}, {"op": "auto", "parts": 2}]}
    sources = {"in.txt": "i\n", "cfg.txt": "cfg\n", "g/a.dat": "a\n", "g/b.dat": "b\n"}
    env = {"C05A": "a1", "C05B": "b1", "C05C": "c1", "C05D": None}
    return _proj(sources, plan, scripts={"w.py": work}, commands=cmds, env=env)


def _startup_edits(kind, rng):
    if kind == "env":
        return [{"op": "setenv", "name": rng.choice(["C05A", "C05B"]), "value": "changed"}]
    if kind == "env-unset":
        return [{"op": "setenv", "name": rng.choice(["C05A", "C05B"]), "value": None}]
    if kind == "env-set":                                  # tracked, was unset at the last build
        return [{"op": "setenv", "name": "C05D", "value": "d1"}]
    if kind == "env-two":
        return [{"op": "setenv", "name": "C05B", "value": "b2"}, {"op": "setenv", "name": "C05D", "value": "d2"}]
    if kind == "env-amended":                              # tracked through amend(env=...)
        return [{"op": "setenv", "name": "C05C", "value": rng.choice(["c2", None])}]
    if kind == "source":
        return [{"op": "write", "path": rng.choice(["in.txt", "cfg.txt", "g/b.dat"]), "content": "changed content\n"}]
    if kind == "source-delete":
        return [{"op": "delete", "path": rng.choice(["cfg.txt", "g/b.dat"])}]
    if kind == "glob-add":
        return [{"op": "write", "path": "g/c.dat", "content": "c\n"}]
    if kind == "glob-del":
        return [{"op": "delete", "path": "g/b.dat"}]
    if kind == "out-del":
        return [{"op": "delete", "path": rng.choice(["e1.txt", "e3.txt", "o_a.txt", "w.out"])}]
    if kind == "out-tamper":
        return [{"op": "write", "path": rng.choice(["e1.txt", "e3.txt", "o_b.txt"]), "content": "tampered with\n"}]
    raise ValueError(kind)


def fam_startup(rng, kind):
    p = _startup_project(rng)
    if kind == "interrupted":
        # the build before the interrupted one was itself killed while a command ran: the startup of
        # the interrupted build finds RUNNING rows (two transactions of reset_interrupted_steps)
        return p, [{"edits": [{"op": "write", "path": "in.txt", "content": "second version\n"}],
                    "crash": {"kind": "stage", "k": rng.randint(1, 2)}},
                   {"edits": []}]
    if kind == "combo":
        kinds = rng.sample(["env", "env-amended", "source", "glob-add", "glob-del", "out-del", "out-tamper"],
                           rng.randint(2, 3))
        edits = [e for k in kinds for e in _startup_edits(k, rng)]
        return p, [{"edits": edits}]
    if kind == "plan-touch":                               # same plan, other bytes: the boot step reruns
        plan = list(p.program["scripts"]["plan.py"])
        return p, [{"edits": [{"op": "script", "path": "plan.py", "actions": plan + [{"op": "print", "text": "x"}]}]}]
    return p, [{"edits": _startup_edits(kind, rng)}]


def make_case(name: str, seed: int) -> dict:
    """A JSON-able case.  ``name`` is a family name or ``gen`` (harness/e3_gen.gen_case).
    Three seeds out of four interrupt the LAST build of the history (an incremental build with
    something to rerun, delete or revert), the fourth interrupts the first build of a fresh project."""
    rng = random.Random(f"c05-{name}-{seed}")
    if name == "detachrun":
        return case_detachrun(seed)
    if name == "gen":
        from harness import e3_gen
        project, history = e3_gen.gen_case(seed, max_phases=2)
        history = [{"edits": ph.get("edits", []), "build": ph.get("build", {})} for ph in history]
        kw = {"resources": "tok:1"}
    elif name.startswith("st-"):
        project, history = fam_startup(rng, name[3:])
        kw = {}
    else:
        project, history = dict(FAMILIES)[name](rng)
        kw = {}
    crash_phase = 0 if seed % 4 == 3 and not name.startswith("st-") else len(history)
    return {"name": name, "seed": seed, "project": project.to_json(), "history": history[:crash_phase],
            "build": kw}


# ---------------------------------------------------------------------------------------------
# Running a case
# ---------------------------------------------------------------------------------------------


def _prefix(case: dict, root: str) -> e3.Project:
    """Materialise the project in ``root`` and run every phase but the last build: on return the
    directory is ready for the build that will be interrupted."""
    project = e3.Project.from_json(case["project"])
    project.materialise(root)
    kw = dict(case.get("build", {}))
    history = case["history"]
    if history:
        e3.build(root, project.program, env=dict(project.env), **kw)
        for i, phase in enumerate(history):
            for edit in phase.get("edits", []):
                e3.apply_edit(project, root, edit)
            if i + 1 < len(history):
                pkw = {**kw, **phase.get("build", {})}
                if phase.get("crash") is not None:
                    e3.build_forked(root, project.program, crash=phase["crash"], env=dict(project.env), **pkw)
                else:
                    e3.build(root, project.program, env=dict(project.env), **pkw)
    return project


def _last_kw(case: dict) -> dict:
    kw = dict(case.get("build", {}))
    if case["history"]:
        kw.update(case["history"][-1].get("build", {}))
    return kw


def snapshot(case: dict, dest: str) -> e3.Project:
    """Run the uninterrupted prefix of the case once, in ``dest``."""
    return _prefix(case, dest)


def _clone(snap: str, dest: str) -> None:
    """Copy a snapshot (mtimes preserved; inodes differ, which only disables the stat shortcut of
    FileHash.refreshed: every file is re-hashed instead of trusted)."""
    socks = []

    def skip_sockets(d, names):
        out = [n for n in names if stat.S_ISSOCK(os.lstat(os.path.join(d, n)).st_mode)]
        socks.extend(os.path.relpath(os.path.join(d, n), snap) for n in out)
        return out

    shutil.copytree(snap, dest, symlinks=True, dirs_exist_ok=True, ignore=skip_sockets)
    # the stale socket of a killed director (a prefix build that was itself killed) is part of what
    # the next director finds: recreate it as a stale socket file
    for rel in socks:
        sk = socket.socket(socket.AF_UNIX)
        try:
            sk.bind(os.path.join(dest, rel))
        except OSError:
            pass
        finally:
            sk.close()


def reference(case: dict, snap: str, project: e3.Project, removals: list | None = None,
              stmts: list | None = None) -> e3.BuildResult:
    """The uninterrupted build; ``removals`` collects one entry per file-system removal of its
    cleanup pass (``finalize._try_remove``): the removal crash points; ``stmts`` one entry per
    autocommitted statement (DBSession.apply_schema, reclaim_free_space): the schema-stmt points."""
    with tempfile.TemporaryDirectory(prefix="c05-") as tmp:
        _clone(snap, tmp)
        with cw.count_removals(removals if removals is not None else []), \
                cw.count_schema_stmts(stmts if stmts is not None else []):
            return e3.build(tmp, project.program, env=dict(project.env), **_last_kw(case))


def schema_points(nstmts: int, dense: bool) -> list:
    """A kill before the k-th autocommitted statement: all of them (``dense``), or the first six (the
    two stamps and the first CREATEs), every eighth, and the last three."""
    ks = range(1, nstmts + 1)
    if not dense:
        ks = sorted({k for k in ks if k <= 6 or k % 8 == 0 or k > nstmts - 3})
    return [{"kind": "schema-stmt", "k": k} for k in ks]


CLEANUP_SITES = ("revert_optional_steps", "_revert_optional_steps", "Builder.finalize", "cleanup",
                 "Scheduler.build_completed") + tuple(cw.REPORT_SITES)


def cleanup_points(ref: e3.BuildResult, nremovals: int, max_removals: int = 5) -> list:
    """Directed points for the end-of-build transactions (report_unbuilt and its helpers,
    revert_optional_steps, the delete_detached transaction of Builder.finalize, build_completed):
    before and after each, and before each of the first ``max_removals`` removals of
    remove_deletable_files."""
    pts = []
    for k, (site, _wrote) in enumerate(ref.commit_points, start=1):
        if site in cw.REPORT_SITES:
            pts.append({"kind": "commit", "k": k, "when": "after"})      # read-only: one point each
        elif site in CLEANUP_SITES:
            pts.append({"kind": "commit", "k": k, "when": "before"})
            pts.append({"kind": "commit", "k": k, "when": "after"})
    pts += [{"kind": "removal", "k": k} for k in range(1, min(nremovals, max_removals) + 1)]
    return pts


def points_of(ref: e3.BuildResult) -> list:
    """Every crash point of the reference build, in execution order of their index."""
    pts = []
    for k in range(1, len(ref.commit_points) + 1):
        pts.append({"kind": "commit", "k": k, "when": "before"})
        pts.append({"kind": "commit", "k": k, "when": "after"})
    for k in range(1, len(ref.stage_points) + 1):
        pts.append({"kind": "stage", "k": k})
    return pts


def _hash_key(text):
    """What FileHash equality looks at (digest, mode, size; not mtime, not inode): two clones of a
    project have equal keys for equal files."""
    from stepup.core.hash import FileHash
    fh = FileHash.from_json(text)
    return f"{bytes(fh.digest).hex()}:{fh.mode}:{fh.size}"


def _glob_key(data_text):
    """The match set of a stored nglob row (what rescan_nglobs compares)."""
    import json
    from stepup.core.nglob import NamedGlob
    from stepup.core.cattrs import json_converter
    ng = json_converter.structure(json.loads(data_text), NamedGlob)
    return ng, "\n".join(sorted(str(p) for p in ng.files()))


def _num(table: dict, key):
    if key is None:
        return None
    if key not in table:
        table[key] = len(table) + 1
    return table[key]


def dump_sql(con, hmap: dict, maps: dict | None = None) -> dict:
    """Canonical dump of the persistent tables (the format of harness/e2.py Impl._dump), read with
    plain SQL; file hashes are numbered in order of first appearance (``hmap`` is shared between
    the dumps that must be comparable).  With ``maps`` (``{"h", "v", "g"}``, shared by all dumps of a
    case) hashes are numbered by content (digest, mode, size), and the value column of env_var and
    the match sets of the nglob table are added (``envvals``, ``nglobs``)."""
    def hid(text):
        if text is None:
            return None
        if maps is not None:
            return _num(maps["h"], _hash_key(text))
        return _num(hmap, text)

    ids = {i: (kind, label) for i, kind, label in con.execute("SELECT i, kind, label FROM node")}
    nodes = sorted((list(ids[i]), None if c is None else list(ids[c]), bool(d))
                   for i, c, d in con.execute("SELECT i, creator, detached FROM node"))
    files = sorted((ids[n][1], s, hid(h)) for n, s, h in con.execute("SELECT node, state, hash FROM file"))
    steps = sorted((ids[n][1], s, need, bool(d), dc, hold)
                   for n, s, need, d, dc, hold in con.execute(
                       "SELECT node, state, need, deferred, defer_count, _holding FROM step"))
    deps = sorted((list(ids[a]), list(ids[b]), bool(dy)) for a, b, dy in con.execute(
        "SELECT source, sink, EXISTS(SELECT 1 FROM dynamic_dep WHERE dynamic_dep.i = dependency.i) "
        "FROM dependency"))
    shash = sorted(ids[n][1] for (n,) in con.execute("SELECT node FROM step_hash"))
    envs = sorted((ids[n][1], name, bool(dy)) for n, name, dy in con.execute(
        "SELECT node, name, dynamic FROM env_var"))
    out = {"nodes": nodes, "files": files, "steps": steps, "deps": deps, "shash": shash, "envs": envs}
    if maps is not None:
        out["envvals"] = sorted(((ids[n][1], name, _num(maps["v"], value)) for n, name, value in con.execute(
            "SELECT node, name, value FROM env_var")), key=lambda t: (t[0], t[1]))
        out["nglobs"] = sorted((i, ids[n][1], _num(maps["g"], _glob_key(data)[1]))
                               for i, n, data in con.execute("SELECT i, node, data FROM nglob"))
    return out


def observe_world(root: str, env: dict, maps: dict) -> dict:
    """What a director started in ``root`` with environment ``env`` would see outside its database,
    in the numbering of ``maps``: the value of every tracked variable, the hash of every path that
    has a file row, the fresh scan of every stored nglob."""
    from stepup.core.hash import FileHash
    world = {"env": [], "disk": [], "glob": []}
    db = os.path.join(root, ".stepup", "graph.db")
    if not os.path.exists(db):
        return world
    with tempfile.TemporaryDirectory(prefix="c05w-") as tmp:
        con = sqlite3.connect(_copy_db(root, tmp))
        try:
            names = sorted({r[0] for r in con.execute("SELECT name FROM env_var")})
            paths = sorted(r[0] for r in con.execute(
                "SELECT label FROM node JOIN file ON file.node = node.i WHERE kind = 'file'"))
            globs = con.execute("SELECT i, data FROM nglob").fetchall()
        finally:
            con.close()
    for name in names:
        value = env[name] if name in env else os.environ.get(name)
        if value is not None:
            world["env"].append([name, _num(maps["v"], value)])
    with contextlib.chdir(root):
        for path in paths:
            try:
                fh = FileHash.unknown().refreshed(path)
            except Exception:  # noqa: BLE001  (a directory used as a file, ...): not observable
                continue
            if not fh.is_unknown:
                world["disk"].append([path, _num(maps["h"], _hash_key(fh.to_json()))])
        for i, data in globs:
            from stepup.core.nglob import NamedGlob
            old, old_key = _glob_key(data)
            fresh = NamedGlob(old.pattern, old.subs)
            fresh.glob()
            key = "\n".join(sorted(str(p) for p in fresh.files()))
            world["glob"].append([i, _num(maps["g"], key)])
    return world


JOB_LOOP_POINT = {"kind": "commit", "site": "Scheduler.pop_next_job", "nth": 1, "when": "before"}


def state_after_startup(src: str, project: e3.Project, kw: dict, maps: dict):
    """The persistent tables right after the complete startup sequence of a build started on a copy
    of ``src``: the director is killed before the first transaction of its job loop.  Returns
    (dump, None) or (None, reason)."""
    with tempfile.TemporaryDirectory(prefix="c05u-") as tmp:
        _clone(src, tmp)
        out = e3.build_forked(tmp, project.program, crash=dict(JOB_LOOP_POINT), env=dict(project.env), **kw)
        if not out.crashed:
            err = None if out.result is None else out.result.error
            return None, f"the job loop was not reached ({err})"
        con = sqlite3.connect(os.path.join(tmp, ".stepup", "graph.db"))
        try:
            return dump_sql(con, {}, maps), None
        finally:
            con.close()


def _copy_db(root: str, dest: str) -> str:
    src = os.path.join(root, ".stepup")
    for name in os.listdir(src):
        if name.startswith("graph.db"):
            shutil.copy2(os.path.join(src, name), os.path.join(dest, name))
    return os.path.join(dest, "graph.db")


JOB_LOOP_SITES = ("Scheduler.pop_next_job",)


def startup_commits(ref: e3.BuildResult) -> int:
    """Number of commit points of the startup sequence of a build: everything before the first
    transaction of the job loop (Trellis.initialize, Scheduler.initialize, initialize_boot inside
    serve, reset_interrupted_steps, rescan_env_vars, rescan_files and its hash jobs, rescan_nglobs,
    reconcile_targets inside serve)."""
    for i, (site, _wrote) in enumerate(ref.commit_points):
        if site in JOB_LOOP_SITES:
            return i
    return len(ref.commit_points)


def startup_points(ref: e3.BuildResult, both: bool = False) -> list:
    """Every crash point of the startup sequence: after each of its commits, and before each one
    that wrote something (``both``: before every one)."""
    pts = []
    for k in range(1, startup_commits(ref) + 1):
        if both or ref.commit_points[k - 1][1]:
            pts.append({"kind": "commit", "k": k, "when": "before"})
        pts.append({"kind": "commit", "k": k, "when": "after"})
    return pts


def sample_points(ref: e3.BuildResult, rng: random.Random, n: int, startup: bool = False,
                  both: bool = False) -> list:
    """n crash points of a reference build: the windows that matter most first (one each), then
    up to two file-system stages, then a uniform sample of the remaining commit points.
    ``startup``: every point of the startup sequence comes first and is never cut off.
      * before the commit of a hash job that follows the completion of a step: the declaring step
        is done, its newly declared static file is still UNCONFIRMED (stray UNCONFIRMED row);
      * after a dispatch commit: a step is RUNNING/CHECKING, its command has not started;
      * before a writing completion commit: the command ran to the end, nothing of it is recorded;
      * after the first cleanup commits (revert_optional_steps, Builder.finalize);
      * after a writing transaction of an RPC handler of a running command."""
    cps = ref.commit_points
    picks = []

    def add(p):
        if p not in picks:
            picks.append(p)

    first = startup_points(ref, both) if startup else []
    for p in first:
        add(p)
    n = max(n, 0) + len(first)
    for k in range(2, len(cps) + 1):
        if cps[k - 1][0] == "Executor._run_hash_job" and cps[k - 2][0] == "Executor.execute_job":
            add({"kind": "commit", "k": k, "when": "before"})
            break
    cand = [k for k in range(1, len(cps) + 1) if cps[k - 1][0] == "Scheduler.pop_next_job" and cps[k - 1][1]]
    if cand:
        add({"kind": "commit", "k": rng.choice(cand), "when": "after"})
    cand = [k for k in range(1, len(cps) + 1) if cps[k - 1][0] == "Executor.execute_job" and cps[k - 1][1]]
    if cand:
        add({"kind": "commit", "k": rng.choice(cand), "when": "before"})
    for site in ("revert_optional_steps", "Builder.finalize"):
        cand = [k for k in range(1, len(cps) + 1) if cps[k - 1][0] == site and cps[k - 1][1]]
        if cand:
            add({"kind": "commit", "k": cand[0], "when": "after"})
    # a transaction of an RPC handler (define_step / declare_static / amend_step / ... of a running
    # command): after it the declaring step is still RUNNING and part of what it declared is stored
    cand = [k for k in range(1, len(cps) + 1) if cps[k - 1][0].startswith("DirectorHandler.") and cps[k - 1][1]]
    if cand:
        add({"kind": "commit", "k": rng.choice(cand), "when": "after"})
    stages = [{"kind": "stage", "k": k} for k in range(1, len(ref.stage_points) + 1)]
    for p in rng.sample(stages, min(2, len(stages))):
        add(p)
    rest = [p for p in points_of(ref) if p not in picks and p["kind"] == "commit"]
    rng.shuffle(rest)
    return (picks + rest)[:max(n, 0)]


def inspect_db(root: str) -> dict:
    """Facts about the database a killed director left behind (read from copies)."""
    out = {"exists": False}
    if not os.path.exists(os.path.join(root, ".stepup", "graph.db")):
        return out
    hmap: dict = {}
    with tempfile.TemporaryDirectory(prefix="c05db-") as tmp:
        con = sqlite3.connect(_copy_db(root, tmp))
        try:
            tables = {r[0] for r in con.execute("SELECT name FROM sqlite_master WHERE type='table'")}
            out["exists"] = True
            out["tables"] = len(tables)
            if not {"node", "step", "file", "step_hash", "dependency"} <= tables:
                return out
            out["nodes"] = con.execute("SELECT count(*) FROM node").fetchone()[0]
            rows = con.execute(
                "SELECT node.label, step.state, node.detached, "
                "EXISTS (SELECT 1 FROM step_hash WHERE step_hash.node = step.node) "
                "FROM step JOIN node ON node.i = step.node").fetchall()
            out["running"] = sorted(r[0] for r in rows if r[1] == RUNNING)
            out["checking"] = sorted(r[0] for r in rows if r[1] == CHECKING)
            out["running_with_hash"] = sorted(r[0] for r in rows if r[1] == RUNNING and r[3])
            out["unconfirmed"] = sorted(r[0] for r in con.execute(
                "SELECT label FROM node JOIN file ON file.node = node.i WHERE state = ?", (UNCONFIRMED,)))
            built = {}
            for label, path in con.execute(
                    "SELECT snode.label, fnode.label FROM step JOIN node AS snode ON snode.i = step.node "
                    "JOIN node AS fnode ON (fnode.creator = snode.i OR EXISTS (SELECT 1 FROM dependency "
                    "WHERE source = snode.i AND sink = fnode.i)) "
                    "JOIN file ON file.node = fnode.i WHERE step.state = ? AND file.state = ?",
                    (RUNNING, BUILT)):
                built.setdefault(label, set()).add(path)
            out["running_built_outputs"] = {k: sorted(v) for k, v in built.items()}
            if out["nodes"] > 0:
                out["dump0"] = dump_sql(con, hmap)
        finally:
            con.close()
        out["strict_open"] = _strict_open(os.path.join(tmp, "graph.db"))
    if "dump0" in out:
        with tempfile.TemporaryDirectory(prefix="c05db-") as tmp:
            out["dump2"], out["reset_error"] = _real_reset(_copy_db(root, tmp), hmap)
    return out


def _strict_open(path: str) -> str | None:
    """Open a copy of the database with the real Workflow under STEPUP_DEBUG (strict consistency
    check).  Returns the error text, or None when the open succeeded."""
    from stepup.core.sqlite3 import DBSession
    from stepup.core.workflow import Workflow

    async def go():
        with DBSession.open(path) as db:
            wf = Workflow(db, dir_queue=None, defer_cap=100, targets=[], target_dirs=[])
            await wf.initialize()

    old = os.environ.get("STEPUP_DEBUG")
    os.environ["STEPUP_DEBUG"] = "1"
    try:
        asyncio.run(asyncio.wait_for(go(), 30))
    except Exception as exc:  # noqa: BLE001
        return f"{type(exc).__name__}: {exc}"
    finally:
        if old is None:
            os.environ.pop("STEPUP_DEBUG", None)
        else:
            os.environ["STEPUP_DEBUG"] = old
    return None


def _real_reset(path: str, hmap: dict):
    """The real Workflow.initialize (non-strict: with its repair) followed by the real
    startup.reset_interrupted_steps on a copy of the crashed database; returns the dump."""
    from stepup.core.reporter import ReporterClient
    from stepup.core.sqlite3 import DBSession
    from stepup.core.startup import reset_interrupted_steps
    from stepup.core.workflow import Workflow

    async def go():
        with DBSession.open(path) as db:
            wf = Workflow(db, dir_queue=None, defer_cap=100, targets=[], target_dirs=[])
            await wf.initialize()
            await reset_interrupted_steps(wf, ReporterClient())
            async with db:
                return dump_sql(db._con, hmap)

    old = os.environ.pop("STEPUP_DEBUG", None)
    try:
        with contextlib.redirect_stdout(io.StringIO()):     # the default reporter prints
            return asyncio.run(asyncio.wait_for(go(), 30)), None
    except Exception as exc:  # noqa: BLE001
        return None, f"{type(exc).__name__}: {exc}"
    finally:
        if old is not None:
            os.environ["STEPUP_DEBUG"] = old


def _window(info: dict) -> str:
    if info["kind"] == "stage":
        return "stage-of-running-step"
    if info["kind"] == "removal":
        return "during-remove_deletable_files"
    if info["kind"] == "schema-stmt":
        return "inside-apply_schema"
    if info.get("watch"):
        return f"watch-phase:{info['when']}-commit-of-{info['site']}"
    return f"{info['when']}-commit-of-{info['site']}"


def classify(info: dict, ref: e3.BuildResult, db: dict, rr: e3.BuildResult, rr2: e3.BuildResult) -> list:
    """Compare the restarted build with the uninterrupted reference."""
    fails = []
    window = _window(info)

    def add(kind, detail, signature=None):
        fails.append({"kind": kind, "signature": signature or f"C05:{kind}:{window}", "detail": detail})

    # -- opening the database ------------------------------------------------------------------
    if rr.error is not None:
        first_txn = info["kind"] == "commit" and info["k"] == 1 and info["when"] == "before"
        sig = SIG_D13 if first_txn and "NoneType" in rr.error else None
        add("restart-raises", f"restart after the crash raised {rr.error}", sig)
        return fails
    if db.get("strict_open"):
        add("consistency-error-at-open", f"strict consistency check of the crashed database: {db['strict_open']}")
    bad_log = [r for r in rr.log if "ERROR" in str(r)[:40] or "CRITICAL" in str(r)[:40]]
    if bad_log:
        add("error-logged-at-restart", f"restart logged {bad_log[:2]}")
    # -- the stored state of interrupted steps ---------------------------------------------------
    if db.get("running_with_hash"):
        add("running-step-with-stored-hash", f"RUNNING steps with a step_hash row: {db['running_with_hash']}")
    if info["kind"] == "stage":
        label = info["desc"].split(":", 1)[0]
        if label not in db.get("running", []):
            add("interrupted-step-not-running", f"{label} was executing its command but is not RUNNING in the database")
        if db.get("running_built_outputs", {}).get(label):
            add("interrupted-output-built",
                f"outputs of {label} are BUILT while its command runs: {db['running_built_outputs'][label]}")
    # -- re-execution of interrupted steps -------------------------------------------------------
    ref_nodes = ref.nodes()
    for label in db.get("running", []):
        node = ref_nodes.get(f"step:{label}")
        if node is not None and node["props"].get("state") in (["SUCCEEDED"], ["FAILED"]):
            if label not in rr.executed():
                add("interrupted-step-not-rerun", f"{label} was RUNNING at the crash but the restart did not execute it")
    # -- a kill inside the startup sequence: no command had run, so the restart has the whole build
    #    before it and must run every command the uninterrupted build ran (the observable form of
    #    "the evidence of a change is only discarded together with marking the affected steps") ----
    if info["kind"] == "commit" and not info.get("watch") and info["k"] <= startup_commits(ref):
        lost = sorted(set(ref.executed()) - set(rr.executed()))
        if lost:
            add("startup-change-lost", f"killed inside the startup sequence; the uninterrupted build executed {lost} "
                                       f"but the restarted build did not (it executed {rr.executed()})")
    # -- result --------------------------------------------------------------------------------
    diffs = e3.diff_results(rr, ref, digests=True)
    for d in diffs:
        if d["field"] == "file" and d["b"] is None:
            sig = None
            if info["kind"] == "commit" and info["when"] == "after" and info["site"] == "Builder.finalize":
                sig = SIG_D6
            elif info["kind"] == "commit" and info["when"] == "after" and info["site"] == "revert_optional_steps":
                sig = SIG_D6B
            elif info["kind"] == "commit" and info["when"] == "before" and info["site"] == "Builder.finalize":
                sig = SIG_D6B
            elif info["kind"] == "removal":
                # after both cleanup commits, the queue partly worked off: a path the graph no longer
                # knows is D6, an output of a reverted optional step (row PLANNED) is D6b
                sig = SIG_D6B if "file:" + d["key"] in rr.nodes() else SIG_D6
            still = None if rr2 is None else d["key"] in rr2.files
            add("orphan", f"{d['key']} is on disk after the restarted build but not after the uninterrupted one "
                          f"(still there after a second restart: {still}; known to the graph: "
                          f"{'file:' + d['key'] in rr.nodes()})", sig)
        elif d["field"] == "file" and d["a"] is None:
            add("output-missing", f"{d['key']} is missing after the restarted build")
        elif d["field"] == "file":
            add("output-differs", f"{d['key']}: restarted {d['a']!r} uninterrupted {d['b']!r}")
        elif d["field"] == "dirs":
            orphan_sigs = {f["signature"] for f in fails if f["kind"] == "orphan"}
            sig = None
            if d["a"] and not d["b"] and orphan_sigs and all(
                    any(k.startswith(x) for k in rr.files if k not in ref.files) for x in d["a"]):
                # the directories of the orphaned files: same defect, same signature (orphans of both
                # windows below them, possible when the removal itself is interrupted: the root cause
                # is the one of D6, the lost queue)
                sig = next(iter(orphan_sigs)) if len(orphan_sigs) == 1 else (
                    SIG_D6 if orphan_sigs <= {SIG_D6, SIG_D6B} else None)
            elif info["kind"] == "removal" and d["a"] and not d["b"] and not orphan_sigs:
                # killed after the last file and before an rmdir of remove_deletable_files: the
                # emptied directories the queue still held stay (D6: the queue is lost)
                sig = SIG_D6
            add("directories-differ", f"only after restart: {d['a']}; only uninterrupted: {d['b']}", sig)
        elif d["field"] == "graph":
            add("graph-differs", f"node {d['key']}: restarted {d['a']} uninterrupted {d['b']}")
        elif d["field"] in ("rc", "error"):
            add("returncode-differs", f"restarted rc={rr.returncode} uninterrupted rc={ref.returncode}")
        elif d["field"] == "rejected":
            add("rejections-differ", f"restarted {d['a']} uninterrupted {d['b']}")
    return fails


def startup_probe(tmp: str, project: e3.Project, kw: dict, su: dict) -> dict:
    """For a kill inside the startup sequence (``tmp`` holds what the killed director left): the
    crashed tables and the world in the numbering of the case, and the tables right after the
    complete startup sequence of the restarted director (run on a copy)."""
    maps = su["maps"]
    probe = {}
    con = sqlite3.connect(os.path.join(tmp, ".stepup", "graph.db"))
    try:
        if con.execute("SELECT count(*) FROM sqlite_master WHERE name = 'env_var'").fetchone()[0] == 0 \
                or con.execute("SELECT count(*) FROM node").fetchone()[0] == 0:
            return probe
        probe["x0"] = dump_sql(con, {}, maps)
    finally:
        con.close()
    probe["world"] = observe_world(tmp, dict(project.env), maps)
    probe["after"], probe["after_error"] = state_after_startup(tmp, project, kw, maps)
    return probe


def check_point(case: dict, snap: str, project: e3.Project, ref: e3.BuildResult, point: dict,
                su: dict | None = None) -> dict:
    """Crash the last build of ``case`` at ``point``, restart, compare.  ``su`` (startup cases):
    ``{"maps", "after"}``, the numbering of the case and the tables after the uninterrupted startup."""
    with tempfile.TemporaryDirectory(prefix="c05-") as tmp:
        _clone(snap, tmp)
        kw = _last_kw(case)
        if point["kind"] == "removal":
            out = cw.build_forked_removal(tmp, project.program, point["k"], env=dict(project.env), **kw)
        elif point["kind"] == "schema-stmt":
            out = cw.build_forked_schema(tmp, project.program, point["k"], env=dict(project.env), **kw)
        else:
            out = e3.build_forked(tmp, project.program, crash=point, env=dict(project.env), **kw)
        if not out.crashed:
            # the point was not reached (a k beyond what this run produced): nothing to check
            return {"point": point, "crashed": False, "fails": [], "info": None, "db": {}}
        db = inspect_db(tmp)
        in_startup = out.crash_info["kind"] == "commit" and out.crash_info["k"] <= startup_commits(ref)
        if su is not None and in_startup and db.get("exists"):
            db["startup"] = startup_probe(tmp, project, kw, su)
        rr = e3.build(tmp, project.program, env=dict(project.env), **kw)
        fails = classify(out.crash_info, ref, db, rr, None)
        if su is not None and "after" in db.get("startup", {}):
            fails = startup_state_fails(out.crash_info, db["startup"], su) + fails
        if any(f["kind"] == "orphan" for f in fails):
            rr2 = e3.build(tmp, project.program, env=dict(project.env), **kw)
            fails = classify(out.crash_info, ref, db, rr, rr2)
        return {"point": point, "crashed": True, "info": out.crash_info, "fails": fails,
                "db": {k: db.get(k) for k in ("running", "checking", "unconfirmed", "nodes", "dump0", "dump2",
                                              "strict_open", "reset_error", "exists", "startup")},
                "restart_executed": rr.executed(), "restart_rc": rr.returncode}


DUMP_TABLES = ("nodes", "files", "steps", "deps", "shash", "envs", "envvals", "nglobs")


def startup_state_fails(info: dict, probe: dict, su: dict) -> list:
    """The tables after the startup sequence of the restarted director must be those after the
    startup sequence that was not interrupted (the conclusion of C05_startup_crash_restart, observed
    on the implementation): same PENDING steps, same file states, same remembered values."""
    window = _window(info)
    if probe.get("after") is None or su.get("after") is None:
        if (probe.get("after") is None) != (su.get("after") is None):
            return [{"kind": "startup-restart-differs", "signature": f"C05:startup-restart-differs:{window}",
                     "detail": f"startup after the kill: {probe.get('after_error')}; uninterrupted: "
                               f"{su.get('after_error')}"}]
        return []
    bad = []
    for table in DUMP_TABLES:
        a, b = probe["after"][table], su["after"][table]
        if a != b:
            only_a = [r for r in a if r not in b][:3]
            only_b = [r for r in b if r not in a][:3]
            bad.append(f"{table}: restarted {only_a} uninterrupted {only_b}")
    if not bad:
        return []
    return [{"kind": "startup-restart-differs", "signature": f"C05:startup-restart-differs:{window}",
             "detail": "the tables after the startup sequence of the restarted director differ from those after "
                       "the uninterrupted startup sequence (step: label, state, need, deferred, defer_count, "
                       "holding; file: path, state, hash id; envvals: step, name, value id): " + "; ".join(bad)}]


def run_job(job: dict) -> dict:
    """Pool entry: one case; ``points``: explicit list, else ``sample``: n seeded points, else all."""
    case = job["case"]
    if job.get("watch") or any(p.get("watch") for p in (job.get("points") or []) if isinstance(p, dict)):
        return run_watch_job(job)
    with tempfile.TemporaryDirectory(prefix="c05s-") as snap:
        project = snapshot(case, snap)
        removals: list = []
        stmts: list = []
        ref = reference(case, snap, project, removals, stmts)
        pts = points_of(ref) + [{"kind": "removal", "k": k} for k in range(1, len(removals) + 1)]
        if job.get("points") == "schema":
            pts = schema_points(len(stmts), bool(job.get("dense")))
        elif job.get("points") == "cleanup":
            pts = cleanup_points(ref, len(removals))
        elif job.get("points") == "detached":
            pts = detached_window_points(ref)
        elif job.get("points") is not None:
            pts = job["points"]
        elif job.get("sample") is not None:
            rng = random.Random(f"c05-pts-{case['name']}-{case['seed']}-{job.get('seed', 0)}")
            pts = sample_points(ref, rng, job["sample"], startup=bool(job.get("startup")),
                                both=bool(job.get("startup_both")))
        su = None
        if job.get("startup"):
            su = {"maps": {"h": {}, "v": {}, "g": {}}}
            su["after"], su["after_error"] = state_after_startup(snap, project, _last_kw(case), su["maps"])
        results = [check_point(case, snap, project, ref, pt, su) for pt in pts]
    return {"case": case, "ref": {"rc": ref.returncode, "error": ref.error, "commits": len(ref.commit_points),
                                  "stages": len(ref.stage_points), "executed": ref.executed(),
                                  "startup_commits": startup_commits(ref), "removals": len(removals),
                                  "schema_stmts": len(stmts),
                                  "sites": sorted({s for s, _ in ref.commit_points})},
            "results": results}


# Watch phase -------------------------------------------------------------------------------------

WATCH_FAMILIES = ["chain", "diamond", "subplan", "amend", "optional", "drop", "failing"]


def watch_points(points: list, rng: random.Random, n: int | None) -> list:
    """Crash points of the part of a watching director's life after its first build phase:
    ``points`` = its commit points [site, wrote] in order.  All of them (``n`` None), or: every
    point of the watcher and of start_build_phase (the transactions no non-watch build has), then a
    seeded sample of the rebuild."""
    allp = []
    for k, (_site, wrote) in enumerate(points, start=1):
        if wrote:
            allp.append({"kind": "commit", "k": k, "when": "before", "watch": True})
        allp.append({"kind": "commit", "k": k, "when": "after", "watch": True})
    if n is None:
        return allp
    own = [p for p in allp if cw.site_kind({"kind": "commit", "site": points[p["k"] - 1][0]}) in
           ("watch-phase", "rpc")]
    rest = [p for p in allp if p not in own]
    rng.shuffle(rest)
    return own[:max(n, 6)] + rest[:max(n - len(own), 2)]


def run_watch_job(job: dict) -> dict:
    """Pool entry: the last phase of the case happens under a WATCHING director: the director has
    completed a build phase and idles; the edits of the last phase are made on the live file system;
    the watcher records them; a rebuild starts.  The director is killed at a commit point of that
    part of its life; then a plain restart, compared with the uninterrupted plain build."""
    case = job["case"]
    with tempfile.TemporaryDirectory(prefix="c05s-") as snap, tempfile.TemporaryDirectory(prefix="c05v-") as snapw:
        project = snapshot(case, snap)
        ref = reference(case, snap, project)
        edits = case["history"][-1].get("edits", [])
        case_w = dict(case, history=case["history"][:-1] + [{"edits": []}])
        project_w = _prefix(case_w, snapw)
        kw = {k: v for k, v in _last_kw(case).items() if k in ("njob", "resources", "clean", "keep_going")}
        with tempfile.TemporaryDirectory(prefix="c05-") as tmp:
            _clone(snapw, tmp)
            full = cw.watch_forked(tmp, project_w.to_json(), edits, None, **kw)
        results = []
        if full["points"] is None:
            results.append({"point": {"watch": True}, "crashed": False, "fails": [], "info": None, "db": {},
                            "watch_error": full["error"]})
            pts = []
        elif job.get("points") is not None:
            pts = job["points"]
        else:
            rng = random.Random(f"c05-wpts-{case['name']}-{case['seed']}-{job.get('seed', 0)}")
            pts = watch_points(full["points"], rng, job.get("sample"))
        for pt in pts:
            with tempfile.TemporaryDirectory(prefix="c05-") as tmp:
                _clone(snapw, tmp)
                out = cw.watch_forked(tmp, project_w.to_json(), edits, pt, **kw)
                if not out["crashed"]:
                    results.append({"point": pt, "crashed": False, "fails": [], "info": None, "db": {}})
                    continue
                db = inspect_db(tmp)
                rr = e3.build(tmp, project.program, env=dict(project.env), **_last_kw(case))
                fails = classify(out["info"], ref, db, rr, None)
                if any(f["kind"] == "orphan" for f in fails):
                    rr2 = e3.build(tmp, project.program, env=dict(project.env), **_last_kw(case))
                    fails = classify(out["info"], ref, db, rr, rr2)
                results.append({"point": pt, "crashed": True, "info": out["info"], "fails": fails,
                                "db": {k: db.get(k) for k in ("running", "checking", "unconfirmed", "nodes", "dump0",
                                                              "dump2", "strict_open", "reset_error", "exists")},
                                "restart_executed": rr.executed(), "restart_rc": rr.returncode})
    return {"case": case, "watch": True,
            "ref": {"rc": ref.returncode, "error": ref.error, "commits": len(ref.commit_points),
                    "stages": len(ref.stage_points), "executed": ref.executed(),
                    "startup_commits": startup_commits(ref), "removals": 0,
                    "watch_points": None if full["points"] is None else len(full["points"]),
                    "watch_error": full["error"],
                    "sites": sorted({s for s, _ in (full["points"] or [])})},
            "results": results}


# Concrete witnesses (also in coq/proofs/CrashProofs.v) ----------------------------------------


def witness_d6() -> dict:
    plan = [{"op": "step", "label": "mk a", "out": ["a.txt"]}]
    p = _proj({}, plan)
    return {"name": "witness-d6", "seed": 0, "project": p.to_json(),
            "history": [{"edits": [{"op": "script", "path": "plan.py", "actions": []}]}], "build": {}}


def witness_d13() -> dict:
    plan = [{"op": "step", "label": "mk a", "out": ["a.txt"]}]
    return {"name": "witness-d13", "seed": 0, "project": _proj({}, plan).to_json(), "history": [], "build": {}}


def witness_d6b() -> dict:
    plan = [{"op": "step", "label": "o", "out": ["o.txt"], "need": "OPTIONAL"},
            {"op": "step", "label": "u", "inp": ["o.txt"], "out": ["u.txt"]}]
    p = _proj({}, plan)
    return {"name": "witness-d6b", "seed": 0, "project": p.to_json(),
            "history": [{"edits": [{"op": "script", "path": "plan.py", "actions": plan[:1]}]}], "build": {}}
