"""C05: a build killed at any point is completed correctly after restart."""
from __future__ import annotations

import os
import random

from translator import gen_crash, gen_crash_schema

from . import c05_crash as cc
from . import c05_windows as cw
from . import common
from .common import coq_bool, coq_list, coq_str

PID = "C05"
PROPS_FILE = "props/C05.v"
MODEL_TARGETS = ["model/Crash.vo", "model/GraphDump.vo", "model/GraphInv.vo", "model/CrashStartup.vo",
                 "model/CrashEngine.vo", "model/CrashHist.vo", "model/CrashSchema.vo"]
RULE = ("E3 crash runs on the real director: a project (8 hand-written families: chain, diamond, sub-plan, "
        "amended inputs/outputs with deferral, optional chain whose consumer is dropped, dropped steps with nested "
        "directories and volatile outputs, newly declared static files + env change, failing step; plus "
        "harness/e3_gen projects; plus 14 STARTUP families: one project with env-tracking steps, an amended "
        "variable, a static glob and a chain, where exactly one thing changed since the last complete build that only "
        "the startup sequence of the next director can notice -- tracked variable changed / unset / set, two "
        "variables, amended variable, source content, deleted source, glob match added / deleted, output deleted / "
        "tampered, plan text, a previous build killed while a command ran, or a combination) is built up to the last "
        "phase of its history; the last build runs in a forked child that os._exit()s at a crash point (before / "
        "after the k-th committing transaction, or at the k-th file-system stage of a simulated command, multi-part "
        "writes leave partial outputs); the database left behind is dumped, opened by the real Workflow in strict "
        "mode and run through the real reset_interrupted_steps; a restart build runs on the same directory and is "
        "compared with the uninterrupted reference (exception at open, ERROR log, return-code class, file contents, "
        "directories, canonical graph with digests, rejected declarations, re-execution of every step found RUNNING). "
        "Startup families are killed after EVERY commit of their startup sequence (everything before the first "
        "Scheduler.pop_next_job commit), and there additionally: the tables right after the startup sequence of the "
        "restarted director (step states, file states and hashes, env_var values, nglob match sets) equal those "
        "after the uninterrupted startup sequence, every command the uninterrupted build executed is executed by "
        "the restart, and the model of the startup sequence (with the GENERATED block structure of rescan_env_vars) "
        "run on the crashed tables and the observed world ends in the tables of the real successor. "
        "quick: the three witnesses (D6, D6b, D13) + 8 seeded points on each of 5 projects + 7 startup cases (one "
        "per class of evidence; quick: 4 of the 7 classes, 4 projects x 6 points) at all their startup points + a "
        "first start killed before statements of DBSession.apply_schema (autocommit mode) + a step RUNNING and "
        "detached at the kill + 2 directed cleanup cases (every end-of-build "
        "transaction before/after and every removal of remove_deletable_files) + 1 watch case (a WATCHING director "
        "killed in the transactions of its watcher, of start_build_phase and of the rebuild); thorough: every point "
        "(removals included) of 30 projects + 28 startup cases + 7 watch cases. The distribution of the points over "
        "the KINDS of transaction (kind:startup / dispatch / job / rpc / hash-job / report / cleanup-revert / "
        "cleanup-delete / cleanup-removal / build-completed / watch-phase / stage) is printed into the evidence. "
        "A point is non-trivial when the child was really killed there and the killed transaction wrote "
        "something, a step was RUNNING/CHECKING, a file was UNCONFIRMED, or it is a stage point; distinct by "
        "(project, point)")
TRUSTED_BASE = [
    "Coq 8.16.1 kernel; vm_compute in the refutation witnesses, Examples and the correspondence evaluation",
    "Print Assumptions: Closed under the global context for every C05 theorem",
    "hand-written models coq/model/Graph.v (owned by C09, tied by E2) and coq/model/Crash.v (check_consistency, "
    "open_db, revert_optional, delete_detached_q, remove_deletable, crash windows), tied to the code by "
    "translator/gen_crash.py (statement shapes of Trellis.initialize, Builder.finalize, finalize.py, "
    "Executor.execute_job, startup.py, director.serve) and by the crash-state correspondence below",
    "hand-written model coq/model/CrashStartup.v (the startup sequence transaction by transaction on Graph.st + "
    "env_var values + nglob table; rescan_env_vars interpreted from the generated block structure), tied by the "
    "translator (transaction structure of rescan_env_vars / rescan_nglobs / persist_nglob_matches / _run_hash_job / "
    "rescan_files) and by the startup correspondence (model run on every crashed startup state against the tables "
    "of the real successor); coq/model/Engine.v (owned by C01, tied by its own correspondence) and "
    "coq/model/CrashEngine.v (crash states of the engine: prefix of dispatch decisions + one torn step)",
    "harness/e3.py (real serve() in-process, simulated step commands, os._exit at commit/stage points) and "
    "harness/c05_crash.py (comparison, SQL dump of the crashed database, observation of the world: real "
    "FileHash.refreshed, NamedGlob.glob, build environment)",
    "SQLite WAL atomicity for a killed process: a transaction that did not reach COMMIT leaves no trace, a "
    "committed one is complete (synchronous=OFF is only unsafe for an operating-system crash or power loss)",
]
ASSUMPTIONS = [
    "a kill is emulated by os._exit inside the director process at transaction boundaries and between "
    "file-system actions of simulated commands; kills in the middle of a single SQLite call or system call "
    "are covered by the WAL assumption, not exercised",
    "the restarted build sees the same sources, plan and environment as the interrupted one",
    "theorems about transaction histories take inv_b / inv_succeeded_b / inv_running_nohash_b of the crashed state "
    "as hypotheses (C09 proves them for reachable states); they are evaluated on every crashed database here",
    "watch-phase transactions (Watcher.run_once, start_build_phase, the rebuild) are interrupted in a forked "
    "WatchSession (harness/c05_windows.py) for the families without environment edits; the restart is a plain "
    "(non-watch) build compared with the uninterrupted plain build; a kill inside remove_deletable_files is "
    "emulated before each finalize._try_remove call",
    "the startup theorems take a world (environment, disk, glob scans) that does not change during startup and "
    "unique step / file labels (a conjunct of C09's invariant, evaluated on every crashed database); hash jobs of "
    "rescan_files are applied in row order (E3 runs njob=1); Workflow.initialize_boot re-initialising the boot step "
    "on a non-empty database is outside the model",
    "C05_full is proved on C01's engine: static DAG, and amended inputs with deferral + failing steps for the ungated "
    "dispatch rule; for the gating of the code only the invariant and a conditional equality are proved (D28); no "
    "plan steps during the build, optional steps, cleanup; the engine-level crash states are connected to the "
    "database level by C05_started_then_crash / C05_interrupted_invariant_all_histories and by the oracle, not by "
    "a refinement proof",
]

KIND = {"root": "KRoot", "file": "KFile", "step": "KStep", "st": "KTree"}
FST = {11: "FUndeclared", 12: "FUnconfirmed", 13: "FMissing", 14: "FConfirmed", 15: "FPlanned", 16: "FBuilt",
       17: "FOutdated", 18: "FVolatile"}
SST = {21: "SPending", 22: "SRunning", 23: "SSucceeded", 24: "SFailed", 25: "SChecking"}
NEED = {31: "NOptional", 32: "NDefault", 34: "NPlan"}
HEADER = ("From Coq Require Import List NArith Bool.\nImport ListNotations.\n"
          "From SV Require Import lib.Bytes model.Graph model.GraphDump model.GraphInv gen.GenCrash model.Crash "
          "model.CrashStartup.\nFrom SV Require gen.GenCrashSchema model.CrashSchema.\n"
          "Open Scope N_scope.\n")


def generate(ctx):
    # two files: a change of apply_schema must not take the transaction-level obligations down with it
    errors = []
    for name, mod in (("GenCrashSchema.v", gen_crash_schema), ("GenCrash.v", gen_crash)):
        try:
            ctx.write_gen(name, mod.generate())
        except Exception as exc:  # noqa: BLE001  (re-raised below: fail closed)
            errors.append(exc)
    if errors:
        raise errors[0]


# -- Gallina terms -----------------------------------------------------------------------------


def cq_key(k):
    return f"({KIND[k[0]]}, {coq_str(k[1])})"


def cq_opt(x, f):
    return "None" if x is None else f"(Some {f(x)})"


def cq_state(d) -> str:
    nodes = coq_list([f"mkNode {cq_key(k)} {cq_opt(c, cq_key)} {coq_bool(det)}" for k, c, det in d["nodes"]])
    files = coq_list([f"mkF {coq_str(l)} {FST[s]} {cq_opt(h, str)}" for l, s, h in d["files"]])
    steps = coq_list([f"mkS {coq_str(l)} {SST[s]} {NEED[nd]} {coq_bool(df)} {dc} {ho}"
                      for l, s, nd, df, dc, ho in d["steps"]])
    deps = coq_list([f"mkD {cq_key(a)} {cq_key(b)} {coq_bool(dy)}" for a, b, dy in d["deps"]])
    shash = coq_list([coq_str(x) for x in d["shash"]])
    envs = coq_list([f"mkE {coq_str(s)} {coq_str(n)} {coq_bool(dy)}" for s, n, dy in d["envs"]])
    return f"(mkSt {nodes} {files} {steps} {deps} {shash} {envs} 100)"


def crash_state_check(db: dict) -> str:
    """true iff the model agrees with the implementation on this crashed database: the invariants
    hold, the model of the strict consistency check answers like the real one, and the model of
    open + reset_interrupted_steps reproduces the tables the real code produced."""
    s0 = cq_state(db["dump0"])
    strict_ok = db.get("strict_open") is None
    parts = [f"inv_b s0", "inv_succeeded_b s0", "inv_running_nohash_b s0",
             f"Bool.eqb (match check_consistency true s0 with Ok _ => true | _ => false end) {coq_bool(strict_ok)}"]
    if db.get("dump2") is not None:
        s2 = cq_state(db["dump2"])
        parts.append("match check_consistency false s0 with Ok s1 => match reset_interrupted s1 with "
                     f"Ok s2 => dump_eqb (dump_of s2) (dump_of {s2}) && no_running_checking_b s2 "
                     "| _ => false end | _ => false end")
    else:
        parts.append("match check_consistency false s0 with Ok s1 => match reset_interrupted s1 with "
                     "Ok _ => false | _ => true end | _ => true end")
    return f"let s0 := {s0} in " + " && ".join(f"({p})" for p in parts)


def cq_xst(d) -> str:
    envs = coq_list([f"mkEV {coq_str(s)} {coq_str(n)} {cq_opt(v, str)}" for s, n, v in d["envvals"]])
    ngs = coq_list([f"mkNG {i} {coq_str(s)} {g}" for i, s, g in d["nglobs"]])
    return f"(mkX {cq_state(d)} {envs} {ngs})"


def cq_world(w) -> str:
    env = coq_list([f"({coq_str(n)}, {v})" for n, v in w["env"]])
    disk = coq_list([f"({coq_str(p)}, {h})" for p, h in w["disk"]])
    glob = coq_list([f"({i}, {g})" for i, g in w["glob"]])
    return f"(mkW {env} {disk} {glob})"


def startup_state_check(probe: dict) -> str:
    """true iff the model of the startup sequence (open without strict check, then the phases with the
    GENERATED block structure of rescan_env_vars), run on the tables a director killed inside its
    startup sequence left and on the world its successor sees, ends in the tables the real successor
    had right before its job loop started."""
    return (f"startup_agrees rescan_env_vars_blocks {cq_world(probe['world'])} {cq_xst(probe['x0'])} "
            f"{cq_xst(probe['after'])}")


# -- the crash runs (shared by correspondence and oracle) ------------------------------------------

WITNESS_POINTS = [
    (cc.witness_d13, [{"kind": "commit", "k": 1, "when": "before"}]),
    (cc.witness_d6, [{"kind": "commit", "site": "Builder.finalize", "nth": 1, "when": "after"},
                     {"kind": "commit", "site": "Builder.finalize", "nth": 1, "when": "before"}]),
    (cc.witness_d6b, [{"kind": "commit", "site": "revert_optional_steps", "nth": 1, "when": "after"}]),
]


def _jobs(ctx):
    jobs = [{"case": mk(), "points": pts} for mk, pts in WITNESS_POINTS]
    names = [n for n, _ in cc.FAMILIES]
    rng = random.Random(f"c05-jobs-{ctx.seed}")
    if ctx.thorough():
        picks = [(n, s) for n in names for s in (ctx.seed * 4, ctx.seed * 4 + 1, ctx.seed * 4 + 3)]
        picks += [("gen", ctx.seed * 100 + i) for i in range(6)]
        jobs += [{"case": cc.make_case(n, s)} for n, s in picks]
        # startup families: every kind twice, every commit of the startup sequence (before and
        # after), plus a sample of the rest of the build
        for kind in cc.STARTUP_KINDS:
            jobs.append({"case": cc.make_case("st-" + kind, ctx.seed * 2), "sample": 12, "seed": ctx.seed,
                         "startup": True, "startup_both": True})
            jobs.append({"case": cc.make_case("st-" + kind, ctx.seed * 2 + 1), "sample": 0, "seed": ctx.seed,
                         "startup": True, "startup_both": True})
        # watch phase: the last phase of every family happens under a watching director, every
        # commit point from the end of its first build phase on
        for n in cc.WATCH_FAMILIES:
            jobs.append({"case": cc.make_case(n, ctx.seed * 4 + 1), "watch": True, "seed": ctx.seed})
        jobs.append({"case": cc.make_case("detachrun", ctx.seed)})
        jobs.append({"case": cc.witness_d13(), "points": "schema", "dense": True})
        jobs.append({"case": cc.make_case("chain", ctx.seed * 4 + 1), "points": "schema", "dense": True})  # not a first start
    else:
        picks = [(n, rng.randrange(1000)) for n in rng.sample(names, 3)] + [("gen", rng.randrange(1000))]
        jobs += [{"case": cc.make_case(n, s), "sample": 6, "seed": ctx.seed} for n, s in picks]
        # startup families: one case of every class of evidence the startup sequence compares with
        # the outside world (tracked environment variable, file hash, glob matches, interrupted
        # step) and one combination, killed at EVERY commit of the startup sequence
        classes = [["env", "env-unset", "env-set", "env-two"], ["env-amended", "env-two", "env"],
                   ["source", "source-delete", "plan-touch"], ["out-del", "out-tamper"],
                   ["glob-add", "glob-del"], ["interrupted"], ["combo"]]
        used = set()
        # the class of tracked variables always, three of the other six (thorough: all of them, twice)
        classes = classes[:1] + rng.sample(classes[1:], 3)
        for cl in classes:
            kind = rng.choice([k for k in cl if k not in used] or cl)
            used.add(kind)
            jobs.append({"case": cc.make_case("st-" + kind, rng.randrange(1000)), "sample": 2, "seed": ctx.seed,
                         "startup": True})
        # directed: the end-of-build transactions (report, revert_optional_steps, delete_detached,
        # build_completed) before and after, and every removal of remove_deletable_files, on one
        # project that reverts optional steps and one that drops steps (incremental builds)
        for n in ("optional", rng.choice(["drop", "subplan"])):
            jobs.append({"case": cc.make_case(n, 4 * rng.randrange(250) + rng.randrange(3)), "points": "cleanup"})
        # directed: a kill inside DBSession.apply_schema of a first start (autocommit mode: before the
        # two stamps, the first CREATEs, every eighth statement, the last three)
        jobs.append({"case": cc.witness_d13(), "points": "schema"})
        # directed: a step RUNNING and detached at the kill (its creator is being re-executed)
        jobs.append({"case": cc.make_case("detachrun", rng.randrange(1000)), "points": "detached"})
        # directed: a watching director killed in the transactions of its watcher, of
        # start_build_phase and of the rebuild
        jobs.append({"case": cc.make_case(rng.choice(cc.WATCH_FAMILIES), 4 * rng.randrange(250) + rng.randrange(3)),
                     "watch": True, "sample": 6, "seed": ctx.seed})
    return jobs


def _run(ctx):
    if getattr(ctx, "c05_results", None) is None:
        from . import e3
        nproc = 8 if ctx.thorough() else 6
        ctx.c05_results = e3.pool_map(cc.run_job, _jobs(ctx), nproc=nproc)
    return ctx.c05_results


def _points(results):
    for res in results:
        for pr in res["results"]:
            yield res["case"], res["ref"], pr


def _run_cases_fresh(ctx, name, checks):
    """common.run_cases, robust against another check rebuilding model/Graph.vo between our Coq
    build and this evaluation (minutes later in the thorough tier): the model objects are brought
    up to date under the Coq lock first, and an 'inconsistent assumptions' failure is retried."""
    last = None
    for _ in range(3):
        with common.CoqLock():
            common.coq_make(list(MODEL_TARGETS))
        try:
            return common.run_cases(ctx, name, HEADER, checks, chunk=25)
        except RuntimeError as exc:
            last = exc
            if "inconsistent assumptions" not in str(exc):
                raise
    raise last


def correspondence(ctx):
    results = _run(ctx)
    checks, owners = [], []
    limit = ctx.scale(400, 1200)
    for case, ref, pr in _points(results):
        db = pr.get("db") or {}
        if not pr["crashed"] or db.get("dump0") is None or len(checks) >= limit:
            continue
        checks.append(crash_state_check(db))
        owners.append((case, pr))
    ctx.count("crash_states_replayed_in_model", len(checks))
    bad = _run_cases_fresh(ctx, "crashstates", checks) if checks else []
    ctx.traces_validated += len(checks) - len(bad)
    # the startup sequence of the restarted director, model against implementation
    schecks, sowners = [], []
    for case, ref, pr in _points(results):
        probe = (pr.get("db") or {}).get("startup") or {}
        if probe.get("after") is None or probe.get("x0") is None or len(schecks) >= ctx.scale(150, 900):
            continue
        schecks.append(startup_state_check(probe))
        sowners.append((case, pr))
    ctx.count("startup_sequences_replayed_in_model", len(schecks))
    sbad = _run_cases_fresh(ctx, "startupstates", schecks) if schecks else []
    ctx.traces_validated += len(schecks) - len(sbad)
    for b in sbad[:3]:
        case, pr = sowners[b]
        ctx.add_failure("correspondence", "E3:startup-sequence", f"E3:startup-sequence:{cc._window(pr['info'])}",
                        "the model of the startup sequence (model/CrashStartup.v with the generated block "
                        "structure of rescan_env_vars) run on the tables of the killed director and the world of "
                        "its successor does not end in the tables the real successor had before its job loop",
                        witness={"case": case, "point": pr["point"]})
    for b in bad[:3]:
        case, pr = owners[b]
        ctx.add_failure("correspondence", "E3:crash-state", f"E3:crash-state:{cc._window(pr['info'])}",
                        "model and implementation disagree on a crashed database (invariants, strict consistency "
                        f"check, or open + reset_interrupted_steps): strict_open={pr['db'].get('strict_open')} "
                        f"reset_error={pr['db'].get('reset_error')}",
                        witness={"case": case, "point": pr["point"]})
    # the model's verdict on the witnesses must be what the real system shows
    with common.CoqLock():
        common.coq_make(list(MODEL_TARGETS))
    verdicts = common.eval_terms(ctx, "witness", HEADER, [
        "no_orphans_b W2 [] d6_sys", "no_orphans_b W1 [s_o] d6b_sys",
        "match open_db_now false 100 (db_at 100 d6_history 0) with Ok _ => true | _ => false end",
        "forallb (CrashSchema.reopens_b GenCrashSchema.apply_schema_writes GenCrashSchema.schema_drops 6) (seq 0 11)"])
    want = {"d6": verdicts[0], "d6b": verdicts[1], "d13": verdicts[2], "schema": verdicts[3]}
    seen = {}
    for case, ref, pr in _points(results):
        if pr["crashed"] and (pr.get("info") or {}).get("kind") == "schema-stmt":
            seen.setdefault("schema", "true")
            if any(f["kind"] == "restart-raises" for f in pr["fails"]):
                seen["schema"] = "false"
    for case, ref, pr in _points(results):
        if case["name"].startswith("witness-") and pr["crashed"]:
            seen.setdefault(case["name"][len("witness-"):], "true")
        for f in pr["fails"]:
            if f["signature"] == cc.SIG_D6 and case["name"] == "witness-d6":
                seen["d6"] = "false"
            if f["signature"] == cc.SIG_D6B and case["name"] == "witness-d6b":
                seen["d6b"] = "false"
            if f["signature"] == cc.SIG_D13 and case["name"] == "witness-d13":
                seen["d13"] = "false"
    for key in seen:
        if want[key] != seen[key]:
            ctx.add_failure("correspondence", f"witness-{key}", f"E3:witness-verdict:{key}",
                            f"the model says '{want[key]}' for the {key} witness (no orphan / open succeeds / every "
                            f"prefix of apply_schema reopens) but the "
                            f"real system showed '{seen[key]}'", witness={"witness": key})


def oracle(ctx):
    results = _run(ctx)
    reported: dict = {}
    # which KINDS of transaction the crash points of this run hit (0 = never: no directed family)
    for kind in cw.KINDS:
        ctx.count("kind:" + kind, 0)
    for res in results:
        if res.get("watch") and res["ref"].get("watch_points") is None:
            ctx.add_failure("oracle", "watch-reference", "C05:watch-reference-run-failed",
                            f"the uninterrupted watch session of {res['case']['name']}/{res['case']['seed']} did not "
                            f"complete: {res['ref'].get('watch_error')}", witness={"case": res["case"], "watch": True})
    for case, ref, pr in _points(results):
        if ref["error"] is not None:
            ctx.add_failure("oracle", "reference-build", "C05:reference-build-raised",
                            f"the uninterrupted reference build raised {ref['error']}", witness={"case": case})
            continue
        info = pr.get("info") or {}
        db = pr.get("db") or {}
        key = (case["name"], case["seed"], repr(pr["point"]))
        nontrivial = bool(pr["crashed"] and (info.get("kind") == "stage" or info.get("wrote") or db.get("running")
                                             or db.get("checking") or db.get("unconfirmed")))
        ctx.case(key, nontrivial=nontrivial)
        if not pr["crashed"]:
            ctx.count("point_not_reached")
            continue
        ctx.count("window:" + cc._window(info))
        ctx.count("family:" + case["name"] + ("(watch)" if info.get("watch") else ""))
        ctx.count("kind:" + cw.site_kind(info, info["kind"] == "commit" and not info.get("watch")
                                         and info["k"] <= ref["startup_commits"]))
        if db.get("running"):
            ctx.count("crash_with_RUNNING_step")
        if db.get("checking"):
            ctx.count("crash_with_CHECKING_step")
        if db.get("unconfirmed"):
            ctx.count("crash_with_UNCONFIRMED_file")
        ctx.sample({"project": case["name"], "seed": case["seed"], "point": pr["point"], "info": info,
                    "running": db.get("running"), "restart_executed": pr.get("restart_executed")})
        for f in pr["fails"]:
            n = reported.get(f["signature"], 0)
            reported[f["signature"]] = n + 1
            if n < 2:
                ctx.add_failure("oracle", "crash-restart:" + f["kind"], f["signature"],
                                f"{case['name']}/{case['seed']} killed at {info}: {f['detail']}",
                                witness={"case": case, "point": pr["point"]})
    for sig, n in reported.items():
        ctx.count("failures:" + sig, n)


def _deep(ctx):
    """Every crash point of six more projects, every startup commit of every startup family."""
    from . import e3
    rng = random.Random(f"c05-search-{ctx.seed}")
    names = [n for n, _ in cc.FAMILIES] + ["gen"]
    jobs = [{"case": cc.make_case(rng.choice(names), rng.randrange(10000))} for _ in range(6)]
    jobs += [{"case": cc.make_case("st-" + kind, rng.randrange(10000)), "sample": 0, "startup": True,
              "startup_both": True} for kind in cc.STARTUP_KINDS]
    jobs += [{"case": cc.make_case(n, 4 * rng.randrange(250)), "points": "cleanup"} for n in ("optional", "drop", "subplan")]
    jobs += [{"case": cc.make_case(n, 4 * rng.randrange(250)), "watch": True} for n in ("optional", "amend", "chain")]
    jobs.append({"case": cc.make_case("detachrun", rng.randrange(10000))})
    jobs.append({"case": cc.witness_d13(), "points": "schema", "dense": True})
    return e3.pool_map(cc.run_job, jobs, nproc=6)


def search(ctx):
    """An obligation broke and nothing above produced a new concrete witness: every crash point of
    six more projects."""
    ctx.c05_results = _deep(ctx)
    oracle(ctx)


def replay(ctx, obj):
    w = (obj.get("failure") or {}).get("witness") or obj.get("witness") or {}
    if "case" in w and "point" in w:
        ctx.c05_results = [cc.run_job({"case": w["case"], "points": [w["point"]],
                                       "watch": bool(w["point"].get("watch"))})]
    elif "case" in w and w.get("watch"):
        ctx.c05_results = [cc.run_job({"case": w["case"], "watch": True})]
    elif "case" in w:
        ctx.c05_results = [cc.run_job({"case": w["case"]})]
    correspondence(ctx)
    oracle(ctx)
