"""C16: Remote calls are answered exactly once and correctly paired."""
from __future__ import annotations

import asyncio
import logging
import os
import pickle
import tempfile
import time

from . import common
from .common import coq_bool, coq_list, coq_str

PID = "C16"
PROPS_FILE = "props/C16.v"
MODEL_TARGETS = ["model/Rpc.vo"]
RULE = ("E1 (model/Rpc.v evaluated in Coq by vm_compute versus the real stepup.core.rpc classes in-process): "
        "(a) _encode_message/_decode_header on random ids/bodies/headers; (b) the real RPCServerConnection.serve() on an "
        "asyncio.StreamReader fed with a random byte stream of requests (exposed gated coroutine, immediate procedures, "
        "non-exposed / missing / bad-argument procedures, close request, b'' body, non-RPCCall body, oversized and "
        "exactly-MAX header) cut at random points (single bytes, inside headers, whole stream), interleaved with handler "
        "completions in seeded order (ok / UsageError subclass / internal error / unpicklable result), drains that "
        "finish or fail, stop(), EOF and reader errors; after EVERY event the written replies (id, kind), queue, "
        "handlers in flight, invoked procedures, cancelled handlers, stop flag and the way serve() ended are compared "
        "with the model; (c) two real connections sharing one handler with interleaved events versus the product model; "
        "(d) the real SocketAsyncRPCClient receive loop and _pending map on in-memory streams; (e) the real "
        "SocketSyncRPCClient._recv_response on a _SocketReader with chosen recv() fragments. A case is non-trivial when "
        "at least two requests were in flight or a fault was injected; distinct by event list.")
TRUSTED_BASE = [
    "Coq 8.16.1 kernel (vm_compute in Examples and in the correspondence evaluation; no native_compute, no extraction)",
    "Print Assumptions: Closed under the global context for every C16 theorem",
    "translator/gen_rpc.py (AST shapes of the framing functions, _call_procedure, _call_and_capture_failure, "
    "RemoteFailure, _raise_remote_error, the server loops, both clients, the @allow_rpc list of DirectorHandler)",
    "hand-written model/Rpc.v of the connection and client bookkeeping, validated by E1 after every event",
    "harness/c16_driver.py (in-memory streams, gated writer, quiescence detection on the asyncio ready queue)",
    "pickle is opaque: request bodies are classified by a table, reply bodies by unpickling them in the harness",
]
ASSUMPTIONS = [
    "asyncio runs ready callbacks to completion in FIFO order; a cancelled handler terminates (it may not swallow CancelledError)",
    "liveness ('never blocks or crashes') is checked by fault injection only: the model proves that no state is stuck",
    "a reply that was queued in the very event that tears the connection down may or may not have been written (c_racy)",
    "the Unix socket is the trust boundary: bodies are unpickled (not part of this property)",
]

log = logging.getLogger("stepup.core.rpc")

# The two replayed witnesses of C16_unpicklable_result_disturbs_siblings_refuted (findings.d/C16-*.json) are latent
# defects that the coordinator has so far accepted as documented design: they are recorded as notes. Set to True
# (together with KNOWN_FINDINGS entries for the two signatures) to have them reported as failures:
#   oracle:unpicklable-result-cancels-siblings, oracle:unrenderable-exception-cancels-siblings
REPORT_LATENT_TEARDOWN = False


def generate(ctx):
    from translator import gen_rpc
    text, facts = gen_rpc.generate()
    ctx.write_gen("GenRpc.v", text)
    ctx.facts = facts
    ctx.stats["allowed_rpc"] = len(facts["allowed"])
    ctx.stats["call_procedure_steps"] = [s[0] for s in facts["steps"]]


class _Counter(logging.Handler):
    def __init__(self):
        super().__init__()
        self.messages = []

    def emit(self, record):
        self.messages.append(record.getMessage().splitlines()[0])


class _quiet:
    """Silence the expected server-side log records (they are counted, see `asyncio_errors`)."""
    asyncio_errors: list = []

    def __enter__(self):
        self.level = log.level
        log.setLevel(logging.CRITICAL)
        self.old = os.environ.pop("STEPUP_DEBUG", None)
        self.alog = logging.getLogger("asyncio")
        self.h = _Counter()
        self.alog.addHandler(self.h)
        self.prop = self.alog.propagate
        self.alog.propagate = False

    def __exit__(self, *a):
        log.setLevel(self.level)
        self.alog.removeHandler(self.h)
        self.alog.propagate = self.prop
        _quiet.asyncio_errors = _quiet.asyncio_errors + self.h.messages
        if self.old is not None:
            os.environ["STEPUP_DEBUG"] = self.old


# ---------------------------------------------------------------------------------------------
# E1
# ---------------------------------------------------------------------------------------------

def _framing_cases(ctx, n):
    from stepup.core.exceptions import RPCError
    from stepup.core.rpc import HEADER_SIZE, MAX_BODY_SIZE, _decode_header, _encode_message
    rng = ctx.rng
    checks, descr = [], []
    for k in range(n):
        if k % 2 == 0:
            cid = rng.choice([0, 1, 255, 256, 2 ** 32, 2 ** 63, 2 ** 64 - 1, rng.randrange(2 ** 64)])
            body = rng.choice([None, b"", bytes(rng.randrange(256) for _ in range(rng.randint(1, 30)))])
            data = _encode_message(cid, body)
            b = "None" if body is None else f"(Some {coq_str(body)})"
            checks.append(f"str_eqb (encode_msg {cid} {b}) {coq_str(data)}")
            descr.append(("encode", cid, None if body is None else body.hex()))
            ctx.case(("enc", cid, body), nontrivial=bool(body))
        else:
            hdr = bytes(rng.randrange(256) for _ in range(HEADER_SIZE))
            if rng.random() < 0.7:  # sizes around the limit
                size = rng.choice([0, 1, MAX_BODY_SIZE - 1, MAX_BODY_SIZE, MAX_BODY_SIZE + 1, 2 ** 33, rng.randrange(2 ** 34)])
                hdr = hdr[:8] + size.to_bytes(8, "big")
            try:
                cid, size = _decode_header(hdr)
                over = False
            except RPCError:
                cid, size, over = int.from_bytes(hdr[:8], "big"), int.from_bytes(hdr[8:], "big"), True
            checks.append(f"(let '(i, s) := decode_header {coq_str(hdr)} in (i =? {cid}) && (s =? {size}) && "
                          f"Bool.eqb (oversized s) {coq_bool(over)})")
            descr.append(("decode", hdr.hex(), over))
            ctx.case(("dec", hdr), nontrivial=True)
    return checks, descr


async def _server_batch(ctx, n, size):
    from .c16_cases import server_scenario
    from .c16_driver import run_server_events
    out = []
    for _ in range(n):
        events, msgs, stream = server_scenario(ctx.rng, size)
        obs, ended = await run_server_events(events, True, stream)
        out.append((events, msgs, stream, obs, ended))
    return out


async def _director_batch(ctx, n):
    """Two real connections on one handler object each, events interleaved by the seed."""
    from .c16_cases import server_scenario
    from .c16_driver import ServerRun, settle
    out = []
    for _ in range(n):
        scen = [server_scenario(ctx.rng, 5) for _ in range(2)]
        runs = [ServerRun(), ServerRun()]
        for r in runs:
            await r.start()
        idx = [0, 0]
        order, obs = [], []
        while idx[0] < len(scen[0][0]) or idx[1] < len(scen[1][0]):
            j = ctx.rng.randrange(2)
            if idx[j] >= len(scen[j][0]):
                j = 1 - j
            ev = scen[j][0][idx[j]]
            idx[j] += 1
            await runs[j].apply(ev, scen[j][2])
            await settle()
            order.append((j, ev))
            obs.append((runs[0].observe(), runs[1].observe()))
        ended = [await r.teardown() for r in runs]
        out.append((scen, order, obs, all(ended)))
    return out


def _director_term(scen, order, obs):
    from .c16_cases import classify_table, coq_event, coq_hex, coq_ob
    # the two streams are concatenated; fragments of connection 1 are shifted
    s0, s1 = scen[0][2], scen[1][2]
    shift = len(s0)
    evs = []
    for j, ev in order:
        if ev[0] == "recv" and j == 1:
            ev = ["recv", ev[1] + shift, ev[2]]
        evs.append(f"({j}%nat, {coq_event(ev)})")
    tbl = classify_table(scen[0][1] + scen[1][1])
    final0, final1 = obs[-1] if obs else (None, None)
    if final0 is None:
        return "true"
    return (f"let stream : str := {coq_hex(s0 + s1)} in let tbl := {tbl} in "
            f"match run_director (assoc tbl) hlookup [conn_init; conn_init] {coq_list(evs)} with "
            f"| [c0; c1] => ob_ok c0 ({coq_ob(final0)}) && ob_ok c1 ({coq_ob(final1)}) | _ => false end")


async def _client_batch(ctx, n):
    from .c16_cases import client_scenario
    from .c16_driver import run_client_events
    out = []
    for _ in range(n):
        events, stream, bodies = client_scenario(ctx.rng, 6)
        evs = [(["recv", stream[e[1]:e[1] + e[2]]] if e[0] == "recv" else e) for e in events]
        obs, ok, close_result = await run_client_events(evs)
        out.append((events, stream, bodies, obs, ok, close_result))
    return out


def _real_server_invariants(events, msgs, obs):
    """The property itself on the implementation's own trace (independent of the model)."""
    sent_ids = {}
    for m in msgs:
        if m[2] not in (None, "bad"):
            cid = int.from_bytes(m[0][:8], "big")
            sent_ids[cid] = sent_ids.get(cid, 0) + 1
    problems = []
    for k, o in enumerate(obs):
        seen = {}
        for cid, _ in o["sent"]:
            seen[cid] = seen.get(cid, 0) + 1
        for cid, c in seen.items():
            if c > sent_ids.get(cid, 0):
                problems.append(f"after event {k}: call id {cid} has {c} replies for {sent_ids.get(cid, 0)} requests")
        if k and obs[k - 1]["sent"] != o["sent"][:len(obs[k - 1]["sent"])]:
            problems.append(f"after event {k}: written replies are not an extension of the earlier ones")
        for name in o["invoked"]:
            if name not in ("work", "quick"):
                problems.append(f"after event {k}: non-exposed procedure {name} was invoked")
    return problems


def correspondence(ctx):
    from .c16_cases import (COQ_HEADER, COQ_HEADER_CLIENT, client_check_term, server_check_term,
                            sync_check_term, sync_scenario)
    from .c16_driver import run, run_sync_recv
    t0 = time.time()

    def lap(name):
        nonlocal t0
        ctx.stats["t_" + name] = round(time.time() - t0, 1)
        t0 = time.time()
    with _quiet():
        # (a) framing
        checks, descr = _framing_cases(ctx, ctx.scale(200, 3000))
        bad = common.run_cases(ctx, "frame", COQ_HEADER, checks)
        ctx.count("E1_framing", len(checks))
        ctx.traces_validated += len(checks) - len(bad)
        for i in bad[:3]:
            ctx.add_failure("correspondence", "E1:framing", f"E1:framing:{descr[i][0]}",
                            f"model and implementation disagree on {descr[i]!r}", witness={"case": descr[i]})
        lap("framing")
        # (b) one connection
        cases = run(_server_batch(ctx, ctx.scale(200, 2500), 8), timeout=ctx.scale(300, 1500))
        checks = []
        for events, msgs, stream, obs, ended in cases:
            nreq = sum(1 for m in msgs if m[2] not in (None, "bad"))
            fault = any(e[0] in ("stop", "peergone", "garbage", "sentfail") for e in events) or \
                any(m[3] in ("close", "badbody", "maxsize", "close(b'')") or m[3].startswith("oversize") for m in msgs)
            ctx.case(("srv", repr(events), stream), nontrivial=nreq >= 2 or fault)
            ctx.count("srv_status:" + obs[-1]["status"].split(":")[0])
            ctx.count("srv_events", len(events))
            ctx.count("srv_requests", nreq)
            if fault:
                ctx.count("srv_cases_with_fault")
            if not ended:
                ctx.add_failure("oracle", "serve-did-not-end", "oracle:serve-did-not-end",
                                "serve() did not end after EOF, stop and the release of every gate",
                                witness={"events": _jsonable(events), "stream": stream.hex()})
            for p in _real_server_invariants(events, msgs, obs)[:1]:
                ctx.add_failure("oracle", "reply-trace", "oracle:reply-trace:" + p.split(":")[1].strip()[:40], p,
                                witness={"events": _jsonable(events), "stream": stream.hex()})
            checks.append(server_check_term(events, msgs, stream, obs))
        ctx.sample({"E1-server": {"messages": [m[3] for m in cases[0][1]], "events": _jsonable(cases[0][0])[:12],
                                  "final": {k: v for k, v in cases[0][3][-1].items() if k in ("sent", "status", "cancelled")}}})
        bad = common.run_cases(ctx, "srv", COQ_HEADER, checks, chunk=40)
        ctx.count("E1_server", len(checks))
        ctx.traces_validated += len(checks) - len(bad)
        for i in bad[:3]:
            events, msgs, stream, obs, _ = cases[i]
            k = _first_bad_event(ctx, events, msgs, stream, obs)
            ctx.add_failure("correspondence", "E1:server-connection", "E1:server-connection",
                            f"model and RPCServerConnection disagree after event {k} of {_jsonable(events)}; "
                            f"messages {[m[3] for m in msgs]}; observed {obs[k] if k is not None else obs[-1]}",
                            witness={"events": _jsonable(events), "stream": stream.hex(),
                                     "messages": [m[3] for m in msgs], "first_disagreement": k})
        lap("server")
        # (c) two connections
        dcases = run(_director_batch(ctx, ctx.scale(40, 600)), timeout=ctx.scale(300, 1500))
        checks = [_director_term(s, o, ob) for s, o, ob, _ in dcases]
        for s, o, ob, ended in dcases:
            ctx.case(("dir", repr(o)), nontrivial=len(o) > 4)
            if not ended:
                ctx.add_failure("oracle", "serve-did-not-end", "oracle:serve-did-not-end",
                                "serve() of one of two connections did not end", witness={"events": _jsonable(o)})
        bad = common.run_cases(ctx, "dir", COQ_HEADER, checks, chunk=20)
        ctx.count("E1_two_connections", len(checks))
        ctx.traces_validated += len(checks) - len(bad)
        for i in bad[:2]:
            ctx.add_failure("correspondence", "E1:two-connections", "E1:two-connections",
                            f"two interleaved connections differ from the product of the models: {_jsonable(dcases[i][1])}",
                            witness={"order": _jsonable(dcases[i][1]),
                                     "streams": [dcases[i][0][0][2].hex(), dcases[i][0][1][2].hex()]})
        lap("director")
        # (d) asynchronous client
        ccases = run(_client_batch(ctx, ctx.scale(150, 2000)), timeout=ctx.scale(300, 1500))
        checks = []
        for events, stream, bodies, obs, ok, close_result in ccases:
            ctx.case(("cli", repr(events), stream), nontrivial=sum(1 for e in events if e[0] == "call") >= 2)
            ctx.count("cli_end:" + ("failed" if obs[-1]["failed"] else "alive" if obs[-1]["alive"] else "ended"))
            checks.append(client_check_term(events, stream, bodies, obs))
            # a call made after the loop ended must raise, never wait
            if any(x == "no-exception" for x in obs[-1]["late"]):
                ctx.add_failure("oracle", "client-late-call", "oracle:client-late-call-does-not-raise",
                                "a call made after the receive loop ended did not raise",
                                witness={"events": _jsonable(events), "stream": stream.hex()})
        ctx.sample({"E1-client": {"events": _jsonable(ccases[0][0])[:10], "done": repr(ccases[0][3][-1]["done"])[:200]}})
        bad = common.run_cases(ctx, "cli", COQ_HEADER_CLIENT, checks, chunk=50)
        ctx.count("E1_client", len(checks))
        ctx.traces_validated += len(checks) - len(bad)
        for i in bad[:3]:
            events, stream, bodies, obs, ok, close_result = ccases[i]
            ctx.add_failure("correspondence", "E1:async-client", "E1:async-client",
                            f"model and SocketAsyncRPCClient disagree on {_jsonable(events)}: final {obs[-1]}",
                            witness={"events": _jsonable(events), "stream": stream.hex()})
        lap("client")
        # (e) synchronous client
        sc = [sync_scenario(ctx.rng) for _ in range(ctx.scale(200, 3000))]
        real = [run_sync_recv(f, e) for f, e in sc]
        for (f, e), r in zip(sc, real):
            ctx.case(("sync", tuple(f), tuple(e)), nontrivial=len(f) > 1)
        bad = common.run_cases(ctx, "sync", COQ_HEADER_CLIENT,
                               [sync_check_term(f, e, r) for (f, e), r in zip(sc, real)], chunk=150)
        ctx.count("E1_sync_client", len(sc))
        ctx.traces_validated += len(sc) - len(bad)
        for i in bad[:3]:
            pass
        lap("sync")
        for i in bad[:3]:
            ctx.add_failure("correspondence", "E1:sync-client", "E1:sync-client",
                            f"model and SocketSyncRPCClient._recv_response disagree: fragments "
                            f"{[x.hex() for x in sc[i][0]]} expected ids {sc[i][1]} real {real[i]!r}",
                            witness={"fragments": [x.hex() for x in sc[i][0]], "expected": sc[i][1]})


def _jsonable(events):
    out = []
    for e in events:
        if isinstance(e, tuple):
            out.append([e[0], _jsonable([e[1]])[0]])
        else:
            out.append([x.hex() if isinstance(x, bytes) else x for x in e])
    return out


def _first_bad_event(ctx, events, msgs, stream, obs):
    """Shrink: the shortest prefix of the event list on which model and implementation disagree."""
    from .c16_cases import COQ_HEADER, server_check_term
    checks = [server_check_term(events[:k], msgs, stream, obs[:k + 1]) for k in range(len(events) + 1)]
    try:
        bad = common.run_cases(ctx, "shrink", COQ_HEADER, checks, chunk=400)
    except RuntimeError:
        return None
    return bad[0] if bad else None


# ---------------------------------------------------------------------------------------------
# Oracle on the implementation
# ---------------------------------------------------------------------------------------------

async def _oracle_socket(ctx, tmp):
    """Real SocketRPCServer on a Unix socket: pairing under load, error classes, refusals, faults."""
    from stepup.core.exceptions import CyclicError, GraphError, RPCError
    from stepup.core.rpc import SocketAsyncRPCClient, SocketRPCServer, SocketSyncRPCClient
    from .c16_driver import Handler
    problems = []
    T = 60
    path = os.path.join(tmp, "sock")
    handler = Handler()
    stop = asyncio.Event()
    server = asyncio.create_task(SocketRPCServer(handler, path).serve(stop))
    for _ in range(2000):
        if os.path.exists(path):
            break
        await asyncio.sleep(0.005)
    ncall = ctx.scale(24, 120)

    async def wait_started(n):
        async def poll():
            while len(handler.invoked) < n:
                await asyncio.sleep(0)
        await asyncio.wait_for(poll(), T)

    async with SocketAsyncRPCClient(path) as client:
        outcomes = [ctx.rng.choice(["ok", "ok", "usage", "usage2", "internal"]) for _ in range(ncall)]
        tasks = [asyncio.create_task(client.call.work(100 + i)) for i in range(ncall)]
        await wait_started(ncall)
        order = list(range(ncall))
        ctx.rng.shuffle(order)
        for i in order:
            handler.release(100 + i, outcomes[i])
        res = await asyncio.wait_for(asyncio.gather(*tasks, return_exceptions=True), T)
        for i, (oc, r) in enumerate(zip(outcomes, res)):
            want = {"ok": ("ok", 100 + i), "usage": CyclicError, "usage2": GraphError, "internal": RPCError}[oc]
            good = (r == want) if oc == "ok" else (type(r) is want and (oc == "internal" or str(r).endswith(str(100 + i))))
            ctx.case(("oracle-pair", i, oc), True)
            if not good:
                problems.append(("pairing", f"call work({100 + i}) completing as {oc} returned {r!r}"))
        # refusals
        for name in ("hidden", "hidden_async", "nosuch", "not_callable", "__init__", "release"):
            n0 = len(handler.invoked)
            try:
                r = await asyncio.wait_for(client(name, 1), T)
                problems.append(("not-exposed", f"non-exposed procedure {name} was answered with {r!r}"))
            except RPCError:
                pass
            except Exception as e:  # noqa: BLE001
                problems.append(("not-exposed", f"non-exposed procedure {name} raised {type(e).__name__}"))
            if len(handler.invoked) != n0:
                problems.append(("not-exposed", f"non-exposed procedure {name} was invoked"))
            ctx.case(("oracle-refuse", name), True)
    # faults: garbage header, bad body, vanish mid-message, vanish with a call in flight
    async def raw(data, wait_reply=False):
        r, w = await asyncio.open_unix_connection(path)
        w.write(data)
        await w.drain()
        got = b""
        if wait_reply:
            got = await asyncio.wait_for(r.read(), T)  # until the server closes
        w.close()
        try:
            await w.wait_closed()
        except ConnectionError:
            pass
        return got
    from .c16_driver import request
    before = len(handler.invoked)
    await raw((7).to_bytes(8, "big") + (2 ** 40).to_bytes(8, "big") + b"junk", wait_reply=True)
    await raw((7).to_bytes(8, "big") + (5).to_bytes(8, "big") + b"hello", wait_reply=True)
    await raw(request(1, "work", 900)[:-3])                 # vanish in the middle of a body
    await raw(b"\x00\x00\x00")                              # vanish in the middle of a header
    await raw(request(1, "work", 901))                      # vanish with a call in flight
    await wait_started(before + 1)
    handler.release(901, "ok")
    ctx.case(("oracle-faults",), True)
    # the server still serves: a synchronous client in a thread, with error classes
    def sync_calls():
        out = []
        with SocketSyncRPCClient(path) as c:
            out.append(c.call.quick(5, _rpc_timeout=T))
            for oc, cls in (("usage", CyclicError), ("usage2", GraphError), ("internal", RPCError)):
                try:
                    c.call.quick(6, oc, _rpc_timeout=T)
                    out.append("no exception")
                except Exception as e:  # noqa: BLE001
                    out.append(type(e) is cls)
            try:
                c.call.hidden(1, _rpc_timeout=T)
                out.append("no exception")
            except RPCError:
                out.append(True)
        return out
    got = await asyncio.wait_for(asyncio.to_thread(sync_calls), T)
    if got != [("ok", 5), True, True, True, True]:
        problems.append(("after-faults", f"the server did not serve a second (synchronous) client correctly: {got!r}"))
    ctx.case(("oracle-sync-after-faults",), True)
    stop.set()
    try:
        await asyncio.wait_for(server, T)
    except Exception as e:  # noqa: BLE001
        problems.append(("server-end", f"SocketRPCServer.serve raised {type(e).__name__}: {e}"))
    return problems


async def _oracle_director_names(ctx):
    """Every attribute of the real DirectorHandler that is not in the generated list is refused."""
    import attrs
    from stepup.core.director import DirectorHandler
    from stepup.core.rpc import is_rpc_allowed
    from .c16_driver import ServerRun, request, settle, split_messages
    problems = []
    real_allowed = {n for n in dir(DirectorHandler) if is_rpc_allowed(getattr(DirectorHandler, n, None))}
    # no generated list when the translator failed closed: nothing to compare (the refusals below still run)
    allowed = set(ctx.facts["allowed"]) if hasattr(ctx, "facts") else real_allowed
    if allowed != real_allowed:
        problems.append(("allow-list", f"generated @allow_rpc list differs from the marked attributes: "
                                       f"{sorted(allowed ^ real_allowed)}"))
    kwargs = {f.alias: None for f in attrs.fields(DirectorHandler) if f.init and f.default is attrs.NOTHING}
    handler = DirectorHandler(**kwargs)
    names = sorted(n for n in dir(handler) if n not in real_allowed)
    run_ = ServerRun(handler=handler, gated=False)
    await run_.start()
    data = b"".join(request(i + 1, n) for i, n in enumerate(names))
    run_.reader.feed_data(data)
    await settle()
    replies, _ = split_messages(run_.writer.written)
    if [cid for cid, _ in replies] != list(range(1, len(names) + 1)):
        problems.append(("refusal", f"{len(replies)} replies for {len(names)} non-exposed names"))
    for (cid, body), n in zip(replies, names):
        ctx.case(("director-refuse", n), True)
        obj = pickle.loads(body) if body else None
        ok = getattr(obj, "qualname", None) == "RPCError" and ("not allowed" in obj.message or "Unknown" in obj.message)
        if not ok:
            problems.append(("refusal", f"DirectorHandler.{n} is not exposed but the call was not refused: {obj!r}"))
    run_.reader.feed_eof()
    await settle()
    if not run_.task.done():
        problems.append(("refusal", "connection did not end"))
    else:
        run_.task.exception()
    ctx.stats["director_non_exposed_names_refused"] = len(names)
    return problems


async def _oracle_badstr_witness(ctx):
    """A handler exception that cannot be rendered (str(exc) raises): RemoteFailure.from_exception raises inside
    _call_and_capture_failure, the send loop tears the connection down and the sibling calls are cancelled.
    Same model behaviour as the unpicklable result (the completed task cannot be turned into a reply)."""
    from .c16_driver import request, run_server_events
    stream = request(1, "work", 1) + request(2, "work", 2) + request(3, "work", 3)
    obs, ended = await run_server_events([["recv", stream], ["complete", 2, "badstr"], ["sent"]])
    o = obs[-1]
    return (o["sent"] == [(2, "sentinel")] and o["cancelled"] == [1, 3] and o["status"].startswith("failed")), o


async def _oracle_refuted_witness(ctx):
    """Replay of C16_unpicklable_result_disturbs_siblings_refuted on the real connection."""
    from .c16_driver import request, run_server_events
    stream = request(1, "work", 1) + request(2, "work", 2) + request(3, "work", 3)
    obs, ended = await run_server_events([["recv", stream], ["complete", 2, "unpicklable"], ["sent"]])
    o = obs[-1]
    return (o["sent"] == [(2, "sentinel")] and o["cancelled"] == [1, 3] and o["status"].startswith("failed")), o


def oracle(ctx):
    from .c16_driver import run
    t0 = time.time()
    with _quiet():
        from . import c16_impl
        with tempfile.TemporaryDirectory(prefix="verif-c16-") as tmp:
            impl = c16_impl.run_all(ctx, tmp)
    _report_impl(ctx, impl)
    with _quiet():
        with tempfile.TemporaryDirectory(prefix="verif-c16-") as tmp:
            problems = run(_oracle_socket(ctx, tmp), timeout=600)
        problems += run(_oracle_director_names(ctx), timeout=300)
        same, o = run(_oracle_refuted_witness(ctx), timeout=120)
        same2, o2 = run(_oracle_badstr_witness(ctx), timeout=120)
    ctx.notes.append("second witness of the same refuted clause (a handler exception whose str() raises makes "
                     "_call_and_capture_failure raise; sentinel to the caller, siblings cancelled): "
                     + ("reproduced" if same2 else f"NOT reproduced (the code was repaired?): {o2['sent']} {o2['status']}"))
    if same2 and REPORT_LATENT_TEARDOWN:
        ctx.add_failure("oracle", "exception-without-str", "oracle:unrenderable-exception-cancels-siblings",
                        "a handler raised an exception whose str() raises: RemoteFailure.from_exception raised inside "
                        "_call_and_capture_failure, the caller got the sentinel, the connection was torn down and the "
                        f"sibling calls 1 and 3 were cancelled: {o2['sent']} {o2['status']} cancelled {o2['cancelled']}",
                        witness={"events": [["recv", "request(1, work) + request(2, work) + request(3, work)"],
                                            ["complete", 2, "badstr"], ["sent"]], "obs": repr(o2)})
    ctx.notes.append("witness of C16_unpicklable_result_disturbs_siblings_refuted replayed on RPCServerConnection: "
                     + ("reproduced (sentinel to the caller, sibling handlers cancelled, serve() raises)" if same
                        else f"NOT reproduced: {o}"))
    if same and REPORT_LATENT_TEARDOWN:
        ctx.add_failure("oracle", "unpicklable-result", "oracle:unpicklable-result-cancels-siblings",
                        f"an unpicklable result tore the connection down and cancelled the sibling calls: {o}",
                        witness={"events": [["recv", "request(1, work) + request(2, work) + request(3, work)"],
                                            ["complete", 2, "unpicklable"], ["sent"]], "obs": repr(o)})
    if not same:
        ctx.add_failure("oracle", "refuted-witness", "oracle:refuted-witness-not-reproduced",
                        f"the model's witness for the unpicklable-result teardown does not replay: {o}", witness={"obs": repr(o)})
    seen = set()
    for kind, text in problems:
        if kind in seen:
            continue
        seen.add(kind)
        ctx.add_failure("oracle", kind, f"oracle:{kind}", text, witness={"problem": text})
    ctx.stats["t_oracle"] = round(time.time() - t0, 1)
    unhandled = sum(1 for m in _quiet.asyncio_errors if "Unhandled exception in client_connected_cb" in m)
    ctx.stats["asyncio_unhandled_exception_in_client_connected_cb"] = unhandled
    ctx.notes.append(f"a malformed frame makes RPCServerConnection.serve() raise out of SocketRPCServer._serve_connection: "
                     f"asyncio logged 'Unhandled exception in client_connected_cb' {unhandled} times during the socket "
                     "oracle (the server kept serving); in a director this is an ERROR record in the director log")
    ctx.sample({"oracle": "socket server with concurrent calls, refusals, faults, second client", "problems": len(problems)})


def _report_impl(ctx, problems):
    seen = set()
    for kind, text, wit in problems:
        if kind in seen:
            continue
        seen.add(kind)
        ctx.add_failure("oracle", "impl:" + kind.split(":")[0], f"oracle:impl:{kind}", text, witness=wit)


def search(ctx):
    """An obligation broke and nothing above produced a witness: the implementation-only families at a larger scale,
    then a deeper run of the reply-trace oracle."""
    from . import c16_impl
    from .c16_driver import run
    with _quiet():
        with tempfile.TemporaryDirectory(prefix="verif-c16-") as tmp:
            impl = c16_impl.run_all(ctx, tmp, deep=True)
    _report_impl(ctx, impl)
    if impl:
        return
    with _quiet():
        cases = run(_server_batch(ctx, 3000, 10), timeout=900)
    for events, msgs, stream, obs, ended in cases:
        ps = _real_server_invariants(events, msgs, obs)
        if ps or not ended:
            ctx.add_failure("oracle", "reply-trace", "oracle:reply-trace:search", ps[0] if ps else "serve() did not end",
                            witness={"events": _jsonable(events), "stream": stream.hex()})
            return


def replay(ctx, obj):
    from .c16_driver import run, run_server_events
    w = obj["failure"].get("witness") or {}
    print("replaying", str(w)[:400])
    if "events" in w and "stream" in w and "messages" in w:
        stream = bytes.fromhex(w["stream"])
        events = [[bytes.fromhex(x) if isinstance(x, str) and i and e[0] == "recv" else x for i, x in enumerate(e)]
                  for e in w["events"]]
        with _quiet():
            obs, ended = run(run_server_events(events, True, stream))
        for e, o in zip([None] + events, obs):
            print("  ", e, "->", {k: o[k] for k in ("sent", "in_flight", "cancelled", "status")})
    correspondence(ctx)
    oracle(ctx)
