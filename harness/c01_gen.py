"""C01: the E3 project / history generator, widened.

``gen_case`` has the interface of ``e3_gen.gen_case`` and produces the same kinds of projects and
edits (it IS that generator, subclassed), plus:

  * steps that track 2-3 environment variables: declared (``env=[...]``), amended by a script
    step (``amend(env=[...])``), or both.  A plain step that *reads* its variables carries them in
    its label (``t7 $VA $VC``, like a shell command would), so its behaviour stays a function of
    its label; script steps read theirs through the script file, which is an input;
  * phases that change SEVERAL things of one step at once -- all tracked variables of a step, or
    all source files it reads (same-size contents) -- and later phases that put a SUBSET of them
    back to the values they had before (A -> B -> A on some, A -> B on the others);
  * edits of the SCRIPT of a script step that change the set of variables it amends (one dropped,
    all dropped, one added, one replaced) while its declaration stays as it was;
  * steps whose command reads VX, VY and whose definition carries environment overrides for them
    (leading VAR=value words or the env_overrides argument, through ``c01_overrides.client_step``),
    and plan edits that remove all / remove one / change / add overrides of such a step.

``gen_subset_case`` is the small focused family of the same shape (1-3 steps, one multi-change,
an optional unrelated phase, one subset revert, an optional last phase).
"""
from __future__ import annotations

import copy
import random

from . import e3_gen
from .c01_overrides import NAMES as OVR_NAMES, client_step
from .c01_replace import same_size_text
from .e3 import Project

ENV_NAMES = ["VA", "VB", "VC", "VD"]


# ---------------------------------------------------------------------------------------------
# Rendering: plain steps that read their variables
# ---------------------------------------------------------------------------------------------


def env_label(uid, env) -> str:
    return f"t{uid} " + " ".join("$" + n for n in env)


def render(units: list) -> dict:
    prog = e3_gen.render(units)
    steps = e3_gen._all_steps(units)
    readers = {f"t{u['id']}": u for u in steps if u["k"] == "step" and u.get("reads_env") and u.get("env")}
    # steps whose command reads the overridable variables VX, VY; their definition may carry
    # environment overrides (unit["ovr"], None = none), written as leading VAR=value words of
    # the command or as the env_overrides argument (unit["ovr_form"]): see c01_overrides
    ovr_units = {(f"t{u['id']}" if u["k"] == "step" else f"./w{u['id']}.py"): u for u in steps if u.get("reads_ovr")}
    if not readers and not ovr_units:
        return prog
    for actions in prog["scripts"].values():
        for i, a in enumerate(actions):
            base = a.get("label")
            if a.get("op") == "step" and base in readers and a.get("env"):
                label = env_label(readers[base]["id"], a["env"])
                prog["commands"][label] = [{"op": "getenv", "name": n} for n in a["env"]] + [{"op": "auto"}]
                a["label"] = label
            if a.get("op") in ("step", "run") and base in ovr_units:
                u = ovr_units[base]
                reads = [{"op": "getenv", "name": n} for n in OVR_NAMES]
                if a["op"] == "step":
                    body = prog["commands"].get(a["label"], [{"op": "auto"}])
                    prog["commands"][a["label"]] = [x for x in body if x["op"] != "auto"] + reads + [{"op": "auto"}]
                else:
                    body = prog["scripts"][base[2:]]
                    k = next(j for j, x in enumerate(body) if x["op"] == "auto")
                    prog["scripts"][base[2:]] = body[:k] + reads + body[k:]
                actions[i] = client_step(a, u.get("ovr"), u.get("ovr_form", "argument"))
    return prog


def _same_size_variant(text: str) -> str:
    """Another content of the same length in e3_gen's format 'content of <p> v<N>\\n'."""
    head, _, num = text.rstrip("\n").rpartition("v")
    if not num.isdigit():
        return text[:-2] + ("x" if text[-2:-1] != "x" else "y") + "\n"
    n = int(num)
    for cand in (n + 1, n - 1, n + 2):
        if cand >= 0 and len(str(cand)) == len(num):
            return f"{head}v{cand}\n"
    return f"{head}v{n + 1}\n"


# ---------------------------------------------------------------------------------------------
# The widened generator
# ---------------------------------------------------------------------------------------------


class _Gen(e3_gen._Gen):
    def __init__(self, seed, stats, watch_safe: bool = False):
        super().__init__(seed, stats)
        self.watch_safe = watch_safe
        self.multi = None        # ("env", {name: previous value}) | ("src", {path: previous content})
        self.fresh = 10          # counter of never-used variable values
        # a separate stream for the edits added later, so that the histories of the base stream
        # keep their shape
        self.rng2 = random.Random(f"c01-gen-amend-env-{seed}")
        self.rng3 = random.Random(f"c01-gen-overrides-{seed}")
        self.ovr_fresh = 0
        self.rng4 = random.Random(f"c01-gen-replace-{seed}")
        self.replace_n = 0

    # units -----------------------------------------------------------------------------------
    def make_step(self, avail, *, script=None):
        unit = super().make_step(avail, script=script)
        rng = self.rng
        if rng.random() < 0.4:
            unit["env"] = sorted(rng.sample(ENV_NAMES, rng.randint(2, 3)))
            if "amend_env" in unit:
                unit["amend_env"] = [n for n in unit["amend_env"] if n not in unit["env"]]
        if unit["k"] == "script" and rng.random() < 0.35:
            rest = [n for n in ENV_NAMES if n not in unit.get("env", [])]
            unit["amend_env"] = sorted(rng.sample(rest, min(len(rest), rng.randint(2, 3))))
        if unit["k"] == "step" and unit.get("env") and rng.random() < 0.7:
            unit["reads_env"] = True
        if unit["k"] in ("step", "script") and self.rng3.random() < 0.3:
            unit["reads_ovr"] = True
            unit["ovr_form"] = "prefix" if unit["k"] == "script" or self.rng3.random() < 0.3 else "argument"
            unit["ovr"] = {n: self._ovr_value() for n in OVR_NAMES if self.rng3.random() < 0.6} or None
            self.stats.units["reads-overrides"] += 1
        n = len(unit.get("env", [])) + len(unit.get("amend_env", []))
        if n >= 2:
            self.stats.units["tracks-%d-vars" % min(n, 4)] += 1
        return unit

    def initial(self):
        super().initial()
        if self.rng.random() < 0.6:
            self.env["VD"] = "vd0"

    # multi-change / subset-revert phases -----------------------------------------------------
    def _tracked(self, u) -> list:
        return sorted(set(u.get("env", [])) | set(u.get("amend_env", [])))

    def _src_inputs(self, u) -> list:
        return sorted(p for p in set(u.get("inp", [])) | set(u.get("amend_inp", [])) if p in self.sources)

    def multi_change(self) -> list:
        rng = self.rng
        steps = e3_gen._all_steps(self.units)
        what = "src" if self.watch_safe or rng.random() < 0.35 else "env"
        edits = []
        if what == "env":
            cands = [self._tracked(u) for u in steps if len(self._tracked(u)) >= 2]
            names = rng.choice(cands) if cands and rng.random() < 0.85 else sorted(rng.sample(ENV_NAMES, rng.randint(2, 4)))
            self.multi = ("env", {n: self.env.get(n) for n in names})
            for n in names:
                self.fresh += 1
                self.env[n] = f"{n.lower()}{self.fresh}"
                edits.append({"op": "setenv", "name": n, "value": self.env[n]})
            self.stats.edits["env_multi"] += 1
        else:
            cands = [self._src_inputs(u) for u in steps if len(self._src_inputs(u)) >= 2]
            if cands and rng.random() < 0.85:
                paths = rng.choice(cands)
            else:
                files = sorted(p for p in self.sources if not p.endswith("/"))
                paths = sorted(rng.sample(files, min(len(files), rng.randint(2, 3))))
            if not paths:
                return []
            self.multi = ("src", {p: self.sources[p] for p in paths})
            for p in paths:
                self.sources[p] = _same_size_variant(self.sources[p])
                edits.append({"op": "write", "path": p, "content": self.sources[p]})
            self.stats.edits["src_multi"] += 1
        return edits

    def revert_subset(self) -> list:
        rng = self.rng
        what, old = self.multi
        self.multi = None
        names = sorted(old)
        k = rng.randint(1, len(names) - 1) if len(names) > 1 and rng.random() < 0.85 else len(names)
        edits = []
        for n in sorted(rng.sample(names, k)):
            if what == "env":
                self.env[n] = old[n]
                edits.append({"op": "setenv", "name": n, "value": old[n]})
            elif n in self.sources:
                self.sources[n] = old[n]
                edits.append({"op": "write", "path": n, "content": old[n]})
        self.stats.edits["revert_subset_" + what] += 1
        return edits

    def _ovr_value(self) -> str:
        self.ovr_fresh += 1
        return f"ov{self.ovr_fresh}"

    def override_change(self) -> bool:
        """The plan is edited so that a step gets other environment overrides: all removed (most
        often), one removed, one changed, one added; the rest of its definition stays."""
        rng = self.rng3
        cands = [u for u in e3_gen._all_steps(self.units) if u.get("reads_ovr")]
        if not cands:
            return False
        with_ovr = [u for u in cands if u.get("ovr")]
        u = rng.choice(with_ovr) if with_ovr and rng.random() < 0.8 else rng.choice(cands)
        cur = dict(u.get("ovr") or {})
        how = rng.choice(["remove-all", "remove-all", "remove-one", "change", "add"]) if cur else "add"
        if how == "add" and len(cur) == len(OVR_NAMES):
            how = "change"
        if how == "remove-one" and len(cur) < 2:
            how = "remove-all"
        if how == "remove-all":
            cur = {}
        elif how == "remove-one":
            del cur[rng.choice(sorted(cur))]
        elif how == "change":
            cur[rng.choice(sorted(cur))] = self._ovr_value()
        else:
            cur[rng.choice([n for n in OVR_NAMES if n not in cur])] = self._ovr_value()
        u["ovr"] = cur or None
        self.stats.edits["overrides_" + how] += 1
        return True

    def amend_env_change(self) -> bool:
        """The script of a script step is edited so that it amends ANOTHER set of variables: one
        is dropped, all are dropped, one is added, one is replaced (the step itself stays declared
        as it was; only its script, a static input, changes)."""
        rng = self.rng2
        scripts = [u for u in e3_gen._all_steps(self.units) if u["k"] == "script"]
        if not scripts:
            return False
        with_amend = [u for u in scripts if u.get("amend_env")]
        u = rng.choice(with_amend) if with_amend and rng.random() < 0.8 else rng.choice(scripts)
        cur = list(u.get("amend_env", []))
        rest = [n for n in ENV_NAMES if n not in cur and n not in u.get("env", [])]
        how = rng.choice(["drop-one", "drop-one", "drop-all", "add", "replace"])
        if how in ("drop-one", "replace") and not cur or how == "drop-all" and not cur:
            how = "add"
        if how in ("add", "replace") and not rest:
            how = "drop-one" if cur else None
        if how is None:
            return False
        if how == "drop-one":
            cur.remove(rng.choice(cur))
        elif how == "drop-all":
            cur = []
        elif how == "add":
            cur.append(rng.choice(rest))
        else:
            cur.remove(rng.choice(cur))
            cur.append(rng.choice(rest))
        u["amend_env"] = sorted(cur)
        self.stats.edits["amend_env_" + how] += 1
        return True

    def edit_phase(self) -> list:
        rng = self.rng
        x = rng.random()
        pre = []
        if self.multi is not None:
            if x < 0.55:
                pre = self.revert_subset()
            elif x < 0.65:
                pre = self.multi_change()
        elif x < 0.35:
            pre = self.multi_change()
        if pre and rng.random() < 0.6:
            return pre
        edits = super().edit_phase()
        if self.rng2.random() < 0.18 and self.amend_env_change() and \
                not any(e["op"] == "program" for e in edits):
            edits.append({"op": "program", "program": None})
        # a source is REPLACED by another file of the same size, mode and mtime (c01_replace)
        if self.rng4.random() < 0.12:
            files = sorted(p for p in self.sources if not p.endswith("/") and len(self.sources[p]) > 6
                           and not any(e.get("path") == p for e in edits))
            if files:
                p = self.rng4.choice(files)
                self.replace_n += 1
                self.sources[p] = same_size_text(self.sources[p], self.replace_n)
                edits.append({"op": "replace_keep", "path": p, "content": self.sources[p]})
                self.stats.edits["replace_keep"] += 1
        if self.rng3.random() < 0.15 and self.override_change() and \
                not any(e["op"] == "program" for e in edits):
            edits.append({"op": "program", "program": None})
        for e in edits:
            if e["op"] == "program":
                e["program"] = render(self.units)
        # a multi-change whose paths the base phase deleted is forgotten
        if self.multi is not None and self.multi[0] == "src":
            self.multi = ("src", {p: c for p, c in self.multi[1].items() if p in self.sources}) \
                if any(p in self.sources for p in self.multi[1]) else None
        return pre + edits


def gen_case(seed: int, stats: e3_gen.Stats | None = None, *, max_phases: int = 6,
             watch_safe: bool = False) -> tuple[Project, list]:
    g = _Gen(seed, stats, watch_safe)
    g.initial()
    project = Project(sources=dict(g.sources), program=render(g.units), env=dict(g.env))
    g.stats.ncases += 1
    for u in g.units:
        g.stats.units[u["k"]] += 1
        if u["k"] == "subplan":
            for sub in u["units"]:
                g.stats.units["sub:" + sub["k"]] += 1
    g.stats.nsteps[len(e3_gen._all_steps(g.units))] += 1
    history = []
    nphase = g.rng.randint(1, max_phases)
    if g.rng.random() < 0.7:
        nphase = max(nphase, min(3, max_phases))
    g.stats.nphases[nphase] += 1
    for _ in range(nphase):
        edits = g.edit_phase()
        if watch_safe:
            edits = [e for e in edits if e["op"] != "setenv"]
        history.append({"edits": copy.deepcopy(edits)})
    return project, history


# ---------------------------------------------------------------------------------------------
# The focused family
# ---------------------------------------------------------------------------------------------


def gen_subset_case(rng: random.Random) -> tuple[Project, list, dict]:
    """(project, history, description): 1-3 steps tracking 2-3 variables each (declared, amended
    or both) and reading 1-3 source files; one phase changes all variables (or all source inputs,
    same size) of one step, an optional unrelated phase, one phase reverts a subset, an optional
    last phase."""
    names = ["VA", "VB", "VC"]
    sources = {f"s{i}.txt": f"content of s{i}.txt v0\n" for i in range(rng.randint(2, 3))}
    env = {n: f"{n.lower()}0" for n in names if rng.random() < 0.8}
    units: list = [{"k": "static", "files": sorted(sources)}]
    steps = []
    avail = sorted(sources)
    for i in range(1, rng.randint(1, 3) + 1):
        script = rng.random() < 0.5
        tracked = sorted(rng.sample(names, rng.randint(2, 3)))
        inp = sorted(rng.sample(avail, rng.randint(1, min(3, len(avail)))))
        u = {"k": "script" if script else "step", "id": i, "inp": inp, "out": [f"o{i}.txt"]}
        if script:
            k = rng.randint(0, len(tracked))
            if tracked[:k]:
                u["env"] = tracked[:k]
            if tracked[k:]:
                u["amend_env"] = tracked[k:]
            rest = [p for p in sorted(sources) if p not in inp]
            if rest and rng.random() < 0.4:
                u["amend_inp"] = sorted(rng.sample(rest, rng.randint(1, len(rest))))
        else:
            u["env"] = tracked
            u["reads_env"] = True
        steps.append(u)
        units.append(u)
        avail.append(u["out"][0])
    project = Project(sources=dict(sources), program=render(units), env=dict(env))
    target = rng.choice(steps)
    what = rng.choice(["env", "env", "src"])
    src_in = sorted(p for p in set(target["inp"]) | set(target.get("amend_inp", [])) if p in sources)
    if what == "src" and len(src_in) < 2:
        src_in = sorted(sources)
    tracked = sorted(set(target.get("env", [])) | set(target.get("amend_env", [])))
    cur_env, cur_src = dict(env), dict(sources)
    fresh = [0]

    def set_env(n, v):
        cur_env[n] = v
        return {"op": "setenv", "name": n, "value": v}

    def new_value(n):
        fresh[0] += 1
        return f"{n.lower()}{fresh[0]}"

    def write(p, c):
        cur_src[p] = c
        return {"op": "write", "path": p, "content": c}
    history = []
    if what == "env":
        old = {n: cur_env.get(n) for n in tracked}
        history.append({"edits": [set_env(n, new_value(n)) for n in tracked]})
    else:
        old = {p: cur_src[p] for p in src_in}
        history.append({"edits": [write(p, _same_size_variant(cur_src[p])) for p in src_in]})
    middle = rng.choice([None, None, "noop", "other"])
    if middle == "noop":
        history.append({"edits": []})
    elif middle == "other":
        others = [p for p in sorted(sources) if p not in old]
        if others:
            p = rng.choice(others)
            history.append({"edits": [write(p, f"content of {p} v7 longer\n")]})
        else:
            n = rng.choice([n for n in names if n not in old] or names)
            if n not in old:
                history.append({"edits": [set_env(n, new_value(n))]})
    keys = sorted(old)
    k = rng.randint(1, len(keys) - 1) if len(keys) > 1 and rng.random() < 0.85 else len(keys)
    sub = sorted(rng.sample(keys, k))
    history.append({"edits": [set_env(n, old[n]) if what == "env" else write(n, old[n]) for n in sub]})
    last = rng.choice([None, None, None, "rest", "again"])
    rest = [x for x in keys if x not in sub]
    if last == "rest" and rest:
        history.append({"edits": [set_env(n, old[n]) if what == "env" else write(n, old[n]) for n in rest]})
    elif last == "again":
        x = rng.choice(sub)
        history.append({"edits": [set_env(x, new_value(x)) if what == "env"
                                  else write(x, _same_size_variant(cur_src[x]))]})
    desc = {"what": what, "kind": target["k"], "tracked": len(tracked), "declared": len(target.get("env", [])),
            "amended": len(target.get("amend_env", [])), "changed": len(keys), "reverted": len(sub),
            "middle": middle or "none", "last": last or "none", "steps": len(steps)}
    return project, history, desc
