"""C14: (1) watch-vs-restart histories on the in-process Watcher with SCRIPTED change-queue items (no inotify
instance needed, so this family always runs) and (2) the search for a model-level counterexample of
`C14_watch_commit_equals_rescan` for the commit program the translator read from `Watcher.run_once`.

(1) A scripted history is a project (c14_driver.build_project spec) plus phases.  One phase =
    {"ops": [...], "queued": [[kind, path], ...], "late_ops": [...], "items": [[kind, path], ...]}
    * `ops`: file-system operations / ["vanish", p] that happen while the preceding build phase is still
      running; the change items they cause are `queued`: on the change queue before `run_once` starts,
      i.e. recorded by its drain loop;
    * `items`: what the wrapper queues during the watch phase for the operations `watch_ops`;
    * `late_ops`: operations whose events have not been translated when `end_watching` is set (they are
      applied before the commit, their items are the `queued` of the NEXT phase): the hash jobs of the
      commit race with them.
    The items are the ones the real change_loop emits for these operations (write: UPDATED x3 create /
    x2 overwrite; rm: DELETED; rename: DELETED + UPDATED), hand-written here and checked against real
    inotify for the same operations by the change_loop correspondence of the inotify-based histories.
    Every phase but the last is committed (real Watcher.run_once + start_build_phase's FAILED reset); the
    last is compared: commit on the database versus startup.resume_from_db on a backup copy.
(2) `sweep_terms`: one Gallina bool per instance of a small exhaustive family (one path; node in every
    FileState x attached x hash known; in updated / deleted / neither; on disk absent / same / other
    content; one pattern row with or without the path recorded): `hypotheses -> commit = rescan` evaluated
    with the GENERATED commit_program.  `real_spec_of_instance` maps a model counterexample back to a
    scripted history where the shape is reachable through the Workflow API.
"""
from __future__ import annotations

import asyncio
import contextlib
import os
import tempfile

from . import c14_driver as D
from .common import coq_bool, coq_list, coq_str

_GLOB_STATIC = {"dirs": ["d1"], "static": {"d1/x.dat": "x", "d1/y.dat": "y", "a.txt": "A"},
                "steps": [{"cmd": "s1", "inp": ["d1/x.dat"], "out": {"o1.txt": "O"}, "state": "FAILED"}],
                "globs": [{"step": "./plan.py", "pattern": "d1/*.dat"}]}
_GLOB_STATIC_OK = dict(_GLOB_STATIC, steps=[{"cmd": "s1", "inp": ["d1/x.dat"], "out": {"o1.txt": "O"}}])
_MISSING_MATCH = {"static": {"gone.txt": None, "a.txt": "A"}, "globs": [{"step": "./plan.py", "pattern": "*.txt"}]}

W3 = lambda p: [["UPDATED", p]] * 3      # noqa: E731  create: CREATE, MODIFY, CLOSE_WRITE
W2 = lambda p: [["UPDATED", p]] * 2      # noqa: E731  overwrite: MODIFY, CLOSE_WRITE

SCRIPTED = {
    # a static file that is a recorded glob match vanishes while the build runs; its consumer fails
    "vanished-match-during-build": (_GLOB_STATIC, [{"ops": [["vanish", "d1/x.dat"]], "queued": [["DELETED", "d1/x.dat"]]}]),
    # ... and the DELETED item only arrives in the watch phase
    "vanished-match-event-in-watch-phase": (_GLOB_STATIC, [{"ops": [["vanish", "d1/x.dat"]], "items": [["DELETED", "d1/x.dat"]]}]),
    # ... and is re-created with the same content while watching
    "vanished-match-recreated-same": (_GLOB_STATIC, [{"ops": [["vanish", "d1/x.dat"]], "queued": [["DELETED", "d1/x.dat"]],
                                                      "watch_ops": [["write", "d1/x.dat", "x"]], "items": W3("d1/x.dat")}]),
    "match-deleted-recreated-same": (_GLOB_STATIC_OK, [{"watch_ops": [["rm", "d1/x.dat"], ["write", "d1/x.dat", "x"]],
                                                        "items": [["DELETED", "d1/x.dat"]] + W3("d1/x.dat")}]),
    "match-deleted-recreated-other": (_GLOB_STATIC_OK, [{"watch_ops": [["rm", "d1/x.dat"], ["write", "d1/x.dat", "x2"]],
                                                         "items": [["DELETED", "d1/x.dat"]] + W3("d1/x.dat")}]),
    "match-recreated-then-deleted": (_GLOB_STATIC_OK, [{"watch_ops": [["write", "d1/x.dat", "x"], ["rm", "d1/x.dat"]],
                                                        "items": W2("d1/x.dat") + [["DELETED", "d1/x.dat"]]}]),
    "match-moved-away-and-back": (_GLOB_STATIC_OK, [{"watch_ops": [["mv", "d1/x.dat", "d1/x.bak"], ["mv", "d1/x.bak", "d1/x.dat"]],
                                                     "items": [["DELETED", "d1/x.dat"], ["UPDATED", "d1/x.bak"],
                                                               ["DELETED", "d1/x.bak"], ["UPDATED", "d1/x.dat"]]}]),
    "match-moved-away": (_GLOB_STATIC_OK, [{"watch_ops": [["mv", "d1/x.dat", "d1/x.bak"]],
                                            "items": [["DELETED", "d1/x.dat"], ["UPDATED", "d1/x.bak"]]}]),
    # MISSING static file matched by a pattern: created and deleted again (unchanged re-hash of a deleted path)
    "missing-created-then-deleted": (_MISSING_MATCH, [{"watch_ops": [["write", "gone.txt", "G"], ["rm", "gone.txt"]],
                                                       "items": W3("gone.txt") + [["DELETED", "gone.txt"]]}]),
    # the hash job of the commit races with a deletion: the file was rewritten (UPDATED recorded), then
    # deleted; the DELETED item is translated only after end_watching and is drained by the next phase
    "deleted-while-hash-job-runs": (_GLOB_STATIC_OK, [{"watch_ops": [["write", "d1/x.dat", "x2"]], "items": W2("d1/x.dat"),
                                                       "late_ops": [["rm", "d1/x.dat"]]},
                                                      {"queued": [["DELETED", "d1/x.dat"]]}]),
    "deleted-while-hash-job-runs-then-recreated": (_GLOB_STATIC_OK, [{"watch_ops": [["write", "d1/x.dat", "x2"]], "items": W2("d1/x.dat"),
                                                                      "late_ops": [["rm", "d1/x.dat"]]},
                                                                     {"queued": [["DELETED", "d1/x.dat"]],
                                                                      "watch_ops": [["write", "d1/x.dat", "x"]], "items": W3("d1/x.dat")}]),
    # events of a static file while the build runs, in both orders
    "static-rewritten-during-build": (_GLOB_STATIC_OK, [{"ops": [["write", "a.txt", "A2"]], "queued": W2("a.txt")}]),
    "static-deleted-during-build-recreated-while-watching": (_GLOB_STATIC_OK, [{"ops": [["rm", "a.txt"]], "queued": [["DELETED", "a.txt"]],
                                                                               "watch_ops": [["write", "a.txt", "A"]], "items": W3("a.txt")}]),
}


async def scripted_history(spec, phases):
    res = {"phases": [], "error": None, "restart_error": None}
    with tempfile.TemporaryDirectory() as tmp:
        root = os.path.join(tmp, "proj")
        os.mkdir(root)
        with contextlib.chdir(root):
            with D.open_stack_db(os.path.join(tmp, "a.db")) as db:
                st = await D.Stack(db, asyncio.Queue()).init()
                await D.build_project(st, spec)
                for k, ph in enumerate(phases):
                    applied = []
                    for op in list(ph.get("ops", [])) + list(ph.get("watch_ops", [])) + list(ph.get("late_ops", [])):
                        ok = await D.vanish(st, op[1]) if op[0] == "vanish" else D.apply_op(op)
                        applied.append([op, bool(ok)])
                    last = k == len(phases) - 1
                    if last:
                        res["pre"] = await D.dump_graph(st)
                        res["final_tree"] = sorted(D.snapshot_tree("."))
                        D.backup_db(db, os.path.join(tmp, "b.db"))
                    n0 = len(st.rep.calls)
                    try:
                        await D.watch_commit(st, queued=[tuple(i) for i in ph.get("queued", [])],
                                             items=[tuple(i) for i in ph.get("items", [])])
                    except Exception as e:  # noqa: BLE001
                        res["error"] = f"{type(e).__name__}: {e}"
                    res["phases"].append({"applied": applied, "reports": [list(c) for c in st.rep.calls[n0:]]})
                    if res["error"]:
                        break
                res["a"] = await D.dump_graph(st)
            if os.path.exists(os.path.join(tmp, "b.db")):
                with D.open_stack_db(os.path.join(tmp, "b.db")) as db2:
                    st2 = await D.Stack(db2, None).init()
                    try:
                        await D.startup_rescan(st2)
                    except Exception as e:  # noqa: BLE001
                        res["restart_error"] = f"{type(e).__name__}: {e}"
                    res["b"] = await D.dump_graph(st2)
    if "b" not in res:
        res["diff"] = [("error", "", res["error"], None)]
    else:
        res["diff"] = D.diff_dumps(res["a"], res["b"])
        if res["error"] or res["restart_error"]:
            res["diff"] = res["diff"] or [("error", "", res["error"], res["restart_error"])]
    return res


def classify_scripted(res):
    """Signature: site + cause + distinguishing circumstance."""
    if res.get("error"):
        return "watch-commit:exception:" + res["error"].split(":")[0]
    if res.get("restart_error"):
        return "restart:exception:" + res["restart_error"].split(":")[0]
    reports = res["phases"][-1]["reports"] if res["phases"] else []
    exists = set(res.get("final_tree", []))
    unchanged = {p for t, p in reports if t == "UNCHANGED"}
    deleted = {p for t, p in reports if t == "DELETED"}
    for sec, key, a, b in res["diff"]:
        if sec == "nglobs":
            sa, sb = set(a or []), set(b or [])
            kept = {p for p in sa - sb if p not in exists}
            if kept & unchanged & deleted:
                return "watch-vs-restart:nglob:deleted-match-kept:unchanged-rehash-of-deleted-path"
            if kept:
                return "watch-vs-restart:nglob:deleted-match-kept"
            if sb - sa:
                return "watch-vs-restart:nglob:new-match-missed"
            return "watch-vs-restart:nglob:stale-entry"
    secs = sorted({sec for sec, *_ in res["diff"]})
    return "watch-vs-restart:scripted:" + "+".join(secs)


# ---------------------------------------------------------------------------------------------
# (2) model-level search
# ---------------------------------------------------------------------------------------------

SWEEP_HEADER = (
    "Definition lstr_eqb := fix go (a b : list str) : bool := match a, b with [], [] => true "
    "| x :: a', y :: b' => str_eqb x y && go a' b' | _, _ => false end.\n"
    "Definition fnode_eqb (x y : fnode) := str_eqb (f_path x) (f_path y) && Bool.eqb (f_attached x) (f_attached y) "
    "&& fstate_eqb (f_state x) (f_state y) && ofh_eqb (f_hash x) (f_hash y).\n"
    "Definition files_eqb := fix go (a b : list fnode) : bool := match a, b with [], [] => true "
    "| x :: a', y :: b' => fnode_eqb x y && go a' b' | _, _ => false end.\n"
    "Definition ng_eqb (x y : ngrow) := N.eqb (ng_pat x) (ng_pat y) && str_eqb (ng_step x) (ng_step y) "
    "&& Bool.eqb (ng_attached x) (ng_attached y) && lstr_eqb (ng_matches x) (ng_matches y).\n"
    "Definition ngs_eqb := fix go (a b : list ngrow) : bool := match a, b with [], [] => true "
    "| x :: a', y :: b' => ng_eqb x y && go a' b' | _, _ => false end.\n"
    "Definition og_eqb (a b : option (gstate (list str))) : bool := match a, b with None, None => true "
    "| Some x, Some y => files_eqb (g_files x) (g_files y) && ngs_eqb (g_nglobs x) (g_nglobs y) "
    "&& lstr_eqb (g_rest x) (g_rest y) | _, _ => false end.\n"
    "Definition atag (a : action) : N := match a with AUpdated => 1 | ADeleted => 2 | ACompleted => 3 end.\n"
    "Definition logA : action -> path -> list fnode * list str -> list fnode * list str := "
    "fun a p x => (fst x, (atag a :: p) :: snd x).\n"
    "Definition logN : str -> list fnode * list str -> list fnode * list str := fun l x => (fst x, (9 :: l) :: snd x).\n"
    "Definition sweep_inst (att : bool) (st : fstate) (h : option fh) (rec : bool) (hfs : option fh) "
    "(inU inD : bool) (want_hyp : bool) : bool :=\n"
    "  let a : path := [97] in\n"
    "  let g := @mk_g (list str) [mk_fnode a att st h] [mk_ng 0 [112] true (if rec then [a] else [])] [] in\n"
    "  let H := fun p : path => if str_eqb p a then hfs else None in\n"
    "  let E := fun p : path => if str_eqb p a then (match hfs with Some _ => true | None => false end) else false in\n"
    "  let M := fun (_ : N) (p : path) => str_eqb p a in\n"
    "  let U := if inU then [a] else [] in let D := if inD then [a] else [] in\n"
    "  let hyp := wf_b (list str) M g && covers_b (list str) H E M [a] commit_attached_only g U D "
    "&& (commit_attached_only || du_b (list str) M g) in\n"
    "  if want_hyp then hyp else\n"
    "  negb hyp || og_eqb (watch_commit (list str) logA logN H M [a] g U D) (startup_rescan (list str) logA logN H E M [a] g).\n")


def sweep_instances():
    from stepup.core.enums import FileState
    out = []
    for st in FileState:
        for att in (True, False):
            for h in (None, 1):
                for rec in (False, True):
                    for hfs in (None, 1, 2):
                        for where in ("", "U", "D"):
                            out.append({"state": st.name, "attached": att, "hash": h, "recorded": rec,
                                        "hash_fs": hfs, "set": where})
    return out


def sweep_term(inst, want_hyp):
    o = lambda v: "None" if v is None else f"(Some {v})"      # noqa: E731
    return (f"sweep_inst {coq_bool(inst['attached'])} FS_{inst['state']} {o(inst['hash'])} {coq_bool(inst['recorded'])} "
            f"{o(inst['hash_fs'])} {coq_bool(inst['set'] == 'U')} {coq_bool(inst['set'] == 'D')} {coq_bool(want_hyp)}")


def real_spec_of_instance(inst):
    """A scripted history that realises a model instance (one static file `a.dat` matched by `*.dat`), or
    None when the shape is not reachable through the Workflow API calls the driver knows."""
    if not inst["attached"] or inst["state"] not in ("CONFIRMED", "MISSING"):
        return None
    known = inst["hash"] is not None
    if known != (inst["state"] == "CONFIRMED"):
        return None
    p = "a.dat"
    content = {None: None, 1: "one", 2: "two"}
    ops = []
    if inst["state"] == "CONFIRMED":
        if not inst["recorded"]:
            return None
        spec_static = {p: "one"}
    elif inst["recorded"]:
        spec_static = {p: "one"}
        ops.append(["vanish", p])          # CONFIRMED + recorded match, vanished during the build: MISSING, still listed
    else:
        spec_static = {p: None}
    spec = {"static": dict(spec_static, **{"k.txt": "K"}), "globs": [{"step": "./plan.py", "pattern": "*.dat"}]}
    exists_now = inst["state"] == "CONFIRMED"
    watch_ops = []
    if inst["hash_fs"] is None:
        if exists_now:
            watch_ops.append(["rm", p])
    else:
        watch_ops.append(["write", p, content[inst["hash_fs"]]])
    items = {"": [], "U": [["UPDATED", p]], "D": [["DELETED", p]]}[inst["set"]]
    return spec, [{"ops": ops, "watch_ops": watch_ops, "items": items}]


def random_scripted(rng, racing_writes=False):
    """A random project (static files, some of them matched by registered patterns, one consumer that may have
    FAILED) and 1-3 phases of regular-file operations with the items change_loop emits for them; operations
    while the build runs only touch declared static files (the promise of C14 for that window); with some
    probability the tail of a phase is `late` (translated after end_watching, drained by the next phase):
    deletions of static files by default, also writes with racing_writes=True."""
    static = {p: "S:" + p for p in ["a.txt", "b.txt", "d1/x.dat", "d1/y.dat", "d1/s1.txt"] if rng.random() < 0.8}
    if rng.random() < 0.4:
        static["gone.dat"] = None
    if not static:
        static["a.txt"] = "S:a.txt"
    live = sorted(p for p, c in static.items() if c is not None)
    spec = {"dirs": ["d1"], "static": static, "extra": {p: "E" for p in ["d1/e.dat", "n.dat"] if rng.random() < 0.5},
            "globs": [{"step": "./plan.py", "pattern": g} for g in rng.sample(["d1/*.dat", "*.dat", "d1/s*.txt", "*.txt"], k=rng.randint(1, 2))],
            "steps": [{"cmd": "s1", "inp": rng.sample(live, k=min(len(live), rng.randint(0, 2))), "out": {"o1.out": "O"},
                       "state": rng.choice(["SUCCEEDED", "FAILED", "PENDING"])}] if rng.random() < 0.8 else []}
    exists = set(live) | set(spec["extra"])
    content = {p: static[p] for p in live}
    pool = sorted(set(static) | set(spec["extra"]) | {"d1/new.dat", "k.dat"})

    def gen_ops(n, only_static, deletions_only=False):
        ops, items = [], []
        for _ in range(n):
            p = rng.choice(sorted(static) if only_static else pool)
            r = rng.random()
            if deletions_only:
                r = r * 0.45
                if p not in exists:
                    continue
            if r < 0.15 and only_static and p in exists and static.get(p) is not None:
                ops.append(["vanish", p]); items.append(["DELETED", p]); exists.discard(p)
            elif r < 0.45 and p in exists:
                ops.append(["rm", p]); items.append(["DELETED", p]); exists.discard(p)
            elif r < 0.55 and p in exists and not only_static:
                q = rng.choice(pool)
                if q == p or q in exists:
                    continue
                ops.append(["mv", p, q]); items += [["DELETED", p], ["UPDATED", q]]
                exists.discard(p); exists.add(q); content[q] = content.get(p)
            else:
                c = rng.choice([content.get(p) or ("S:" + p), "X1", "X2"])
                ops.append(["write", p, c]); items += [["UPDATED", p]] * (2 if p in exists else 3)
                exists.add(p); content[p] = c
        return ops, items
    phases, carry = [], []
    for _k in range(rng.randint(1, 3)):
        ph = {"queued": list(carry)}
        carry = []
        if rng.random() < 0.5:
            o, i = gen_ops(rng.randint(1, 2), True)
            ph["ops"] = o
            ph["queued"] += i
        o, i = gen_ops(rng.randint(0, 3), False)
        ph["watch_ops"], ph["items"] = o, i
        if rng.random() < 0.3:
            # a late WRITE (file re-created between end_watching and the hash job) is only generated on request:
            # see findings.d/C14-prune-race.json (state-level disagreement, end-to-end reachability not established)
            o, i = gen_ops(1, True, deletions_only=not racing_writes)
            ph["late_ops"] = o
            carry = i
        phases.append(ph)
    if carry:
        phases.append({"queued": carry})
    return spec, phases
