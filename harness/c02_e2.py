"""C02, E2 level: both-orders oracle on the REAL Workflow (harness/e2.py's Impl).

A state is reached by an e2 generator trace (real Workflow + Scheduler on in-memory SQLite).  In
that state two requests r1, r2 of two DIFFERENT running steps are applied in both orders and the
outcome classes, the message texts and the final canonical dumps are compared.

Two ways to get two copies of one database:
  * `orders_savepoint`: one outer transaction that is rolled back at the end; each request runs
    inside a SAVEPOINT that is released (accepted) or rolled back (rejected) -- the rollback a real
    request transaction would perform.  Cheap: hundreds of pairs per state.
  * `orders_replay`: the state is rebuilt twice by replaying the recorded trace on fresh
    databases and every request is its own real `async with db` transaction (Impl.apply).
    Used for a sample of pairs and to confirm every difference before it is reported.
"""
from __future__ import annotations

import asyncio
import random

from stepup.core.enums import FileState, StepState

from . import e2
from .e2 import FILES, STEPS, ENVS, Impl, classify

DECL_KINDS = ("static", "define", "amend")


class _Rollback(Exception):
    pass


# ---------------------------------------------------------------------------------------------
# states
# ---------------------------------------------------------------------------------------------

async def make_state(seed: str, length: int, want_running: int = 2, extra: int = 60):
    """Run the e2 generator; stop at the first point >= length with enough running commands."""
    rng = random.Random(seed)
    impl = Impl(3)
    await impl.start()
    g = e2.Gen(rng, impl, length)
    await g.boot()
    # every call that touched the database, including dispatch attempts that found no job (they
    # commit the scheduler's cache updates and so influence later dispatches)
    g.ops_full = [t[0] for t in g.trace]
    limit = length + extra
    while len(g.trace) < limit:
        if len(g.trace) >= length and len(g.running()) >= want_running:
            break
        n0 = len(g.trace)
        name = await _gen_step(g)
        new = [t[0] for t in g.trace[n0:]]
        if name == "dispatch" and not new:
            g.ops_full.append(("dispatch_none",))
        g.ops_full += new
    return impl, g


async def _gen_step(g):
    """One iteration of e2.Gen.run's loop (same categories and weights), biased towards having
    several commands running at once."""
    rng = g.rng
    running = g.running()
    run0 = [l for l, p in g.jobs.items() if p == "run0"]
    checks = [l for l, p in g.jobs.items() if p == "check"]
    validates = [l for l, p in g.jobs.items() if p == "validate"]
    cats = [("dispatch", 14, [()])]
    if run0:
        cats.append(("begin", 18, [(l,) for l in run0]))
    if running:
        r = [(l,) for l in running]
        cats += [("declare", 6, r), ("define", 18, r), ("amend", 8, r), ("end", 7, r),
                 ("hold", 1, r), ("release", 1, r)]
    if checks:
        cats.append(("skip", 10, [(l,) for l in checks]))
    if validates:
        cats.append(("validate", 10, [(l,) for l in validates]))
    cats += [("confirm", 8, [()]), ("external", 3, [()]), ("envchange", 2, [()])]
    if not g.jobs:
        cats.append(("finalize", 4, [()]))
    name, _, args = rng.choices(cats, weights=[c[1] for c in cats])[0]
    c = (name, *rng.choice(args))
    await getattr(g, "g_" + c[0])(*c[1:])
    return name


async def rebuild_state(ops):
    """Replay recorded trace entries (op tuples) on a fresh database."""
    impl = Impl(3)
    await impl.start()
    first = True
    for op in ops:
        if op[0] == "dispatch_error":
            await impl.dispatch()
            continue
        if op[0] == "dispatch_none":
            r = await impl.dispatch()
            if r is not None:
                raise RuntimeError(f"replay diverged at dispatch: wanted no job, got {r}")
            continue
        if op[0] == "dispatch":
            r = await impl.dispatch()
            if r is None or r[0] != op[1]:
                raise RuntimeError(f"replay diverged at dispatch: wanted {op[1]}, got {r}")
            continue
        await impl.apply(op)
        if first and op[0] == "define_step" and op[2] == "./plan.py":
            async with impl.db:
                impl.db.execute("UPDATE step SET _safe = 1, _safe_ignoring_hold = 1, _check_safe = 0")
            first = False
    return impl


# ---------------------------------------------------------------------------------------------
# requests
# ---------------------------------------------------------------------------------------------

def gen_request(rng, g, step, pool, kind=None, labels=None):
    """A declaration request of running step `step` over the small path pool `pool`."""
    kind = kind or rng.choices(DECL_KINDS, weights=[3, 5, 3])[0]

    def sub(lo, hi, avoid=()):
        cand = [p for p in pool if p not in avoid]
        k = rng.randint(lo, min(hi, len(cand)))
        return tuple(sorted(rng.sample(cand, k)))

    if kind == "static":
        return ("declare_static", ("step", step), sub(1, 2))
    if kind == "define":
        label = rng.choice(labels or STEPS)
        inp = sub(0, 2)
        out = sub(0, 2, avoid=inp if rng.random() < 0.9 else ())
        vol = sub(0, 1, avoid=inp + out) if rng.random() < 0.15 else ()
        env = (rng.choice(ENVS),) if rng.random() < 0.2 else ()
        need = rng.choice(["DEFAULT", "DEFAULT", "OPTIONAL", "PLAN"])
        return ("define_step", ("step", step), label, inp, env, out, vol, need)
    if kind == "amend":
        inp = sub(0, 2)
        out = sub(0, 1, avoid=inp) if rng.random() < 0.45 else ()
        vol = sub(0, 1, avoid=inp + out) if rng.random() < 0.12 else ()
        env = (rng.choice(ENVS),) if rng.random() < 0.2 else ()
        return ("amend_step", step, inp, env, out, vol)
    raise AssertionError(kind)


def gen_confirm(rng, g, pool=None):
    unconf = sorted(l for l, s in g.fstate.items() if s == FileState.UNCONFIRMED.value
                    and (pool is None or l in pool))
    if not unconf:
        return None
    k = rng.randint(1, min(2, len(unconf)))
    pick = sorted(rng.sample(unconf, k))
    return ("update_hashes", "CONFIRMED", tuple((p, rng.choice([None, g.newhash()])) for p in pick))


def gen_exec_end(rng, g, step):
    outs = g.outputs_of(step)
    r = rng.random()
    if r < 0.6:
        hs = tuple((p, g.newhash()) for p in outs
                   if g.fstate[p] in (FileState.PLANNED.value, FileState.OUTDATED.value))
        return ("exec_end", step, (), "SUCCEEDED", hs, True, False)
    hs = tuple((p, rng.choice([None, g.newhash()])) for p in outs if rng.random() < 0.6)
    return ("exec_end", step, (), "FAILED", hs, False, r < 0.8)


def pair_kind(r1, r2):
    short = {"declare_static": "static", "define_step": "define", "amend_step": "amend",
             "update_hashes": "confirm", "exec_end": "end"}
    return ",".join(sorted([short[r1[0]], short[r2[0]]]))


def paths_of(r):
    n = r[0]
    if n == "declare_static":
        return set(r[2])
    if n == "define_step":
        return set(r[3]) | set(r[5]) | set(r[6])
    if n == "amend_step":
        return set(r[2]) | set(r[4]) | set(r[5])
    if n == "update_hashes":
        return {p for p, _ in r[2]}
    if n == "exec_end":
        return {p for p, _ in r[2]} | {p for p, _ in r[4]}
    return set()


# ---------------------------------------------------------------------------------------------
# both orders
# ---------------------------------------------------------------------------------------------

async def orders_savepoint(impl: Impl, r1, r2):
    """[(outcomes, dump) for order (r1, r2), same for (r2, r1)]; outcomes = [(class, text)] in
    application order.  Nothing is committed."""
    res = []
    for first, second in ((r1, r2), (r2, r1)):
        outs, dump = [], None
        try:
            async with impl.db:
                for op in (first, second):
                    impl.db.execute("SAVEPOINT c02")
                    try:
                        impl._do(op)
                        impl.db.execute("RELEASE c02")
                        outs.append(("ok", ""))
                    except Exception as e:  # noqa: BLE001 - classification is the point
                        impl.db.execute("ROLLBACK TO c02")
                        impl.db.execute("RELEASE c02")
                        outs.append((classify(e), f"{type(e).__name__}: {e}"))
                dump = impl._dump()
                raise _Rollback
        except _Rollback:
            pass
        res.append((outs, dump))
    return res


async def orders_replay(trace_ops, r1, r2):
    """The same with two real databases and one real transaction per request."""
    res = []
    for first, second in ((r1, r2), (r2, r1)):
        impl = await rebuild_state(trace_ops)
        try:
            outs = [await impl.apply(first), await impl.apply(second)]
            res.append((outs, await impl.dump()))
        finally:
            impl.close()
    return res


def compare(r1, r2, res):
    """Classify the result of both orders.

    Returns (verdict, detail) with verdict in
      'commute'        both accepted in both orders, equal final dumps
      'both-reject'    each order rejects something (the build fails either way)
      'DIFF-GRAPH'     both accepted in both orders, dumps differ
      'DIFF-SUCCESS'   one order accepts everything, the other rejects something
      'INTERNAL'       some request raised a non-usage error
    and for 'both-reject' of two requests that are individually acceptable, `detail['texts']`
    holds the two message texts (they must be equal when they name a declaration conflict)."""
    (o12, d12), (o21, d21) = res
    # o12 = [out(r1), out(r2 after r1)], o21 = [out(r2), out(r1 after r2)]
    if any(o[0] == "internal" for o in o12 + o21):
        return "INTERNAL", {"o12": o12, "o21": o21}
    acc12 = all(o[0] == "ok" for o in o12)
    acc21 = all(o[0] == "ok" for o in o21)
    if acc12 != acc21:
        return "DIFF-SUCCESS", {"o12": o12, "o21": o21}
    if acc12:
        if d12 == d21:
            return "commute", {}
        diff = {k: [sorted(set(map(repr, d12[k])) - set(map(repr, d21[k]))),
                    sorted(set(map(repr, d21[k])) - set(map(repr, d12[k])))]
                for k in d12 if d12[k] != d21[k]}
        return "DIFF-GRAPH", {"only_in_12_vs_21": diff}
    detail = {}
    if o12[0][0] == "ok" and o21[0][0] == "ok" and o12[1][0] != "ok" and o21[1][0] != "ok":
        # both individually acceptable, the second one is refused in either order: a conflict
        # between exactly these two declarations
        detail["texts"] = (o12[1][1], o21[1][1])
    return "both-reject", detail


def cq_outcome(o):
    return e2.OUTC[o[0]]
