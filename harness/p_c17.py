"""C17: named glob matching is consistent with the file system and with itself."""
from __future__ import annotations

import contextlib
import glob as pyglob
import os
import re
import tempfile

from . import c17_batch, common
from .common import coq_bool, coq_str

PID = "C17"
PROPS_FILE = "props/C17.v"
MODEL_TARGETS = ["model/Nglob.vo", "model/GlobSem.vo", "model/NglobCheck.vo", "model/NglobBatch.vo"]
RULE = ("E1 strings: random patterns over the atoms {literal text incl. '/', '.', '-', '$', '{', ']', "
        "?, *, **, **/, [ab], [!a], [a-c], [^a], ${*n}, ${*m}, ${*n} repeated, ${*}} with random substitution "
        "dictionaries; RE_ANY_WILD.split, convert_nglob_to_regex (exact text or the ValueError kind), "
        "convert_nglob_to_glob, _used_names versus the model. E1 acceptance: strings derived from the pattern "
        "(wildcards instantiated, then mutated: separators inserted, characters dropped, trailing '/') through "
        "re.fullmatch + groupdict of the real compiled regex versus lib/Regex.v. E1 trees: random directory "
        "trees in a temporary directory (hidden entries, empty directories, nesting up to 4, optional name with "
        "a newline) with patterns generalised from existing paths; NamedGlob.glob() versus the model "
        "(regex model over all existing paths, glob model for the translated pattern, reference semantics), and "
        "glob.glob versus model/GlobSem.v. E1 updates: random extend/reduce/will_change sequences on the real "
        "NamedGlob versus the model. E1 batch: random sequences of (during_build, DELETED|UPDATED|DELETED_PARENT, path) "
        "items with table-driven change_is_relevant / relevant_paths_under through the real Watcher.record_change "
        "versus model/NglobBatch.v fold_changes. O6/O8: a real tree, a real Workflow with registered patterns, named and "
        "random operation traces (create, touch, unlink, mkdir, rmtree, move away, file<->directory), folded by the real "
        "record_change and committed by the real process_nglob_changes, resp. applied offline and rescanned by the real "
        "startup.rescan_nglobs, every persisted row versus a fresh glob(). A case is non-trivial when the pattern has a wildcard and (trees) at least "
        "one existing path is accepted or (strings) the pattern has two or more tokens; distinct by "
        "(kind, pattern, subs, input).")
TRUSTED_BASE = [
    "Coq 8.16.1 kernel (vm_compute in Examples, refutation witnesses and the correspondence evaluation)",
    "Print Assumptions: Closed under the global context for every C17 theorem (no axioms)",
    "translator/gen_nglob.py (shape-matched constants of convert_nglob_to_regex, RE_WILD_PARTS, measured re.escape; "
    "post-processing block of convert_nglob_to_regex compared verbatim; structural fingerprints of "
    "iter_wildcard_names, has_anonymous_wildcards, "
    "NamedGlob._default_*, NamedGlob.glob)",
    "translator/gen_nglob_code.py, gen_nglob_regex.py and gen_nglob_batch.py (statement-level translations; what they "
    "emit is proved equal to the model in proofs/NglobCodeTie.v, NglobRegexTie.v and NglobBatchTie.v) and the reading of the Python "
    "builtins in model/NglobPy.v / model/NglobBatch.v (set.add, set.discard, dict operations)",
    "harness/c17_batch.py: the queue items an operation on the tree produces are written down the way "
    "AsyncInotifyWrapper.change_loop produces them (that translation is property C14)",
    "harness/p_c17.py (Gallina literal printers, generators, Python's re and glob modules as the executing "
    "substrate of the implementation)",
    "no extraction: the model is evaluated inside Coq by vm_compute",
]
ASSUMPTIONS = [
    "paths are canonical relative labels: components non-empty, none equal to '.' or '..', directories "
    "written with one trailing '/'; patterns likewise relative without empty inner components",
    "no symbolic links in the scanned tree; the tree does not change during one scan",
    "Python's re module implements backtracking semantics for the emitted fragment (validated by E1 against "
    "lib/Regex.v on every generated case); glob/fnmatch are those of CPython 3.12 (validated by E1 against "
    "model/GlobSem.v)",
    "the queue items of a watch phase mean for accepted paths what model/NglobBatch.v step_ok says (C14: inotify "
    "to items); every accepted path passes change_is_relevant, relevant_paths_under yields the accepted paths "
    "below a removed directory, a path pruned as UNCHANGED existed before (assumptions of "
    "C17_watch_batch_update_equals_rescan; the first two are probed on the real Workflow by O7)",
    "character classes in the acceptance comparison have bodies made of single characters and ascending "
    "ranges (other bodies are compared as text only)",
]

HEADER = ("From Coq Require Import List NArith Bool.\nImport ListNotations.\n"
          "From SV Require Import lib.Bytes.\nFrom SV Require Import lib.Regex.\nFrom SV Require Import model.Nglob.\nFrom SV Require Import model.GlobSem.\nFrom SV Require Import model.NglobCheck.\n"
          "Open Scope N_scope.\n")


def generate(ctx):
    """Three translators; each writes what it can, the first error is raised at the end (so a change
    that one of them rejects does not leave the gen files of the others stale)."""
    errors = []

    def constants():
        from translator import gen_nglob
        text, facts = gen_nglob.generate()
        ctx.write_gen("GenNglob.v", text)
        ctx.facts = facts
        ctx.stats["fingerprinted_functions"] = len(facts["fingerprints"])
        ctx.stats["wild_parts"] = len(facts["wild_parts"])

    def code():
        # statement-by-statement translation of the small functions (tied by proofs/NglobCodeTie.v)
        from translator import gen_nglob_code
        code_text, code_facts = gen_nglob_code.generate()
        ctx.write_gen("GenNglobCode.v", code_text)
        ctx.stats["translated_functions"] = code_facts["translated_functions"]

    def regex_loop():
        # the main loop of convert_nglob_to_regex, statement by statement (tied by proofs/NglobRegexTie.v)
        from translator import gen_nglob_regex
        text, rfacts = gen_nglob_regex.generate()
        ctx.write_gen("GenNglobRegex.v", text)
        ctx.stats["regex_loop_tree_size"] = rfacts["regex_loop_tree_size"]

    def batch():
        # record_change / will_change / process_nglob_changes / rescan_nglobs (tied by proofs/NglobBatchTie.v)
        c17_batch.generate_batch(ctx)

    for step in (constants, code, regex_loop, batch):
        try:
            step()
        except Exception as e:  # noqa: BLE001 - reported below
            errors.append(e)
    if errors:
        raise errors[0]


# ---------------------------------------------------------------------------------------------
# Gallina literals
# ---------------------------------------------------------------------------------------------


def coq_lstr(xs):
    return "[" + "; ".join(coq_str(x) for x in xs) + "]"


def coq_subs(subs):
    return "[" + "; ".join(f"({coq_str(k)}, {coq_str(v)})" for k, v in subs.items()) + "]"


def coq_key(values):
    if values is None:
        return "None"
    return "(Some [" + "; ".join("None" if v is None else f"Some {coq_str(v)}" for v in values) + "])"


def coq_keyval(values):
    return "[" + "; ".join("None" if v is None else f"Some {coq_str(v)}" for v in values) + "]"


def coq_results(res):
    return "[" + "; ".join(f"({coq_keyval(k)}, {coq_lstr(sorted(map(str, v)))})" for k, v in res.items()) + "]"


def coq_tree(tree):
    items = []
    for name, sub in tree.items():
        if sub is None:
            items.append(f"({coq_str(name)}, File)")
        else:
            items.append(f"({coq_str(name)}, Dir {coq_tree(sub)})")
    return "[" + "; ".join(items) + "]"


# ---------------------------------------------------------------------------------------------
# Generators
# ---------------------------------------------------------------------------------------------

LIT = ["a", "b", "ab", "c", ".", ".txt", "-", "_", "x", "a1", "/", "/", "/", "a/", "/b", "d/"]
ODD = ["$", "{", "}", "]", "[", "!", "^", "${", "${*", "\n", "+", "(", "\\", "a/b/c", "//", "./", "../"]
WILD = ["?", "*", "*", "**", "**/", "/**", "/**/", "[ab]", "[!a]", "[a-c]", "[!a-b]", "[.]"]
WILD_ODD = ["[^a]", "[]", "[!]", "[]a]", "[a/]", "[!/]", "[*]", "[?]", "[${*n}]", "[a\nb]", "[a-]", "[+-9]"]
NAMES = ["${*n}", "${*n}", "${*m}", "${*k2}", "${*_x}"]
NAMES_ODD = ["${*}", "${*1a}", "${*n-}", "${*é}"]
SUBS = ["?*", "[0-9]", "a*", "*", "**", "?", "x", "[ab]", "*.txt", "?a", "[!a]", "***", "*?*"]
SUBS_ODD = ["", "${*q}", "*/b", "**/", "**/*a", "a/b", "[", "a**"]


def gen_pattern(rng, odd=0.08, maxlen=6):
    k = rng.randint(1, maxlen)
    out = []
    for _ in range(k):
        r = rng.random()
        if r < 0.36:
            out.append(rng.choice(ODD) if rng.random() < odd else rng.choice(LIT))
        elif r < 0.72:
            out.append(rng.choice(WILD_ODD) if rng.random() < odd else rng.choice(WILD))
        else:
            out.append(rng.choice(NAMES_ODD) if rng.random() < odd else rng.choice(NAMES))
    return "".join(out)


def gen_subs(rng, pattern, odd=0.08):
    subs = {}
    for name in sorted(set(re.findall(r"\$\{\*([a-zA-Z0-9_]*)\}", pattern))):
        if rng.random() < 0.45:
            subs[name] = rng.choice(SUBS_ODD) if rng.random() < odd else rng.choice(SUBS)
    if rng.random() < 0.05:
        subs["unused"] = "*"
    return subs


def py_tokens(pattern):
    from stepup.core.nglob import RE_ANY_WILD
    out = []
    for i, part in enumerate(RE_ANY_WILD.split(pattern)):
        if i % 2 == 0:
            if part:
                out.append("L" + part)
        elif part == "?":
            out.append("Q")
        elif part == "*":
            out.append("S")
        elif part == "**":
            out.append("D")
        elif part == "**/":
            out.append("R")
        elif part.startswith("["):
            out.append("C" + part[1:-1])
        elif part.startswith("${*"):
            out.append("N" + part[3:-1])
        else:
            raise AssertionError(part)
    return out


def err_code(exc):
    msg = str(exc)
    if "empty pattern" in msg:
        return 0
    if "must have a name" in msg:
        return 1
    if "not allowed" in msg:
        return 2
    return None


CLS_PLAIN = re.compile(r"^!?(?:[A-Za-z0-9._](?:-[A-Za-z0-9._])?)+$")


def classes_plain(pattern, subs):
    """Class bodies whose meaning lib/Regex.v claims (single characters and ranges of plain characters)."""
    from stepup.core.nglob import RE_ANY_WILD
    for text in [pattern, *subs.values()]:
        for i, part in enumerate(RE_ANY_WILD.split(text)):
            if i % 2 == 1 and part.startswith("["):
                body = part[1:-1]
                if not CLS_PLAIN.match(body):
                    return False
                for m in re.finditer(r"(.)-(.)", body.lstrip("!")):
                    if m.group(1) > m.group(2):
                        return False
    return True


def instantiate(rng, pattern, subs, depth=0):
    """A string that is likely to match the pattern."""
    from stepup.core.nglob import RE_ANY_WILD
    out = []
    seen = {}
    for i, part in enumerate(RE_ANY_WILD.split(pattern)):
        if i % 2 == 0:
            out.append(part)
        elif part == "?":
            out.append(rng.choice("abx.1"))
        elif part == "*":
            out.append(rng.choice(["", "a", "ab", "x.txt", "b1"]))
        elif part in ("**", "**/"):
            v = rng.choice(["", "a", "a/b", "x/.h/c"])
            out.append(v + ("/" if part == "**/" and v else ""))
        elif part.startswith("["):
            body = part[1:-1]
            cands = [c for c in "abcx.1/-" if (c not in body) == body.startswith("!")] or ["a"]
            out.append(rng.choice(cands))
        else:
            name = part[3:-1]
            if name in seen and rng.random() < 0.8:
                out.append(seen[name])
            else:
                v = instantiate(rng, subs.get(name, "*"), {}, depth + 1) if depth < 2 else "a"
                seen.setdefault(name, v)
                out.append(v)
    return "".join(out)


def mutate(rng, s):
    r = rng.random()
    if r < 0.35 or not s:
        return s
    i = rng.randrange(len(s) + 1)
    if r < 0.5:
        return s[:i] + "/" + s[i:]
    if r < 0.62:
        return s + "/"
    if r < 0.74:
        return s[:max(i - 1, 0)] + s[i:]
    if r < 0.86:
        return s[:i] + rng.choice("abx.1") + s[i:]
    if r < 0.9:
        return s[:i] + "\n" + s[i:]
    return s[:i] + s[i:][::-1]


# ---------------------------------------------------------------------------------------------
# E1 on strings
# ---------------------------------------------------------------------------------------------


def correspondence(ctx):
    e1_strings(ctx)
    e1_accept(ctx)
    e1_trees(ctx)
    e1_updates(ctx)
    c17_batch.e1_batch(ctx)


def _report(ctx, bad, descr, kind, limit=4):
    seen = set()
    for i in bad:
        d = descr[i]
        sig = f"E1:{d[0]}"
        if sig in seen:
            continue
        seen.add(sig)
        ctx.add_failure("correspondence", sig, sig, f"model and implementation disagree ({kind}) on {d!r}",
                        witness={"case": list(d)})
        if len(seen) >= limit:
            break


def e1_strings(ctx):
    from stepup.core.nglob import convert_nglob_to_glob, convert_nglob_to_regex, iter_wildcard_names
    rng = ctx.rng
    checks, descr = [], []
    n = ctx.scale(700, 8000)
    corpus = _corpus_patterns()
    for k in range(n):
        if k < len(corpus):
            p, subs = corpus[k]
        else:
            p = gen_pattern(rng, odd=0.12)
            subs = gen_subs(rng, p, odd=0.12)
        cp, cs = coq_str(p), coq_subs(subs)
        toks = py_tokens(p)
        nontrivial = len(toks) >= 2
        checks.append(f"chk_tokens {cp} {coq_lstr(toks)}")
        descr.append(("tokens", p, toks))
        ctx.case(("tokens", p), nontrivial)
        try:
            rx = convert_nglob_to_regex(p, subs)
            checks.append(f"chk_regex {cp} {cs} {coq_str(rx)}")
            descr.append(("regex-text", p, subs, rx))
            ctx.count("regex_ok")
            # hypothesis of C17_backref_equal_substrings on the compiler's output
            checks.append(f"chk_parts_ok {cp} {cs}")
            descr.append(("parts_ok", p, subs))
        except ValueError as e:
            code = err_code(e)
            if code is None:
                raise
            checks.append(f"chk_regex_err {cp} {cs} {code}")
            descr.append(("regex-text", p, subs, f"ValueError kind {code}"))
            ctx.count(f"regex_err_{code}")
        ctx.case(("regex", p, tuple(sorted(subs.items()))), nontrivial)
        try:
            g = convert_nglob_to_glob(p, subs)
            checks.append(f"chk_glob {cp} {cs} {coq_str(g)}")
            descr.append(("glob-text", p, subs, g))
        except ValueError as e:
            code = err_code(e)
            checks.append(f"chk_glob_err {cp} {cs} {code}")
            descr.append(("glob-text", p, subs, f"ValueError kind {code}"))
        ctx.case(("glob", p, tuple(sorted(subs.items()))), nontrivial)
        try:
            names = sorted(set(iter_wildcard_names(p)))
            checks.append(f"chk_names {cp} {coq_lstr(names)}")
            descr.append(("names", p, names))
        except ValueError:
            checks.append(f"chk_err (used_names {cp}) 1")
            descr.append(("names", p, "ValueError"))
        if k < 3:
            ctx.sample({"E1-strings": {"pattern": p, "subs": subs, "tokens": toks}})
    ctx.count("E1_string_checks", len(checks))
    bad = common.run_cases(ctx, "str", HEADER, checks, chunk=600)
    ctx.traces_validated += len(checks) - len(bad)
    _report(ctx, bad, descr, "strings")


def _corpus_patterns():
    """Patterns of tests/test_nglob.py plus the shapes found while building the check."""
    pats = [
        ("generic/${*ch}/*.md", {}), ("generic/*${*ch}**/*.md", {}), ("generic/${*md}${*ch}/${*md}", {}),
        ("generic/**?/?${*md}", {}), ("generic/${*md}[a[b]/?[*]", {}), ("**/${*name}.txt", {}),
        ("${*sub}/**/", {}), ("data**", {}), ("data/**/", {}), ("data/**/*.txt", {}), ("**", {}), ("**/", {}),
        ("${*a}${*b}${*a}/ab", {"a": "?a*", "b": "**b*"}), ("${*a}/ab", {"a": "**/*a"}),
        ("latex-${*name}/${*name}.tex", {"name": "?*"}), ("prefix_${*year}", {"year": "[0-9][0-9][0-9][0-9]"}),
        ("generic/${*ch}/[!abc].md", {}), ("bar_${*}.txt", {}), ("", {}), ("**\n", {}), ("a/**\n", {}),
        ("***", {}), ("a/***", {}), ("**/**", {}), ("**/**/", {}), ("*/**", {}), ("a**/b", {}), ("[]a]", {}),
        ("[a\nb]", {}), ("${*n}", {"n": ""}), ("${*n}", {"n": "${*q}"}), ("x/*${*n}", {}), ("*[!a]", {}),
        ("sub/${*x}/deep", {}), ("sub/*/", {}), ("${*n}/${*n}", {}), ("a${*n}*", {}), ("${*n}", {"n": "**"}),
    ]
    return pats


# ---------------------------------------------------------------------------------------------
# E1 acceptance: re.fullmatch of the real regex versus lib/Regex.v
# ---------------------------------------------------------------------------------------------


def _good_names(pattern):
    return all(re.fullmatch(r"[A-Za-z_][A-Za-z0-9_]*", nm)
               for nm in re.findall(r"\$\{\*([a-zA-Z0-9_]*)\}", pattern))


def e1_accept(ctx):
    from stepup.core.nglob import NamedGlob
    rng = ctx.rng
    checks, descr = [], []
    n = ctx.scale(320, 4000)
    tried = 0
    while len(checks) < n * 5 and tried < n * 6:
        tried += 1
        p = gen_pattern(rng, odd=0.03)
        subs = gen_subs(rng, p, odd=0.03)
        if not p or not classes_plain(p, subs):
            ctx.count("accept_skipped_class_body")
            continue
        try:
            ng = NamedGlob(p, subs)
        except ValueError:
            ctx.count("accept_skipped_valueerror")
            continue
        except re.error:
            ctx.count("accept_skipped_re_error")
            continue
        strings = set()
        for _ in range(5):
            strings.add(mutate(rng, instantiate(rng, p, subs)))
        strings.add(mutate(rng, gen_pattern(rng, odd=0, maxlen=3).replace("*", "a").replace("?", "b")))
        for s in sorted(strings):
            if len(s) > 24:
                continue
            vals = ng._match_values(s)
            checks.append(f"chk_match {coq_str(p)} {coq_subs(subs)} {coq_str(s)} {coq_key(vals)}")
            descr.append(("match", p, subs, s, vals))
            ctx.case(("match", p, tuple(sorted(subs.items())), s), vals is not None)
            ctx.count("accept_true" if vals is not None else "accept_false")
        if tried <= 2:
            ctx.sample({"E1-accept": {"pattern": p, "subs": subs, "strings": sorted(strings)[:4]}})
    ctx.count("E1_accept_checks", len(checks))
    bad = common.run_cases(ctx, "acc", HEADER, checks, chunk=300)
    ctx.traces_validated += len(checks) - len(bad)
    _report(ctx, bad, descr, "re.fullmatch / groupdict")


# ---------------------------------------------------------------------------------------------
# Trees
# ---------------------------------------------------------------------------------------------

TREE_NAMES = ["a", "b", "ab", "ba", "a1", ".h", ".hid", "c.txt", "a.txt", "x-x", "aa", "f", "d", "data", "b.md"]


def gen_tree(rng, depth=0, newline=False):
    tree = {}
    k = rng.randint(2, 5) if depth == 0 else rng.randint(0, 3)
    for name in rng.sample(TREE_NAMES, k):
        if depth < 3 and rng.random() < (0.55 if depth == 0 else 0.35):
            tree[name] = gen_tree(rng, depth + 1)
        else:
            tree[name] = None
    if newline and depth == 0:
        tree.setdefault("d", {})
        if tree["d"] is None:
            tree["d"] = {}
        tree["d"]["n\nl"] = None
    return tree


def tree_paths(tree, prefix=""):
    out = []
    for name, sub in tree.items():
        if sub is None:
            out.append(prefix + name)
        else:
            out.append(prefix + name + "/")
            out += tree_paths(sub, prefix + name + "/")
    return out


def make_tree(tree, base):
    for name, sub in tree.items():
        p = os.path.join(base, name)
        if sub is None:
            with open(p, "w"):
                pass
        else:
            os.mkdir(p)
            make_tree(sub, p)


def in_domain(pattern):
    if not pattern or pattern.startswith("/") or "//" in pattern or "\n" in pattern:
        return False
    return all(c not in (".", "..") for c in pattern.split("/"))


def generalise(rng, path):
    """A pattern derived from an existing path."""
    comps = path.rstrip("/").split("/")
    out = []
    names = ["${*n}", "${*m}", "${*n}"]
    for c in comps:
        r = rng.random()
        if r < 0.3:
            out.append(c)
        elif r < 0.45:
            out.append("*")
        elif r < 0.55:
            out.append(rng.choice(names))
        elif r < 0.62:
            out.append("**")
        elif r < 0.9 and c:
            i = rng.randrange(len(c))
            j = rng.randint(i, len(c))
            mid = rng.choice(["*", "?", "[!z]", "[a-c]", "${*n}", "${*m}", "*${*n}", "${*n}${*m}", "[!a]", "**",
                              "[!/]"])
            out.append(c[:i] + mid + c[j:])
        else:
            out.append(rng.choice(["?", "??", "[ab]", "[!a]", ".*", "*.*"]))
    p = "/".join(out)
    if path.endswith("/") and rng.random() < 0.5:
        p += "/"
    elif rng.random() < 0.15:
        p += rng.choice(["/*", "/**", "/", "/${*n}"])
    return p


def canon_glob(pattern):
    out = set()
    for q in pyglob.glob(pattern, recursive=True, include_hidden=True):
        if os.path.isdir(q) and not q.endswith("/"):
            q += "/"
        out.add(q)
    return out


def names_of(pattern):
    return re.findall(r"\$\{\*([a-zA-Z0-9_]*)\}", pattern)


class TreeCase:
    def __init__(self, tree, pattern, subs, rec, acc, std_own, allpaths, results):
        self.tree, self.pattern, self.subs = tree, pattern, subs
        self.rec, self.acc, self.std_own, self.allpaths, self.results = rec, acc, std_own, allpaths, results


def run_tree_cases(ctx, ntrees, npat, fixed=None):
    """Run the real NamedGlob on generated trees; returns the list of TreeCase."""
    from stepup.core.nglob import NamedGlob
    rng = ctx.rng
    cases = []
    trees = []
    if fixed is not None:
        trees = fixed
    else:
        for t in range(ntrees):
            tree = gen_tree(rng, newline=(t % 7 == 3))
            allp = tree_paths(tree)
            pats = []
            for _ in range(npat):
                if allp and rng.random() < 0.75:
                    p = generalise(rng, rng.choice(allp))
                else:
                    p = gen_pattern(rng, odd=0.0, maxlen=4)
                pats.append((p, gen_subs(rng, p, odd=0.02)))
            trees.append((tree, pats))
    for tree, pats in trees:
        allp = sorted(tree_paths(tree))
        with tempfile.TemporaryDirectory(prefix="verif-c17-") as tmp:
            make_tree(tree, tmp)
            with contextlib.chdir(tmp):
                for p, subs in pats:
                    if not in_domain(p) or any(not in_domain(v) for v in subs.values() if v) \
                            or not in_domain(expand_subs(p, subs)):
                        # the last test: a sub-pattern such as `**/` before a separator spells an empty
                        # inner component (`.hi${*m}/x` with m = `**/` reads `.hi**//x`)
                        ctx.count("tree_skipped_out_of_domain")
                        continue
                    try:
                        ng = NamedGlob(p, subs)
                    except (ValueError, re.error):
                        ctx.count("tree_skipped_invalid_pattern")
                        continue
                    ng.glob()
                    rec = {str(x) for x in ng.files()}
                    acc = {q for q in allp if ng._regex.fullmatch(q)}
                    std_own = canon_glob(ng._glob_pattern)
                    cases.append(TreeCase(tree, p, subs, rec, acc, std_own, allp,
                                          {k: {str(x) for x in v} for k, v in ng.results.items()}))
    return cases


def e1_trees(ctx):
    rng = ctx.rng
    cases = run_tree_cases(ctx, ctx.scale(14, 150), ctx.scale(9, 12))
    ctx.tree_cases = cases
    checks, descr = [], []
    sup_checks = []
    for c in cases:
        cp, cs = coq_str(c.pattern), coq_subs(c.subs)
        plain = classes_plain(c.pattern, c.subs) and _good_names(c.pattern)
        ct = coq_tree(c.tree)
        nontrivial = bool(c.acc) and bool(re.search(r"[*?\[]|\$\{\*", c.pattern))
        key = (c.pattern, tuple(sorted(c.subs.items())), tuple(c.allpaths))
        if plain:
            # the regex model over the existing paths: what the matcher accepts
            checks.append(f"chk_accept_set {cp} {cs} {coq_lstr(c.allpaths)} {coq_lstr(sorted(c.acc))}")
            descr.append(("accept-set", c.pattern, c.subs, c.allpaths, sorted(c.acc)))
            ctx.case(("accept-set",) + key, nontrivial)
            # the whole of glob(): glob model on the translated pattern, then the regex model
            checks.append(f"chk_scan {ct} {cp} {cs} {coq_lstr(sorted(c.rec))}")
            descr.append(("scan", c.pattern, c.subs, c.allpaths, sorted(c.rec)))
            ctx.case(("scan",) + key, nontrivial)
        # glob.glob on the translated pattern versus model/GlobSem.v
        from stepup.core.nglob import convert_nglob_to_glob
        gp = convert_nglob_to_glob(c.pattern, c.subs)
        if classes_plain(gp, {}):
            checks.append(f"chk_globsem {ct} {coq_str(gp)} {coq_lstr(sorted(c.std_own))}")
            descr.append(("globsem", gp, c.allpaths, sorted(c.std_own)))
            ctx.case(("globsem", gp, tuple(c.allpaths)), bool(c.std_own))
        sup_checks.append(f"ref_supported {cp} {cs}")
    checks.append(f"chk_all_paths {coq_tree(cases[0].tree)} {coq_lstr(cases[0].allpaths)}" if cases else "true")
    descr.append(("all-paths",))
    ctx.count("E1_tree_checks", len(checks))
    ctx.count("tree_cases", len(cases))
    ctx.count("tree_cases_with_match", sum(1 for c in cases if c.acc))
    if cases:
        c = cases[0]
        ctx.sample({"E1-tree": {"paths": c.allpaths[:12], "pattern": c.pattern, "subs": c.subs, "recorded": sorted(c.rec)}})
    bad = common.run_cases(ctx, "tree", HEADER, checks, chunk=120)
    ctx.traces_validated += len(checks) - len(bad)
    _report(ctx, bad, descr, "trees")
    # reference semantics (the code's reading: directories only for star-like endings) versus what
    # glob() records once the four known matcher/candidate defects are repaired (the oracle reports
    # those separately); patterns outside the reference's domain are counted, not compared
    unsupported = set(common.run_cases(ctx, "sup", HEADER, sup_checks, chunk=600))
    ctx.count("ref_unsupported_patterns", len(unsupported))
    # how many of the generated tree patterns lie in the fragment F1 of C17_compile_regex_correct_partial
    not_f1 = common.run_cases(ctx, "f1", HEADER, [f"f1 {coq_str(c.pattern)} {coq_subs(c.subs)}" for c in cases], chunk=600)
    ctx.count("tree_patterns_in_F1", len(cases) - len(not_f1))
    rchecks, rdescr = [], []
    for i, c in enumerate(cases):
        if i in unsupported or not (classes_plain(c.pattern, c.subs) and _good_names(c.pattern)):
            continue
        exp = expected_with_repairs(c)
        rchecks.append(f"chk_ref_set false {coq_str(c.pattern)} {coq_subs(c.subs)} "
                       f"{coq_lstr(c.allpaths)} {coq_lstr(sorted(exp))}")
        rdescr.append(("reference", c.pattern, c.subs, c.allpaths, sorted(exp)))
        ctx.case(("ref", c.pattern, tuple(sorted(c.subs.items())), tuple(c.allpaths)), bool(exp))
        ctx.count("ref_expected_differs_from_recorded", int(exp != c.rec))
        # the component-wise formulation of the reference must agree with the one the theorems use
        rchecks.append(f"chk_ref_agree false {coq_str(c.pattern)} {coq_subs(c.subs)} {coq_lstr(c.allpaths)}"
                       f" && chk_ref_agree true {coq_str(c.pattern)} {coq_subs(c.subs)} {coq_lstr(c.allpaths)}")
        rdescr.append(("reference-formulations", c.pattern, c.subs, c.allpaths))
    ctx.count("E1_ref_checks", len(rchecks))
    bad = common.run_cases(ctx, "ref", HEADER, rchecks, chunk=150)
    ctx.traces_validated += len(rchecks) - len(bad)
    _report(ctx, bad, rdescr, "reference semantics")


def _witness(c, **extra):
    w = {"tree": c.tree, "pattern": c.pattern, "subs": c.subs, "recorded": sorted(c.rec),
         "accepted_existing": sorted(c.acc), "glob_of_translated_pattern": sorted(c.std_own)}
    w.update(extra)
    return w


# ---------------------------------------------------------------------------------------------
# Explaining a disagreement by its cause (signature)
# ---------------------------------------------------------------------------------------------
# Five mechanisms are known (findings.d/C17-*.json).  Each has a hypothetical repair that can be
# applied to the regex text / the candidate list of the implementation without touching it.  A
# disagreement is attributed to the smallest set of mechanisms whose repairs make the clause hold;
# when no set does, the cause is "unexplained" and the failure is reported under that signature.

NEG, EMPTY, NEWLINE, GHOST, DIRS, SUBREC, SEPCLS = (
    "negated-class-accepts-separator",              # [!a] -> [^a] also matches '/'
    "empty-last-component-accepted",                # d/*${*n} and d/**/* accept "d/"
    "newline-not-matched-by-recursive-wildcard",    # ** -> .* without DOTALL
    "recursive-glob-yields-nonexistent-directory",  # glob('f/**') = ['f/'] although f is no directory
    "directory-dropped-last-token-not-star",        # `a` does not match the directory a/
    "recursive-wildcard-in-sub-pattern",            # ${*n} with n='**' is compiled out of context
    "class-contains-separator",                     # a[!/]b: glob.glob splits the pattern inside the brackets
)
CAUSES = [NEG, EMPTY, NEWLINE, GHOST, DIRS, SUBREC, SEPCLS]
_STAR = r"(?:\[\^/\][*+]|\(\?P<\w+>\[\^/\][*+]\)|\(\?P=\w+\))"
# the parts after the last separator, when each of them is a single-component wildcard or a back-reference
_TRAILING_RUN = re.compile(r"(?:/|\(\?:\.\*/\|\))(" + _STAR + r"+)(?:/\?)?$")


def wf_path_py(s):
    """Canonical relative path: non-empty components, optionally one trailing separator."""
    return bool(s) and not s.startswith("/") and "//" not in s


_TRAITS = {}


def impl_traits():
    """Two facts about the implementation under test, observed once: the flags its regex is compiled
    with, and whether glob() skips a 'prefix/' candidate that is no directory."""
    if not _TRAITS:
        from stepup.core.nglob import NamedGlob
        _TRAITS["flags"] = NamedGlob("x")._regex.flags & re.DOTALL
        with tempfile.TemporaryDirectory(prefix="verif-c17-") as tmp:
            with open(os.path.join(tmp, "f"), "w"):
                pass
            with contextlib.chdir(tmp):
                ng = NamedGlob("f/**")
                ng.glob()
                _TRAITS["skips_ghosts"] = not ng.files()
    return _TRAITS


def expand_subs(pattern, subs):
    """The pattern with every named wildcard spelled out by its sub-pattern (names must not repeat)."""
    from stepup.core.nglob import RE_ANY_WILD
    out = []
    for i, part in enumerate(RE_ANY_WILD.split(pattern)):
        if i % 2 == 1 and part.startswith("${*"):
            out.append(subs.get(part[3:-1], "*"))
        else:
            out.append(part)
    return "".join(out)


def has_recursive_sub(pattern, subs):
    from stepup.core.nglob import RE_ANY_WILD
    used = set(names_of(pattern))
    return any(tok in ("**", "**/") for n, v in subs.items() if n in used for tok in RE_ANY_WILD.split(v)[1::2])


def has_sep_class(pattern, subs):
    """Some bracket expression of the pattern (or of a used sub-pattern) contains the separator."""
    from stepup.core.nglob import RE_ANY_WILD
    used = set(names_of(pattern))
    texts = [pattern] + [v for n, v in subs.items() if n in used]
    return any(tok.startswith("[") and "/" in tok for t in texts for tok in RE_ANY_WILD.split(t)[1::2])


def repaired_candidates(pattern, subs, fixes, std, existing):
    """The candidate list glob() would scan if the hypothetical repairs in `fixes` were in place: `std` is
    what glob.glob returns for the translated pattern (directories normalised), `existing` all existing paths."""
    cands = set(std)
    if GHOST in fixes or impl_traits()["skips_ghosts"]:
        cands &= set(existing)
    if SEPCLS in fixes and trigger(SEPCLS, pattern, subs):
        # glob.glob splits such a pattern inside the brackets; a repaired translation would offer
        # every existing path the matcher could accept
        cands = set(existing)
    return cands


def trigger(cause, pattern, subs):
    """Does the pattern have the shape that the open finding describes?  Computed from the PATTERN only (never
    from what the implementation under test produces), so that a changed compiler that shows the symptom of a
    known finding on a pattern outside that finding's extent is not attributed to it (and not suppressed by
    KNOWN_FINDINGS.json).  findings.d/C17-D5{a,b,d,f,g}.json describe the extents."""
    toks = py_tokens(pattern)
    used = set(names_of(pattern))
    if cause == NEG:
        # D5a: a negated class, in the pattern or in a used sub-pattern
        texts = [toks] + [py_tokens(v) for n, v in subs.items() if n in used and v]
        return any(t.startswith("C!") for ts in texts for t in ts)
    if cause == DIRS:
        # D5b: the last token is not `*` / a first-occurrence default named wildcard / `**` / a separator
        if not toks or pattern.endswith("/"):
            return False
        last = toks[-1]
        if last in ("S", "D"):
            return False
        if last.startswith("N"):
            name = last[1:]
            first = toks.index(last) == len(toks) - 1
            return not (first and subs.get(name, "*") == "*")
        return True
    if cause == EMPTY:
        # D5d: the last component can be empty: two or more neighbouring star-like tokens at the end, a `**/`
        # right before the trailing star-like token(s), or a back-reference among them
        run = []
        for t in reversed(toks):
            if t == "S" or t.startswith("N"):
                run.append(t)
            else:
                break
        if not run:
            return False
        before = toks[:len(toks) - len(run)]
        backref = any(t.startswith("N") and (t in before or run.count(t) > 1) for t in run)
        return len(run) >= 2 or (bool(before) and before[-1] == "R") or backref
    if cause == SUBREC:
        return has_recursive_sub(pattern, subs)
    if cause == SEPCLS:
        return has_sep_class(pattern, subs)
    return True     # NEWLINE, GHOST: fixed in /repo, a regression is reported, not suppressed


def repaired_regex(pattern, subs, fixes):
    """The regex the implementation would use if the hypothetical repairs in `fixes` were in place.  A repair
    is only applied to a pattern inside the extent of its finding (`trigger`)."""
    from stepup.core.nglob import convert_nglob_to_regex
    fixes = {c for c in fixes if trigger(c, pattern, subs)}
    flags = impl_traits()["flags"]
    nm = names_of(pattern)
    if SUBREC in fixes and len(nm) == len(set(nm)):
        rx_text = convert_nglob_to_regex(expand_subs(pattern, subs), {})
    else:
        rx_text = convert_nglob_to_regex(pattern, subs)
    if NEG in fixes:
        rx_text = re.sub(r"\[\^(?!/)", "[^/", rx_text)
    if EMPTY in fixes:
        m = _TRAILING_RUN.search(rx_text)
        if m:
            rx_text = rx_text[:m.start(1)] + "(?=[^/])" + rx_text[m.start(1):]
    if NEWLINE in fixes:
        flags |= re.DOTALL
    if DIRS in fixes:
        if not rx_text.endswith("/?"):
            rx_text += "/?"
    return re.compile(rx_text, flags)


def clause_holds(c, fixes, clause):
    """Would the clause hold on this tree case if the repairs in `fixes` were in place?"""
    try:
        rx = repaired_regex(c.pattern, c.subs, fixes)
    except (ValueError, re.error):
        return False
    existing = set(c.allpaths)
    cands = repaired_candidates(c.pattern, c.subs, fixes, c.std_own, existing)
    rec = {q for q in cands if rx.fullmatch(q)}
    acc = {q for q in existing if rx.fullmatch(q)}
    if clause == "O1":
        return rec == acc
    if clause == "O2":
        if SEPCLS in fixes and has_sep_class(c.pattern, c.subs):
            return rec == acc    # the standard glob of such a pattern is not a reference
        return rec == (c.std_own & existing)
    raise AssertionError(clause)


def explain(holds):
    """Smallest set of causes whose repairs make holds(fixes) true; None when there is none."""
    import itertools
    for k in range(0, len(CAUSES) + 1):
        for fixes in itertools.combinations(CAUSES, k):
            if holds(set(fixes)):
                return list(fixes)
    return None


def report_causes(ctx, seen, clause, name, causes, detail, witness):
    for cause in (causes if causes is not None else ["unexplained"]):
        sig = f"C17:{cause}"
        if (clause, sig) in seen:
            continue
        seen.add((clause, sig))
        ctx.add_failure("oracle", name, sig, f"[{clause}; cause: {cause}] " + detail, witness=witness)


def expected_with_repairs(c):
    """What glob() would record with the matcher repairs in place (not the directory one)."""
    rx = repaired_regex(c.pattern, c.subs, {NEG, EMPTY, NEWLINE})
    return {q for q in c.allpaths if rx.fullmatch(q)}


# ---------------------------------------------------------------------------------------------
# E1 updates: extend / reduce / will_change of the real NamedGlob versus the model
# ---------------------------------------------------------------------------------------------


def e1_updates(ctx):
    from stepup.core.nglob import NamedGlob
    rng = ctx.rng
    checks, descr = [], []
    n = ctx.scale(120, 1500)
    pool_pats = ["d/${*n}-${*n}.t", "${*n}/${*m}", "*.txt", "a/*", "${*n}.${*m}", "d/${*n}", "**/${*n}.txt",
                 "${*n}${*m}", "x${*n}/y${*n}", "a/**", "[ab]${*n}", "${*n}"]
    for k in range(n):
        if rng.random() < 0.6:
            p = rng.choice(pool_pats)
            subs = gen_subs(rng, p, odd=0)
        else:
            p = gen_pattern(rng, odd=0.0, maxlen=4)
            subs = gen_subs(rng, p, odd=0)
        if not p or not classes_plain(p, subs) or not _good_names(p):
            continue
        try:
            ng = NamedGlob(p, subs)
        except (ValueError, re.error):
            continue
        universe = sorted({mutate(rng, instantiate(rng, p, subs)) for _ in range(7)} | {"zz", "a/b"})
        universe = [u for u in universe if len(u) <= 20]
        ops = []
        for _ in range(rng.randint(1, 4)):
            paths = [rng.choice(universe) for _ in range(rng.randint(0, 4))]
            is_ext = rng.random() < 0.6
            ops.append((is_ext, paths))
            (ng.extend if is_ext else ng.reduce)(paths)
        cops = "[" + "; ".join(f"({coq_bool(e)}, {coq_lstr(ps)})" for e, ps in ops) + "]"
        res = {k_: {str(x) for x in v} for k_, v in ng.results.items()}
        checks.append(f"chk_ops {coq_str(p)} {coq_subs(subs)} {cops} {coq_results(res)}")
        descr.append(("ops", p, subs, ops, {repr(k_): sorted(v) for k_, v in res.items()}))
        ctx.case(("ops", p, tuple(sorted(subs.items())), repr(ops)), bool(res))
        deleted = [rng.choice(universe) for _ in range(rng.randint(0, 3))]
        added = [rng.choice(universe) for _ in range(rng.randint(0, 3))]
        ev = ng.will_change(deleted, added)
        exp = "None" if ev is None else "(Some " + coq_results({k_: {str(x) for x in v} for k_, v in ev.results.items()}) + ")"
        checks.append(f"chk_will_change {coq_str(p)} {coq_subs(subs)} {cops} {coq_lstr(deleted)} {coq_lstr(added)} {exp}")
        descr.append(("will_change", p, subs, ops, deleted, added, None if ev is None else "changed"))
        ctx.case(("will_change", p, tuple(sorted(subs.items())), repr(ops), tuple(deleted), tuple(added)), ev is not None)
        ctx.count("will_change_none" if ev is None else "will_change_some")
    ctx.count("E1_update_checks", len(checks))
    bad = common.run_cases(ctx, "upd", HEADER, checks, chunk=200)
    ctx.traces_validated += len(checks) - len(bad)
    _report(ctx, bad, descr, "extend/reduce/will_change")


# ---------------------------------------------------------------------------------------------
# Oracle: the property clauses on the implementation
# ---------------------------------------------------------------------------------------------


def oracle(ctx):
    cases = getattr(ctx, "tree_cases", None)
    if cases is None:
        cases = run_tree_cases(ctx, ctx.scale(14, 150), ctx.scale(9, 12))
    fixed = run_tree_cases(ctx, 0, 0, fixed=[(tree, [(p, s)]) for tree, p, s in WITNESSES])
    ctx.count("refuted_witnesses_replayed", len(fixed))
    seen = oracle_on(ctx, fixed)
    oracle_on(ctx, cases, seen)
    oracle_named_vs_star(ctx)
    oracle_repeated(ctx)
    oracle_update(ctx)
    c17_batch.oracle_batch(ctx)


WITNESSES = [
    # the witnesses of the _refuted lemmas in coq/proofs/NglobRefute.v, replayed on the implementation
    ({"a": {}}, "*[!a]", {}),
    ({"a": {}}, "a", {}),
    ({"f": None}, "f/**", {}),
    ({"d": {}}, "d/*${*n}", {}),
    ({"d": {}}, "d/**/*", {}),
    ({"aa": {"aa": None}}, "*${*n}aa", {"n": "**"}),
    ({"a": {}}, "a${*n}/${*n}", {}),
    ({"d": {"n\nl": None}}, "d/**", {}),
    # D5g, C17_class_with_separator_candidates_incomplete_refuted (proofs/NglobCands2.v)
    ({"axb": None}, "a[!/]b", {}),
]


def oracle_on(ctx, cases, seen=None):
    seen = set() if seen is None else seen
    for c in cases:
        key = (c.pattern, tuple(sorted(c.subs.items())), tuple(c.allpaths))
        # O1: recorded = existing paths the matcher accepts
        ctx.case(("O1",) + key, bool(c.acc))
        if c.rec != c.acc:
            causes = explain(lambda fixes: clause_holds(c, fixes, "O1"))
            report_causes(ctx, seen, "O1", "O1:recorded=accepted-existing", causes,
                          f"NamedGlob({c.pattern!r}, {c.subs!r}).glob() recorded {sorted(c.rec)!r}; the existing "
                          f"paths its regex accepts are {sorted(c.acc)!r}", _witness(c))
        # O2: ... which, without repeated names, is what the standard recursive glob returns
        nm = names_of(c.pattern)
        if len(nm) == len(set(nm)):
            std = c.std_own & set(c.allpaths)
            ctx.case(("O2",) + key, bool(std))
            if c.rec != std:
                causes = explain(lambda fixes: clause_holds(c, fixes, "O2"))
                report_causes(ctx, seen, "O2", "O2:recorded=glob.glob", causes,
                              f"NamedGlob({c.pattern!r}, {c.subs!r}).glob() recorded {sorted(c.rec)!r}; "
                              f"glob.glob(translated pattern, recursive=True, include_hidden=True) returns the "
                              f"existing paths {sorted(std)!r}", _witness(c))
    return seen


def oracle_named_vs_star(ctx):
    """O3: replacing one anonymous `*` by a named wildcard never changes which paths match."""
    from stepup.core.nglob import RE_ANY_WILD, NamedGlob
    rng = ctx.rng
    n = ctx.scale(250, 3000)
    fails = 0
    seen = set()
    for _ in range(n):
        p = gen_pattern(rng, odd=0.0, maxlen=5)
        if not in_domain(p) or not classes_plain(p, {}) or not _good_names(p) or "fresh" in p:
            continue
        parts = RE_ANY_WILD.split(p)
        stars = [i for i, x in enumerate(parts) if i % 2 == 1 and x == "*"]
        if not stars:
            continue
        i = rng.choice(stars)
        q = "".join(parts[:i] + ["${*fresh}"] + parts[i + 1:])
        try:
            a, b = NamedGlob(p), NamedGlob(q)
        except (ValueError, re.error):
            continue
        strings = {mutate(rng, instantiate(rng, p, {})) for _ in range(6)} | {mutate(rng, instantiate(rng, q, {})) for _ in range(3)}
        for s in sorted(strings):
            if not wf_path_py(s):
                continue
            ma, mb = a._regex.fullmatch(s) is not None, b._regex.fullmatch(s) is not None
            ctx.case(("O3", p, i, s), ma or mb)
            if ma != mb:
                # next to another `*` the two compilers differ (merging) and one of them accepts an empty
                # last component: C17_named_equals_star_adjacent_refuted, mechanism D5d.  Attribute by repair.
                def holds(fixes, p=p, q=q, s=s):
                    try:
                        return (repaired_regex(p, {}, fixes).fullmatch(s) is None) == \
                            (repaired_regex(q, {}, fixes).fullmatch(s) is None)
                    except (ValueError, re.error):
                        return False
                causes = explain(holds)
                if causes:
                    ctx.count("O3_explained_by_" + "+".join(causes))
                    report_causes(ctx, seen, "O3", "O3:named=star", causes,
                                  f"{p!r} {'accepts' if ma else 'rejects'} {s!r} but {q!r} (one `*` replaced by a named "
                                  f"wildcard) {'accepts' if mb else 'rejects'} it",
                                  {"anonymous": p, "named": q, "path": s})
                    continue
            if ma != mb and fails < 1:
                fails += 1
                ctx.add_failure("oracle", "O3:named=star", "O3:named-wildcard-changes-acceptance",
                                f"{p!r} {'accepts' if ma else 'rejects'} {s!r} but {q!r} (one `*` replaced by a named "
                                f"wildcard) {'accepts' if mb else 'rejects'} it",
                                witness={"anonymous": p, "named": q, "path": s})
    ctx.count("O3_failures", fails)


def _spelled_tokens(pattern, name, value):
    """Token codes of `pattern` with ${*name} read as the literal text `value`."""
    out = []
    for tok in py_tokens(pattern):
        if tok == "N" + name:
            tok = "L" + value
        if tok.startswith("L") and out and out[-1].startswith("L"):
            out[-1] += tok[1:]
        elif tok != "L":
            out.append(tok)
    return out


def oracle_repeated(ctx):
    """O4: a repeated name only matches equal substrings: the accepted strings are exactly those accepted by
    the pattern with every occurrence of the name replaced by one literal text that fits the sub-pattern."""
    from stepup.core.nglob import NamedGlob, convert_nglob_to_regex
    rng = ctx.rng
    n = ctx.scale(150, 2000)
    pool = ["${*n}-${*n}", "a${*n}/${*n}.t", "${*n}${*n}", "${*n}/x/${*n}b", "${*n}.${*m}.${*n}", "*${*n}?${*n}",
            "${*n}[ab]${*n}"]
    fails = 0
    for k in range(n):
        p = rng.choice(pool) if k % 2 == 0 else gen_pattern(rng, odd=0.0, maxlen=5)
        nm = names_of(p)
        rep = [x for x in set(nm) if nm.count(x) >= 2]
        if not rep or not in_domain(p) or not classes_plain(p, {}) or not _good_names(p):
            continue
        name = sorted(rep)[0]
        subs = gen_subs(rng, p, odd=0)
        if any(not in_domain(v) or "/" in v or "**" in v for v in subs.values()):
            continue
        try:
            ng = NamedGlob(p, subs)
            sub_rx = re.compile(convert_nglob_to_regex(subs.get(name, "*"), {}, False))
        except (ValueError, re.error):
            continue
        for _ in range(5):
            s = mutate(rng, instantiate(rng, p, subs))
            if len(s) > 14 or s.endswith("/") or any(ch in s for ch in "*?[]$\n") or not wf_path_py(s):
                continue
            got = ng._regex.fullmatch(s)
            expect = False
            judged = True
            for i in range(len(s) + 1):
                for j in range(i, len(s) + 1):
                    v = s[i:j]
                    if "/" in v or not sub_rx.fullmatch(v):
                        continue
                    lit = p.replace("${*" + name + "}", v)
                    if not lit:
                        expect = expect or s == ""
                        continue
                    if _spelled_tokens(p, name, v) != py_tokens(lit):
                        # spelling the name out changed how the rest of the pattern is read (e.g. `**/`
                        # moved to the start): this value cannot be judged by substitution
                        judged = False
                        continue
                    try:
                        # the pattern with the name spelled out, compiled without post-processing of that text
                        if re.fullmatch(convert_nglob_to_regex(lit, subs).removesuffix("/?"), s):
                            expect = True
                    except (ValueError, re.error):
                        pass
            ctx.case(("O4", p, tuple(sorted(subs.items())), s), bool(got) or expect)
            if got is not None and got.groupdict()[name] is not None:
                v = got.groupdict()[name]
                # every occurrence must spell the captured text: count occurrences in s
                if s.count(v) < nm.count(name) and v:
                    expect = False
            if not judged:
                ctx.count("O4_not_judged")
                continue
            if (got is not None) != expect and fails < 1:
                fails += 1
                ctx.add_failure("oracle", "O4:repeated-name", "O4:repeated-name-unequal-substrings",
                                f"{p!r} with {subs!r} on {s!r}: regex says {got is not None}, substitution of one "
                                f"literal value for {name} says {expect}",
                                witness={"pattern": p, "subs": subs, "path": s})
    ctx.count("O4_failures", fails)


def oracle_update(ctx):
    """O5: will_change(deleted, added) on the recorded set equals a fresh glob() after the change."""
    from stepup.core.nglob import NamedGlob
    rng = ctx.rng
    ntrees = ctx.scale(10, 100)
    seen = set()
    for t in range(ntrees):
        tree = gen_tree(rng)
        allp = tree_paths(tree)
        pats = []
        for _ in range(8):
            p = generalise(rng, rng.choice(allp)) if allp and rng.random() < 0.8 else gen_pattern(rng, 0.0, 4)
            pats.append((p, gen_subs(rng, p, odd=0)))
        pats = [(p, s) for p, s in pats if in_domain(p) and all(in_domain(v) for v in s.values() if v)
                and in_domain(expand_subs(p, s))]
        with tempfile.TemporaryDirectory(prefix="verif-c17-") as tmp:
            make_tree(tree, tmp)
            with contextlib.chdir(tmp):
                olds = []
                for p, s in pats:
                    try:
                        ng = NamedGlob(p, s)
                    except (ValueError, re.error):
                        continue
                    ng.glob()
                    olds.append((ng, canon_glob(ng._glob_pattern)))
                before = set(_walk_paths("."))
                # change the tree: delete some paths (with everything below), add files and directories
                for q in rng.sample(sorted(before), min(len(before), rng.randint(0, 3))):
                    if os.path.lexists(q.rstrip("/")):
                        _remove(q.rstrip("/"))
                for _ in range(rng.randint(1, 4)):
                    dirs = [d for d in _walk_paths(".") if d.endswith("/")] + [""]
                    parent = rng.choice(dirs)
                    name = rng.choice(TREE_NAMES)
                    target = parent + name
                    if os.path.lexists(target):
                        continue
                    if rng.random() < 0.4:
                        os.mkdir(target)
                    else:
                        with open(target, "w"):
                            pass
                after = set(_walk_paths("."))
                deleted = sorted(before - after)
                added = sorted(after - before)
                # the watcher also reports modified files that still exist
                touched = [q for q in sorted(after & before) if not q.endswith("/") and rng.random() < 0.2]
                for ng, std_before in olds:
                    fresh = NamedGlob(ng.pattern, ng.subs)
                    fresh.glob()
                    std_after = canon_glob(ng._glob_pattern)
                    ev = ng.will_change(set(deleted), set(added) | set(touched))
                    new_results = ng.results if ev is None else ev.results
                    ctx.case(("O5", ng.pattern, tuple(sorted(ng.subs.items())), tuple(sorted(after)), tuple(deleted)),
                             bool(fresh.results) or bool(ng.results))
                    if new_results == fresh.results:
                        continue

                    def holds(fixes, ng=ng, std_before=std_before, std_after=std_after):
                        try:
                            rx = repaired_regex(ng.pattern, ng.subs, fixes)
                        except (ValueError, re.error):
                            return False
                        cb = repaired_candidates(ng.pattern, ng.subs, fixes, std_before, before)
                        ca = repaired_candidates(ng.pattern, ng.subs, fixes, std_after, after)
                        old = {q for q in cb if rx.fullmatch(q)}
                        evolved = (old | {q for q in set(added) | set(touched) if rx.fullmatch(q)}) - set(deleted)
                        return evolved == {q for q in ca if rx.fullmatch(q)}

                    causes = explain(holds)
                    if causes == []:
                        causes = None  # the sets agree but the grouped dictionaries do not
                    upd = sorted(str(x) for v in new_results.values() for x in v)
                    report_causes(ctx, seen, "O5", "O5:update=rescan", causes,
                                  f"NamedGlob({ng.pattern!r}, {ng.subs!r}): will_change(deleted={deleted!r}, "
                                  f"added={added!r}) gives {upd!r}, a fresh glob() gives "
                                  f"{sorted(str(x) for x in fresh.files())!r}",
                                  {"tree_before": tree, "paths_after": sorted(after), "deleted": deleted,
                                   "added": added, "touched": touched, "pattern": ng.pattern, "subs": ng.subs,
                                   "updated": upd, "rescanned": sorted(str(x) for x in fresh.files())})


def _walk_paths(base):
    out = []
    for root, dirs, files in os.walk(base):
        for d in dirs:
            out.append(os.path.normpath(os.path.join(root, d)) + "/")
        for f in files:
            out.append(os.path.normpath(os.path.join(root, f)))
    return out


def _remove(path):
    import shutil
    if os.path.isdir(path):
        shutil.rmtree(path)
    else:
        os.unlink(path)


def search(ctx):
    """An obligation broke and nothing above produced a witness: run the oracles with the thorough budget."""
    saved = ctx.tier
    ctx.tier = "thorough"
    try:
        cases = run_tree_cases(ctx, 120, 12)
        oracle_on(ctx, cases)
        oracle_named_vs_star(ctx)
        oracle_repeated(ctx)
        oracle_update(ctx)
        c17_batch.oracle_batch(ctx)
    finally:
        ctx.tier = saved


def replay(ctx, obj):
    w = obj["failure"].get("witness")
    print("replaying", w)
    if c17_batch.replay_batch(ctx, w):
        return
    if w and "tree" in w and "pattern" in w:
        cases = run_tree_cases(ctx, 0, 0, fixed=[(w["tree"], [(w["pattern"], w.get("subs", {}))])])
        oracle_on(ctx, cases)
        for c in cases:
            print("recorded", sorted(c.rec), "accepted", sorted(c.acc), "glob", sorted(c.std_own))
    else:
        oracle(ctx)
