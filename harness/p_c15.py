"""C15: requests that change the workflow are applied atomically."""
from __future__ import annotations

import asyncio
import contextlib
import json
import os
import socket
import tempfile
import types

from . import common
from .wfutil import fake_hash

PID = "C15"
PROPS_FILE = "props/C15.v"
MODEL_TARGETS = ["model/Txn.vo"]
RULE = ("correspondence E1-txn: random programs (1-4 tasks, 1-2 `async with db` blocks each, INSERTs, a raising "
        "statement, awaits inside blocks, cancellations at random times) run on the REAL DBSession under asyncio "
        "with a seeded gate scheduler; every executed instruction is logged and the same event list is run through "
        "model/Txn.v inside Coq (committed rows, per-transaction outcome, task endings must agree); a case is "
        "non-trivial when >=2 tasks overlap or something raises/cancels. oracle R (rollback): sessions of requests "
        "through the real DirectorHandler coroutines on a real Workflow/Scheduler/Builder/Executor (in-memory SQLite, "
        "_wire_director), every mutating handler kind, accepted and rejected at a late stage; ALL tables (main + temp, "
        "from sqlite_master/sqlite_temp_master) dumped before/after; a rejection must leave the dump byte-identical; "
        "non-trivial = rejected after at least one row was written inside the transaction (observed with "
        "sqlite3 total_changes) or accepted with a changed dump; distinct by (kind, request). oracle S "
        "(serialisability): 2-4 handler coroutines of different steps under asyncio.gather, final dump must equal "
        "the sequential application, in observed lock-acquisition order, on a twin world. oracle D (disconnect): "
        "complete frames then EOF on the real RPCServerConnection + DirectorHandler, with the handler blocked on the "
        "database lock while the peer goes away; the effect must equal the twin world where the request was awaited "
        "normally")
TRUSTED_BASE = [
    "Coq 8.16.1 kernel (vm_compute used in Examples, in the finite sweep over the generated handler table and in "
    "the correspondence evaluation; no native_compute)",
    "Print Assumptions: Closed under the global context for every C15 theorem (no axioms)",
    "translator/gen_structure.py: AST walk of DirectorHandler, the classification tables mutating / read-only / "
    "in-memory / separate-transaction for Workflow, Scheduler, Step, File, Builder, Executor methods, the shapes "
    "accepted for DBSession.__aenter__/__aexit__/_acquire/_release/_run and RPCServerConnection._recv_loop/"
    "_send_loop/stop",
    "harness/p_c15.py: table dump (every table of sqlite_master and sqlite_temp_master, ordered by all columns), "
    "gate scheduler and instruction log of the DBSession correspondence, socketpair driver of the server connection",
    "no extraction is used: the model is evaluated inside Coq by vm_compute",
]
ASSUMPTIONS = [
    "SQLite implements BEGIN IMMEDIATE / COMMIT / ROLLBACK atomically for main and temp tables (trusted; the "
    "rollback oracle observes it for every rejected request, durability on power loss is outside C15)",
    "asyncio runs a task without interruption between two awaits and asyncio.Lock is exclusive; the model "
    "interleaves at a finer grain, so every asyncio schedule is among the schedules quantified over",
    "'received in full' means: RPCServerConnection._recv_loop obtained the complete frame (a frame still in the "
    "kernel buffer when the loop ends was not received); 'applied in full' means the handler runs to commit or to "
    "its own rejection with rollback, exactly as it would with the client still connected",
    "'stored workflow' = the tables of the database; in-memory state (hash queue, wake events, watcher queue, "
    "Executor.running) and directories created by amend_step are outside it",
    "the classification of Workflow/Step methods as mutating or read-only is by name (table in the translator)",
    "a connection torn down by a protocol failure (garbage frame, unpicklable reply: LoopFail in the model) does "
    "cancel its in-flight handlers; that is not a disconnect. The model proves those cancellations roll back "
    "cleanly, and amend_step may then stop between its two transactions (first committed, second read-only)",
]

TIMEOUT = 20.0
CLOCK_JUMP = 3600.0   # seconds the loop clock is advanced while a handler waits for the lock (oracle D)


def generate(ctx):
    from translator import gen_structure
    # tolerant pre-scan first: the search needs it precisely when the strict scan below fails closed
    ctx.diag = gen_structure.diagnose()
    ctx.stats["diagnose"] = ctx.diag
    text, facts = gen_structure.generate()
    ctx.write_gen("GenStructure.v", text)
    ctx.facts = facts
    ctx.stats["handlers"] = [n for n, r, s in facts["handlers"] if r]
    ctx.stats["rpc_flags"] = {k: v for k, v in facts["rpc"].items() if isinstance(v, bool)}


# =============================================================================================
# E1-txn: real DBSession under asyncio versus model/Txn.v
# =============================================================================================

COQ_HEADER = ("From Coq Require Import List Arith Bool.\nImport ListNotations.\n"
              "From SV Require Import gen.GenStructure model.Txn.\n"
              "Definition push (n : nat) : mut (list nat) := fun s => Some (s ++ [n]).\n"
              "Definition boom : mut (list nat) := fun _ => None.\n"
              "Fixpoint leqb (a b : list nat) : bool := match a, b with [] , [] => true"
              " | x :: r, y :: q => Nat.eqb x y && leqb r q | _, _ => false end.\n"
              "Definition oc (f : fentry (list nat)) : nat := f_task f * 4 +"
              " (match f_out f with OCommit => 0 | ORollback => 1 end) + (if f_cancelled f then 2 else 0).\n"
              "Definition en (t : task (list nat)) : nat := match t_end t with None => 0 | Some EndDone => 1"
              " | Some EndRaise => 2 | Some EndCancel => 3 end.\n"
              "Definition agree (evs : list (event (list nat))) (rows outs ends : list nat) : bool :=\n"
              "  let st := run evs (init [] []) in leqb (s_committed st) rows"
              " && leqb (rev (map oc (s_log st))) outs && leqb (map en (s_tasks st)) ends"
              " && match s_open st with None => true | Some _ => false end.\n")


def _gen_program(rng, base):
    """A task program: list of blocks, each a list of ('m', n) | ('boom',) | ('y',)."""
    blocks = []
    for b in range(rng.choice([1, 1, 2])):
        body = []
        for k in range(rng.randint(0, 4)):
            r = rng.random()
            if r < 0.55:
                body.append(("m", base + 10 * b + k))
            elif r < 0.85:
                body.append(("y",))
            else:
                body.append(("boom",))
        blocks.append(body)
    return blocks


def _coq_prog(prog):
    def ins(i):
        return f"BMut (push {i[1]})" if i[0] == "m" else ("BMut boom" if i[0] == "boom" else "BYield")
    return "[" + "; ".join("[" + "; ".join(ins(i) for i in b) + "]" for b in prog) + "]"


async def _txn_trial(rng, progs, cancel_plan):
    """Run the programs on a real DBSession. Returns (events, rows, outcomes, endings)."""
    from stepup.core.sqlite3 import DBSession
    events = [f"Recv {i} {_coq_prog(p)}" for i, p in enumerate(progs)]
    outcomes, endings = [], [0] * len(progs)
    n = len(progs)
    gates = [asyncio.Event() for _ in range(n)]
    waiting = [False] * n
    done = [False] * n
    tick = asyncio.Event()

    async def gate(i):
        waiting[i] = True
        tick.set()
        try:
            await gates[i].wait()
        finally:
            waiting[i] = False
        gates[i].clear()

    with DBSession.open(":memory:") as db:
        async with db._autocommit_con() as con:
            con.execute("CREATE TABLE log (n INTEGER)")

        async def task(i, prog):
            try:
                try:
                    for body in prog:
                        await gate(i)                      # the await before lock.acquire()
                        inside = False
                        try:
                            async with db:
                                inside = True
                                events.append(f"Run {i}")  # acquired
                                for ins in body:
                                    if ins[0] == "m":
                                        db.execute("INSERT INTO log VALUES (?)", (ins[1],))
                                        events.append(f"Run {i}")
                                    elif ins[0] == "boom":
                                        raise ValueError("boom")
                                    else:
                                        await gate(i)      # an await inside the block
                                        events.append(f"Run {i}")
                            events.append(f"Run {i}")      # __aexit__(None): commit
                            outcomes.append(i * 4 + 0)
                        except ValueError:
                            events.append(f"Run {i}")      # the raising mutation + rollback
                            outcomes.append(i * 4 + 1)
                            endings[i] = 2
                            return
                        except asyncio.CancelledError:
                            events.append(f"Run {i}")      # delivery of the cancellation
                            if inside:
                                outcomes.append(i * 4 + 1 + 2)
                            endings[i] = 3
                            return
                    events.append(f"Run {i}")              # falls off the end: EndDone
                    endings[i] = 1
                except asyncio.CancelledError:
                    events.append(f"Run {i}")
                    endings[i] = 3
            finally:
                done[i] = True
                tick.set()

        tasks = [asyncio.create_task(task(i, p)) for i, p in enumerate(progs)]
        steps = 0
        while not all(done):
            # let every task run until it waits at a gate, is blocked on the lock, or is done
            for _ in range(4):
                await asyncio.sleep(0)
            ready = [i for i in range(n) if waiting[i] and not done[i]]
            steps += 1
            if steps > 400:
                raise RuntimeError("gate scheduler did not terminate")
            if cancel_plan and cancel_plan[0][0] <= steps:
                _, victim = cancel_plan.pop(0)
                if not done[victim]:
                    events.append(f"LoopFail {victim}")
                    tasks[victim].cancel()
                    continue
            if not ready:
                continue
            gates[rng.choice(ready)].set()
        await asyncio.gather(*tasks, return_exceptions=True)
        async with db:
            rows = [r[0] for r in db.execute("SELECT n FROM log ORDER BY rowid")]
    return events, rows, outcomes, endings


def correspondence(ctx):
    rng = ctx.rng
    ncase = ctx.scale(160, 1600)
    checks, descr = [], []

    async def all_trials():
        for k in range(ncase):
            n = rng.randint(1, 4)
            progs = [_gen_program(rng, 100 * (i + 1)) for i in range(n)]
            cancel_plan = []
            if rng.random() < 0.35:
                cancel_plan = sorted((rng.randint(1, 12), rng.randrange(n)) for _ in range(rng.randint(1, 2)))
            plan_copy = list(cancel_plan)
            events, rows, outs, ends = await asyncio.wait_for(_txn_trial(rng, progs, cancel_plan), TIMEOUT)
            lst = lambda xs: "[" + "; ".join(str(x) for x in xs) + "]"  # noqa: E731
            checks.append(f"agree [{'; '.join(events)}] {lst(rows)} {lst(outs)} {lst(ends)}")
            descr.append({"programs": progs, "cancel_plan": plan_copy, "events": events, "rows": rows,
                          "outcomes": outs, "endings": ends})
            nontrivial = n >= 2 or any(e != 1 for e in ends)
            ctx.case(("txn", json.dumps(progs), tuple(events)), nontrivial)
            ctx.count("txn_rollback" if any(o % 4 == 1 for o in outs) else "txn_all_commit")
            if any(o % 4 == 3 for o in outs) or 3 in ends:
                ctx.count("txn_with_cancel")

    asyncio.run(all_trials())
    for d in descr[:2]:
        ctx.sample({"E1-txn": {k: d[k] for k in ("programs", "rows", "outcomes", "endings")}})
    bad = common.run_cases(ctx, "txn", COQ_HEADER, checks, chunk=200)
    ctx.traces_validated += len(checks) - len(bad)
    ctx.count("txn_cases", len(checks))
    for i in bad[:3]:
        ctx.add_failure("correspondence", "E1-txn", "E1-txn:model-vs-DBSession",
                        f"model/Txn.v and the real DBSession disagree: {json.dumps(descr[i])[:900]}",
                        witness=descr[i])


# =============================================================================================
# Real DirectorHandler worlds
# =============================================================================================


SCRATCH = ("path_list", "node_list")


def dump_db(con, skip_scratch=False):
    """Every table of the main and the temp database, rows ordered by all columns.

    skip_scratch: leave out temp.path_list / temp.node_list. Every function that uses one of them
    clears it first (checked by translator.gen_structure.scan_scratch_tables), so what they hold
    never influences later behaviour; it depends on which transaction ran last, which differs
    between a run and its twin when hash threads finish in another order. The rollback oracle
    does NOT skip them: a ROLLBACK restores temp tables too.
    """
    out = []
    for schema, master in (("main", "sqlite_master"), ("temp", "sqlite_temp_master")):
        names = [r[0] for r in con.execute(f"SELECT name FROM {master} WHERE type = 'table' ORDER BY name")]
        if schema == "main" and con.execute(
                "SELECT count(*) FROM sqlite_master WHERE name = 'sqlite_sequence'").fetchone()[0]:
            pass  # already listed
        for name in names:
            if skip_scratch and schema == "temp" and name in SCRATCH:
                continue
            rows = con.execute(f'SELECT * FROM {schema}."{name}"').fetchall()
            rows = sorted(repr(r) for r in rows)
            out.append(f"== {schema}.{name} ({len(rows)})")
            out.extend(rows)
    return "\n".join(out)


def dump_diff(a, b, limit=8):
    la, lb = a.split("\n"), b.split("\n")
    sa, sb = set(la), set(lb)
    return {"only_before": [x for x in la if x not in sb][:limit], "only_after": [x for x in lb if x not in sa][:limit]}


class _Rec:
    """Reporter stand-in (BaseAsyncRPCClient duck type)."""

    async def __call__(self, name, /, *args, **kwargs):
        return None

    @property
    def call(self):
        from stepup.core.rpc import RemoteCallProxy
        return RemoteCallProxy(self)

    async def close(self):
        return None


class _FakeWatcher:
    def __init__(self):
        self.busy_watching = asyncio.Event()
        self.busy_watching.set()
        self.end_watching = asyncio.Event()
        self.done_watching = asyncio.Event()
        self.done_watching.set()
        self.updated = set()
        self.deleted = set()


DEFAULT = 32  # Need.DEFAULT.value, checked in World
# files that exist under the static tree tree/ of every world and are not hashed yet: an amend_step naming one of
# them as input gets a non-empty to_check, i.e. promoted hash jobs between the handler's two transactions
TREE_FILES = [f"tree/u{i:02d}.txt" for i in range(24)] + [f"tree/sub/v{i:02d}.txt" for i in range(8)]


class World:
    """A real DirectorHandler on an in-memory database, with a running plan and three running steps."""

    JOBS = {"plan": 1, "w1": 2, "w2": 3, "w3": 4}

    def __init__(self, targets=False):
        self.targets = targets

    async def __aenter__(self):
        from path import Path
        from stepup.core.director import ServeConfig, _wire_director
        from stepup.core.enums import HashUpdateCause, Need, StepState
        from stepup.core.reporter import ReporterClient
        from stepup.core.sqlite3 import DBSession
        from stepup.core.step import Step
        assert Need.DEFAULT.value == DEFAULT
        self.stack = contextlib.ExitStack()
        self.db = self.stack.enter_context(DBSession.open(":memory:"))
        cfg = ServeConfig(njob=2, use_duration=False,
                          targets=[Path("t/target.txt"), Path("tree/tt.txt")] if self.targets else [])
        self.h = await _wire_director(db=self.db, reporter=ReporterClient(_Rec()), config=cfg,
                                      infra_env={}, mp_ctx=None)
        self.h.watcher = _FakeWatcher()
        h = self.h
        async with self.db:
            h.workflow.initialize_boot()
            plan = h.workflow.find(Step, "./plan.py")
            plan.set_state(StepState.RUNNING)
        self._register(1, plan)
        base = [
            ("declare_static", (1, ["tree/"], ["s/a.txt", "s/b.txt", "src.txt"], [])),
            ("define_step", (1, "mk1", ["late_in.txt", "src.txt"], [], ["o1.txt"], ["v1.txt"], ".", DEFAULT, {})),
            ("define_step", (1, "mk2", ["o1.txt"], [], ["o2.txt"], [], ".", DEFAULT, {})),
            ("define_step", (1, "w1", ["src.txt"], ["ENVA"], ["w1.out"], [], ".", DEFAULT, {})),
            ("define_step", (1, "w2", [], [], ["w2.out"], [], ".", DEFAULT, {})),
            ("define_step", (1, "w3", [], [], [], [], ".", DEFAULT, {})),
            ("define_step", (1, "mk3", ["w1.out"], [], ["o3.txt"], [], ".", DEFAULT, {})),
            ("define_step", (1, "bad", [], [], ["bad.out"], [], ".", DEFAULT, {})),
        ]
        for name, args in base:
            await getattr(h, name)(*args)
        async with self.db:
            rows = self.db.execute(
                "SELECT node.label FROM node JOIN file ON file.node = node.i WHERE file.state = ?",
                (_unconfirmed(),)).fetchall()
            h.workflow.update_file_hashes({p: fake_hash(p) for (p,) in rows if not p.startswith("tree/")},
                                          cause=HashUpdateCause.CONFIRMED)
            for lbl, job in (("w1", 2), ("w2", 3), ("w3", 4)):
                st = h.workflow.find(Step, lbl)
                st.set_state(StepState.RUNNING)
                self._register(job, st)
            h.workflow.find(Step, "bad").set_state(StepState.FAILED)
        await h.hold_dispatch(3)
        await h.register_glob(4, "g/*.dat", {}, ["g/x.dat"])
        self.con = self.db._con
        return self

    def _register(self, job, step):
        self.h.scheduler.jobs[job] = step
        self.h.executor.running[job] = types.SimpleNamespace(unavailable=set(), unfresh=set(), success=True,
                                                             worker=None)

    async def __aexit__(self, *a):
        self.h.builder.hash_queue.shutdown()
        with contextlib.suppress(Exception):
            await self.h.reporter.stop_reporting()
        self.stack.close()

    def dump(self, skip_scratch=False):
        return dump_db(self.con, skip_scratch)

    async def call(self, req):
        try:
            res = await asyncio.wait_for(getattr(self.h, req["name"])(*req["args"]), TIMEOUT)
            return ["ok", repr(res)]
        except asyncio.TimeoutError:
            raise
        except Exception as e:  # noqa: BLE001 - the reply a client would get
            return ["err", type(e).__name__, str(e)[:200]]


def _unconfirmed():
    from stepup.core.enums import FileState
    return FileState.UNCONFIRMED.value


# ---------------------------------------------------------------------------------------------
# request generators: (kind, expect, request)
# ---------------------------------------------------------------------------------------------


def _fresh(rng, n, prefix, ext=".txt"):
    return sorted({f"{prefix}{rng.randrange(1000)}{ext}" for _ in range(n)} or {f"{prefix}0{ext}"})


def gen_request(rng, targets):
    """One request against the base world. expect in {'reject', 'accept', 'any'}."""
    J = World.JOBS
    n = rng.randint(1, 4)
    good = _fresh(rng, n, rng.choice(["a", "n/a", "zz/q"]))
    kinds = [
        "define_late_cycle", "define_out_collision", "define_vol_is_input", "define_inp_volatile",
        "define_dup_step", "define_glob_match", "define_ok", "define_tree_product",
        "amend_inp_volatile", "amend_cycle", "amend_out_collision", "amend_ok", "amend_tree_ok",
        "amend_glob_match", "amend_vol_dir",
        # inputs that need promoted hash jobs (unhashed matches of a static tree) + products rejected for every reason
        "amend_tree_out_collision", "amend_tree_out_in_tree", "amend_tree_out_glob", "amend_tree_out_stepup",
        "amend_tree_out_vol_overlap", "amend_tree_vol_dir", "amend_tree_vol_is_output", "amend_tree_out_is_dir",
        "amend_tree_products_ok", "amend_tree_products_ok",
        "static_collision_nth", "static_bad_glob", "static_tree_then_collision", "static_ok",
        "static_tree_parent", "static_stepup_glob",
        "glob_product", "glob_ok", "glob_stepup",
        "release_without_hold", "hold_ok", "release_ok", "record_ok", "start_build_ok", "unknown_job",
    ]
    if targets:
        kinds += ["static_forbidden_target", "define_inp_tree_target", "define_vol_target_late"] * 3
    kind = rng.choice(kinds)
    job = rng.choice([J["w1"], J["w2"], J["w3"], J["plan"]])
    cmd = f"c{rng.randrange(10000)}"
    d = lambda *a: {"name": "define_step", "args": [*a, ".", DEFAULT, {}]}  # noqa: E731
    if kind == "define_late_cycle":
        # reads o1.txt (made by mk1), writes late_in.txt (read by mk1): cycle found on the last output
        return kind, "reject", d(job, cmd, ["o1.txt", *good], [], sorted([*good[:0], "aa_" + cmd + ".txt", "late_in.txt"]), [])
    if kind == "define_out_collision":
        return kind, "reject", d(job, cmd, good, ["EV"], sorted(["aa_" + cmd + ".out", "o2.txt"]), [])
    if kind == "define_vol_is_input":
        # src.txt is an input of existing steps: a volatile declaration is refused after create()
        return kind, "reject", d(job, cmd, good, [], ["aa_" + cmd + ".out"], ["late_in.txt"])
    if kind == "define_inp_volatile":
        return kind, "reject", d(job, cmd, sorted([*good, "v1.txt"]), [], ["aa_" + cmd + ".out"], [])
    if kind == "define_dup_step":
        return kind, "reject", d(job if job != J["plan"] else J["w1"], "mk2", good, [], ["zz_" + cmd + ".out"], [])
    if kind == "define_glob_match":
        return kind, "reject", d(job, cmd, good, [], ["g/made.dat"], [])
    if kind == "define_tree_product":
        return kind, "reject", d(job, cmd, good, [], sorted(["aa_" + cmd + ".out", "tree/made.txt"]), [])
    if kind == "define_ok":
        return kind, "accept", d(job, cmd, sorted([*good, "o2.txt"]), ["EV1"], [cmd + ".out"], [cmd + ".vol"])
    if kind == "define_inp_tree_target":
        return kind, "reject", d(job, cmd, sorted([*good, "tree/tt.txt"]), [], [cmd + ".out"], [])
    if kind == "define_vol_target_late":
        return kind, "reject", d(job, cmd, good, [], [cmd + ".out"], ["t/target.txt"])
    a = lambda j, i, e, o, v: {"name": "amend_step", "args": [j, i, e, o, v]}  # noqa: E731
    wjob = rng.choice([J["w1"], J["w2"], J["w3"]])
    if kind == "amend_inp_volatile":
        return kind, "reject", a(wjob, sorted([*good, "v1.txt"]), ["EVA"], [], [])
    if kind == "amend_cycle":
        return kind, "reject", a(J["w1"], sorted([*good, "o3.txt"]), [], [], [])
    if kind == "amend_out_collision":
        return kind, "reject", a(wjob, good, ["EVB"], sorted(["aa_" + cmd + ".out", "o1.txt"]), [])
    if kind == "amend_glob_match":
        return kind, "reject", a(wjob, good, ["EVC"], ["g/am.dat"], [])
    if kind == "amend_vol_dir":
        return kind, "reject", a(wjob, good, [], ["aa_" + cmd + ".out"], ["voldir/"])
    if kind == "amend_ok":
        return kind, "accept", a(wjob, sorted([*good, "src.txt"]), ["EVD"], [cmd + ".aout"], [cmd + ".avol"])
    if kind.startswith("amend_tree_") and kind != "amend_tree_ok":
        tin = sorted(rng.sample(TREE_FILES, rng.randint(1, 3)) + (["tree/missing.txt"] if rng.random() < 0.3 else [])
                     + (good if rng.random() < 0.5 else []))
        okout, okvol = "aa_" + cmd + ".out", "aa_" + cmd + ".vol"
        out, vol, expect = {
            "amend_tree_out_collision": (sorted([okout, "o1.txt"]), [okvol], "reject"),
            "amend_tree_out_in_tree": (sorted([okout, "tree/made.txt"]), [], "reject"),
            "amend_tree_out_glob": (sorted([okout, "g/am.dat"]), [okvol], "reject"),
            "amend_tree_out_stepup": (sorted([okout, ".stepup/x.txt"]), [], "reject"),
            "amend_tree_out_vol_overlap": ([okout], [okout], "reject"),
            "amend_tree_vol_dir": ([okout], ["voldir/"], "reject"),
            "amend_tree_vol_is_output": ([], sorted([okvol, "o2.txt"]), "reject"),
            "amend_tree_out_is_dir": (["sub2/"], [], "reject"),
            "amend_tree_products_ok": ([okout], [okvol], "accept"),
        }[kind]
        return kind, expect, a(wjob, tin, ["EVT"] if rng.random() < 0.5 else [], out, vol)
    if kind == "amend_tree_ok":
        return kind, "accept", a(wjob, sorted(["tree/t1.txt", "tree/sub/t2.txt", "tree/missing.txt"]), [], [], [])
    s = lambda j, t, f, p: {"name": "declare_static", "args": [j, t, f, p]}  # noqa: E731
    if kind == "static_collision_nth":
        return kind, "reject", s(job, ["nt_" + cmd + "/"], sorted([*good, "o2.txt"]), [])
    if kind == "static_bad_glob":
        return kind, "reject", s(job, [], good, [("*.txt", sorted([*good, "o1.txt"]))])
    if kind == "static_tree_then_collision":
        return kind, "reject", s(job, ["aa_" + cmd + "/", "tree/sub/"], good, [])
    if kind == "static_tree_parent":
        return kind, "reject", s(job, ["nt_" + cmd + "/", "s/"], good, [])
    if kind == "static_stepup_glob":
        return kind, "reject", s(job, ["nt_" + cmd + "/"], good, [("**", [".stepup/x", *good])])
    if kind == "static_forbidden_target":
        return kind, "reject", s(job, [], sorted(["aa_" + cmd + ".txt", "t/target.txt"]), [])
    if kind == "static_ok":
        return kind, "accept", s(job, ["nt_" + cmd + "/"], good, [("n/*.txt", [g for g in good if g.startswith("n/")])])
    g = lambda j, p, m: {"name": "register_glob", "args": [j, p, {}, m]}  # noqa: E731
    if kind == "glob_product":
        return kind, "reject", g(job, "*.txt", sorted([*good, "o1.txt", "src.txt"]))
    if kind == "glob_stepup":
        return kind, "reject", g(job, ".stepup/*", sorted([".stepup/graph.db"]))
    if kind == "glob_ok":
        return kind, "accept", g(job, "s/*.txt", ["s/a.txt", "s/b.txt"])
    if kind == "release_without_hold":
        return kind, "reject", {"name": "release_dispatch", "args": [rng.choice([J["w1"], J["w3"]])]}
    if kind == "hold_ok":
        return kind, "accept", {"name": "hold_dispatch", "args": [wjob]}
    if kind == "release_ok":
        return kind, "any", {"name": "release_dispatch", "args": [J["w2"]]}
    if kind == "record_ok":
        return kind, "accept", {"name": "record_subprocess",
                                "args": [wjob, "echo " + cmd, 0, ".", {"X": "1"}, False, "", "out", ""]}
    if kind == "start_build_ok":
        return kind, "accept", {"name": "start_build_phase", "args": []}
    return "unknown_job", "reject", {"name": rng.choice(["hold_dispatch", "release_dispatch"]), "args": [99]}


@contextlib.contextmanager
def _workdir():
    """All worlds of one run share one temporary project directory (same inode/mtime of plan.py)."""
    old = os.getcwd()
    with tempfile.TemporaryDirectory(prefix="verif-c15-") as d:
        os.chdir(d)
        try:
            with open("plan.py", "w") as fh:
                fh.write("#!/usr/bin/env python3\n")
            os.chmod("plan.py", 0o755)
            os.makedirs("tree/sub")
            for p in ("tree/t1.txt", "tree/sub/t2.txt", "tree/tt.txt", *TREE_FILES):
                with open(p, "w") as fh:
                    fh.write("content of " + p)
            yield d
        finally:
            os.chdir(old)


async def _rollback_sessions(ctx, nsession, fails):
    rng = ctx.rng
    for _ in range(nsession):
        targets = rng.random() < 0.35
        async with World(targets=targets) as w:
            history = []
            for _ in range(rng.randint(3, 7)):
                kind, expect, req = gen_request(rng, targets)
                before = w.dump()
                ch0 = w.con.total_changes
                reply = await w.call(req)
                wrote = w.con.total_changes - ch0
                after = w.dump()
                rejected = reply[0] == "err"
                ctx.count(f"R:{kind}:{'rejected' if rejected else 'accepted'}")
                nontrivial = (rejected and wrote > 0) or (not rejected and after != before)
                if rejected and wrote > 0:
                    ctx.count("R:rejected_after_writes")
                ctx.case(("R", kind, json.dumps(req), len(history)), nontrivial)
                ctx.sample({"oracle-R": {"kind": kind, "request": req, "reply": reply, "rows_written_before_reject": wrote}},
                           limit=5)
                entry = {"kind": kind, "request": req, "reply": reply}
                if rejected and after != before:
                    fails.append(("rollback", kind, {"targets": targets, "history": history, "request": req,
                                                     "reply": reply, "diff": dump_diff(before, after)}))
                if expect == "reject" and not rejected:
                    ctx.count("R:generator_expected_reject_but_accepted")
                if expect == "accept" and rejected:
                    ctx.count("R:generator_expected_accept_but_rejected:" + kind)
                # a request that ended on an internal error (not a usage error) is not C15's business,
                # but the rollback requirement holds for it as well
                history.append(entry)


# ---------------------------------------------------------------------------------------------
# oracle I: a raising point injected at every SQL statement of a handler's transaction
# ---------------------------------------------------------------------------------------------


import sqlite3 as _sqlite3  # noqa: E402


class _InjectedFault(_sqlite3.OperationalError):
    """What the k-th statement of the request raises: a database error (disk full, SQLITE_BUSY, ...)."""


@contextlib.contextmanager
def _inject_at(state):
    """Wrap DBSession._run: the statement number state['at'] issued by the task state['task'] raises.

    state['n'] counts the statements of that task; state['hit'] tells whether the fault fired."""
    from stepup.core.sqlite3 import DBSession
    orig = DBSession._run

    def _run(self, query, args, *, many):
        if asyncio.current_task() is state["task"]:
            k = state["n"]
            state["n"] += 1
            if k == state["at"]:
                state["hit"] = (k, " ".join(query.split())[:70])
                raise _InjectedFault(f"injected at statement {k}")
        return orig(self, query, args, many=many)

    DBSession._run = _run
    try:
        yield
    finally:
        DBSession._run = orig


async def _inject_cases(ctx, ncase, fails, max_points=48):
    """For one request: every statement index k in turn raises (same world: a rolled-back attempt must leave
    nothing behind, so the next attempt starts from the same store); then the request runs undisturbed and the
    result is compared with a twin world that only ever saw the undisturbed request."""
    rng = ctx.rng
    for _ in range(ncase):
        for _ in range(50):
            kind, expect, req = gen_request(rng, False)
            if kind not in ("unknown_job", "start_build_ok", "release_ok"):
                break
        async with World() as w:
            w.h.workflow.dir_queue = asyncio.Queue()
            state = {"task": None, "n": 0, "at": -1, "hit": None}

            async def attempt(at):
                state.update(task=asyncio.current_task(), n=0, at=at, hit=None)
                with _inject_at(state):
                    return await w.call(req)
            # how many statements does the undisturbed request issue? (twin world)
            async with World() as w2:
                st2 = {"task": asyncio.current_task(), "n": 0, "at": -1, "hit": None}
                with _inject_at(st2):
                    reply2 = await w2.call(req)
                ref = w2.dump(True)
                nstmt = st2["n"]
            points = list(range(nstmt)) if nstmt <= max_points else sorted(rng.sample(range(nstmt), max_points))
            before = w.dump()
            for k in points:
                reply = await attempt(k)
                after = w.dump()
                if state["hit"] is None:
                    ctx.count("I:fault_point_not_reached")   # nondeterministic statement count: not expected
                    break
                ctx.case(("I", kind, json.dumps(req), k), True)
                ctx.count("I:injected_faults")
                if reply[0] != "err":
                    ctx.count("I:fault_swallowed_by_handler")
                if after != before:
                    if w.dump(True) == ref:
                        # the fault hit after the (only) writing transaction was committed, e.g. in the read-only
                        # second block of amend_step: the request took full effect, which the text allows
                        ctx.count(f"I:fault_after_commit_full_effect:{req['name']}")
                        break
                    fails.append(("inject", kind, {"request": req, "fault_at_statement": k, "statement": state["hit"][1],
                                                   "statements_of_request": nstmt, "reply": reply,
                                                   "diff": dump_diff(before, after)}))
                    break
            else:
                reply = await attempt(-1)
                got = w.dump(True)
                ctx.count("I:requests")
                ctx.count("I:dir_queue_entries_left_by_rolled_back_attempts", w.h.workflow.dir_queue.qsize())
                if got != ref or reply != reply2:
                    fails.append(("inject-residue", kind, {"request": req, "faults_at": points, "reply": reply,
                                                           "reply_without_faults": reply2, "diff": dump_diff(ref, got)}))


# ---------------------------------------------------------------------------------------------
# oracle S: concurrent handlers versus the sequential order of lock acquisition
# ---------------------------------------------------------------------------------------------


@contextlib.contextmanager
def _lock_log(log):
    """Wrap DBSession.__aenter__/__aexit__ to record who got the transaction and how it ended."""
    from stepup.core.sqlite3 import DBSession
    orig_enter, orig_exit = DBSession.__aenter__, DBSession.__aexit__

    async def aenter(self):
        r = await orig_enter(self)
        t = asyncio.current_task()
        log.append(("begin", t.get_name() if t else "?"))
        return r

    async def aexit(self, et, e, tb):
        t = asyncio.current_task()
        log.append(("rollback" if e is not None else "commit", t.get_name() if t else "?"))
        return await orig_exit(self, et, e, tb)

    DBSession.__aenter__, DBSession.__aexit__ = aenter, aexit
    try:
        yield
    finally:
        DBSession.__aenter__, DBSession.__aexit__ = orig_enter, orig_exit


def _distinct_jobs(rng, k):
    jobs = [2, 3, 4, 1]
    rng.shuffle(jobs)
    return jobs[:k]


def _retarget(req, job):
    if req["name"] == "start_build_phase":
        return req
    r = {"name": req["name"], "args": list(req["args"])}
    r["args"][0] = job
    return r


async def _concurrent_cases(ctx, ncase, fails):
    rng = ctx.rng
    for _ in range(ncase):
        k = rng.randint(2, 4)
        reqs = []
        for job in _distinct_jobs(rng, k):
            for _ in range(50):
                kind, expect, req = gen_request(rng, False)
                if kind in ("amend_cycle", "unknown_job", "release_ok", "release_without_hold", "hold_ok",
                            "start_build_ok") or (req["name"] == "amend_step" and job == 1):
                    continue
                break
            reqs.append((kind, _retarget(req, job)))
        hold_first = rng.random() < 0.7
        log = []
        async with World() as w:
            with _lock_log(log):
                if hold_first:
                    # everybody queues on the lock while the harness holds a transaction
                    await w.db.__aenter__()
                    log.clear()
                tasks = [asyncio.create_task(w.call(r), name=f"req{i}") for i, (_, r) in enumerate(reqs)]
                if hold_first:
                    for _ in range(3):
                        await asyncio.sleep(0)
                    await w.db.__aexit__(None, None, None)
                    log[:] = [x for x in log if x[1].startswith("req")]
                replies = await asyncio.wait_for(asyncio.gather(*tasks), TIMEOUT)
            final = w.dump(True)
        # serial reference: the first transaction of each request in lock order; a request whose handler
        # has a second (read-only) transaction is still one unit of the sequential run
        order = []
        for ev, name in log:
            if ev == "begin" and name.startswith("req") and int(name[3:]) not in order:
                order.append(int(name[3:]))
        interleaved = _interleaved(log)
        async with World() as w2:
            replies2 = {}
            for i in order:
                replies2[i] = await w2.call(reqs[i][1])
            ref = w2.dump(True)
        ctx.case(("S", json.dumps([r for _, r in reqs]), tuple(order)), True)
        ctx.count(f"S:k={k}")
        if interleaved:
            ctx.count("S:lock_log_interleaved_blocks")
        ok = final == ref and all(replies[i] == replies2[i] for i in order) and len(order) == k
        if not ok or interleaved:
            fails.append(("serial", "+".join(kd for kd, _ in reqs),
                          {"requests": [r for _, r in reqs], "lock_order": order, "replies": replies,
                           "replies_sequential": [replies2.get(i) for i in range(k)], "lock_log": log[:40],
                           "diff": dump_diff(ref, final), "hold_first": hold_first}))
    return None


def _interleaved(log):
    """True when a begin is logged while another transaction is open (never allowed)."""
    cur = None
    for ev, name in log:
        if ev == "begin":
            if cur is not None:
                return True
            cur = name
        else:
            if cur != name:
                return True
            cur = None
    return False


# ---------------------------------------------------------------------------------------------
# oracle A: amend_step whose inputs need promoted hash jobs, another step's request during that await
# ---------------------------------------------------------------------------------------------


@contextlib.contextmanager
def _during_hash_await(hook, fired):
    """Run `hook()` once, at the moment a handler starts awaiting Builder.run_promoted_hash_jobs (the only await of a
    mutating handler other than the lock): between the two transactions of amend_step."""
    from stepup.core.builder import Builder
    orig = Builder.run_promoted_hash_jobs

    async def wrapped(self, *a, **k):
        if not fired:
            fired.append(True)
            await hook()
        return await orig(self, *a, **k)

    Builder.run_promoted_hash_jobs = wrapped
    try:
        yield
    finally:
        Builder.run_promoted_hash_jobs = orig


def _amend_pairs(rng):
    """(kind, amend request A of job 2, request B of another step that conflicts with or depends on A's products)."""
    cmd = f"c{rng.randrange(10000)}"
    tin = sorted(rng.sample(TREE_FILES, rng.randint(1, 3)))
    out, vol = "aa_" + cmd + ".out", "aa_" + cmd + ".vol"
    A = {"name": "amend_step", "args": [2, tin, ["EVT"], [out], [vol]]}
    d = lambda j, c, i, o, v: {"name": "define_step", "args": [j, c, i, [], o, v, ".", DEFAULT, {}]}  # noqa: E731
    kind = rng.choice(["B_claims_As_output", "B_claims_As_volatile", "B_reads_As_output", "B_static_As_output",
                       "B_glob_over_As_output", "B_amends_same_tree_input", "B_unrelated"])
    B = {
        "B_claims_As_output": d(3, "b" + cmd, [], [out], []),
        "B_claims_As_volatile": d(4, "b" + cmd, [], ["b" + cmd + ".out"], [vol]),
        "B_reads_As_output": d(3, "b" + cmd, [out], ["b" + cmd + ".out"], []),
        "B_static_As_output": {"name": "declare_static", "args": [1, [], [out], []]},
        "B_glob_over_As_output": {"name": "register_glob", "args": [4, "aa_*.out", {}, []]},
        "B_amends_same_tree_input": {"name": "amend_step", "args": [3, tin[:1], [], ["b" + cmd + ".out"], []]},
        "B_unrelated": d(1, "b" + cmd, ["src.txt"], ["b" + cmd + ".out"], []),
    }[kind]
    return kind, A, B


async def _amend_await_cases(ctx, ncase, fails):
    """Request B is served while amend request A awaits its promoted hash jobs. The store must end as one of the two
    sequential orders (twin worlds), with the replies of that order."""
    rng = ctx.rng
    for _ in range(ncase):
        kind, A, B = _amend_pairs(rng)
        fired, got_b = [], []
        async with World() as w:
            async def hook(w=w, B=B, got_b=got_b):
                got_b.append(await w.call(B))
            with _during_hash_await(hook, fired):
                reply_a = await w.call(A)
            final = w.dump(True)
        ctx.case(("A", kind, json.dumps(A), json.dumps(B)), bool(fired))
        ctx.count(f"A:{kind}:{'during_await' if fired else 'no_await_reached'}")
        if not fired:
            continue
        orders = {}
        for name, seq in (("A;B", (A, B)), ("B;A", (B, A))):
            async with World() as w2:
                reps = [await w2.call(r) for r in seq]
                orders[name] = (w2.dump(True), reps if name == "A;B" else reps[::-1])
        match = [n for n, (dump, reps) in orders.items() if dump == final and reps == [reply_a, got_b[0]]]
        if not match:
            store_only = [n for n, (dump, _) in orders.items() if dump == final]
            fails.append(("amend-await", kind, {"amend": A, "other": B, "reply_amend": reply_a, "reply_other": got_b[0],
                                                "sequential": {n: reps for n, (_, reps) in orders.items()},
                                                "store_equals_order": store_only,
                                                "diff_vs_amend_first": dump_diff(orders["A;B"][0], final)}))


# ---------------------------------------------------------------------------------------------
# oracle D: a complete frame, then the peer goes away
# ---------------------------------------------------------------------------------------------


def _frame(call_id, req):
    from stepup.core.rpc import RPCCall, _encode_body, _encode_message
    return _encode_message(call_id, _encode_body(RPCCall(req["name"], tuple(req["args"]), {})))


def _jump_clock(seconds):
    """Advance the clock of the running event loop by `seconds` (for good: the offset stays).

    Every timer that was armed before the jump and is due within `seconds` fires at the next turn of
    the loop. This is how the disconnect oracle lets 'a long time' pass while a handler waits for the
    database lock after its peer went away: a grace period / timeout anywhere between the receive loop
    and the handler (asyncio.timeout, wait_for, call_later) expires, without any real waiting."""
    loop = asyncio.get_running_loop()
    if not hasattr(loop, "_c15_clock_offset"):
        base = loop.time
        loop._c15_clock_offset = 0.0
        loop.time = lambda: base() + loop._c15_clock_offset
    loop._c15_clock_offset += seconds


def _run_guarded(coro, seconds):
    """asyncio.run with a wall-clock guard. Not asyncio.wait_for: its timer runs on the loop clock, which the
    disconnect oracle advances by hours."""
    import threading

    async def runner():
        task, loop = asyncio.current_task(), asyncio.get_running_loop()
        timer = threading.Timer(seconds, lambda: loop.call_soon_threadsafe(task.cancel))
        timer.daemon = True
        timer.start()
        try:
            return await coro
        finally:
            timer.cancel()
    return asyncio.run(runner())


async def _serve_frames(w, frames, mode, hold_lock, jump=0.0):
    """Feed frames + EOF to a real RPCServerConnection over a socketpair."""
    from stepup.core.rpc import RPCServerConnection
    a, b = socket.socketpair()
    a.setblocking(False)
    reader, writer = await asyncio.open_connection(sock=a)
    conn = RPCServerConnection(w.h, reader, writer)
    if hold_lock:
        await w.db.__aenter__()
    serve = asyncio.create_task(conn.serve(), name="serve")
    b.sendall(b"".join(frames))
    if mode == "close":
        b.close()
    elif mode == "shutdown_wr":
        b.shutdown(socket.SHUT_WR)
    elif mode == "reset":
        b.shutdown(socket.SHUT_RDWR)
        b.close()
    # wait (event-driven, bounded) until the server noticed the end of the stream
    for _ in range(2000):
        if conn._stop_event.is_set() or serve.done():
            break
        await asyncio.sleep(0.001)
    noticed = conn._stop_event.is_set()
    inflight = len(conn._tasks)
    if hold_lock and jump:
        _jump_clock(jump)
        for _ in range(10):   # expired timers run, and what they cancel gets to notice
            await asyncio.sleep(0)
    if hold_lock:
        await w.db.__aexit__(None, None, None)
    w.serve_error = None
    try:
        await asyncio.wait_for(serve, TIMEOUT)
    except asyncio.TimeoutError:
        raise
    except BaseException as e:  # noqa: BLE001 - serve() raising is part of what is observed, the dump decides
        if isinstance(e, asyncio.CancelledError) and not serve.cancelled():
            raise
        w.serve_error = ", ".join(sorted(f"{type(x).__name__}: {x}" for x in getattr(e, "exceptions", [e])))[:200]
    with contextlib.suppress(OSError):
        b.close()
    return noticed, inflight


async def _disconnect_cases(ctx, ncase, fails):
    rng = ctx.rng
    for _ in range(ncase):
        nreq = rng.choice([1, 1, 2])
        reqs = []
        jobs = _distinct_jobs(rng, nreq)
        for job in jobs:
            for _ in range(50):
                kind, expect, req = gen_request(rng, False)
                if kind in ("unknown_job", "start_build_ok") or (req["name"] == "amend_step" and job == 1):
                    continue
                break
            reqs.append((kind, _retarget(req, job)))
        mode = rng.choice(["close", "close", "shutdown_wr", "reset"])
        hold = rng.random() < 0.7
        jump = CLOCK_JUMP if hold and rng.random() < 0.75 else 0.0
        frames = [_frame(i + 1, r) for i, (_, r) in enumerate(reqs)]
        # the stream may end INSIDE a following message: 1..15 bytes of its header, or the header and a part of its
        # body; the complete requests before it were received in full all the same
        tail = b""
        if rng.random() < 0.5:
            nxt = _frame(len(reqs) + 1, {"name": "hold_dispatch", "args": [2]})
            tail = nxt[:rng.choice([rng.randint(1, 15), 16, rng.randint(17, len(nxt) - 1)])]
            frames = [*frames, tail]
        async with World() as w:
            noticed, inflight = await _serve_frames(w, frames, mode, hold, jump)
            got = w.dump(True)
        async with World() as w2:
            base = w2.dump(True)
            replies = [await w2.call(r) for _, r in reqs]
            ref = w2.dump(True)
        ctx.case(("D", json.dumps([r for _, r in reqs]), mode, hold), ref != base)
        ctx.count(f"D:{mode}:{'handler_blocked_on_lock' if hold and inflight else 'direct'}")
        if hold and inflight and noticed:
            ctx.count("D:peer_gone_seen_while_handler_in_flight")
            if jump:
                ctx.count("D:handler_waited_an_hour_for_the_lock_after_peer_gone")
        if got != ref:
            what = "absent" if got == base else "partial"
            waited = truncated = False
            if tail:
                # does it take the truncated message behind the requests? once more without it
                async with World() as w3:
                    await _serve_frames(w3, frames[:-1], mode, hold, jump)
                    truncated = w3.dump(True) == ref
            if jump and not truncated:
                # does it take the long wait? the same case once more without the clock jump
                async with World() as w3:
                    await _serve_frames(w3, frames, mode, hold, 0.0)
                    waited = w3.dump(True) == ref
            fails.append(("disconnect", "+".join(k for k, _ in reqs),
                          {"requests": [r for _, r in reqs], "mode": mode, "handler_blocked_on_lock": hold,
                           "clock_jump_while_blocked": jump, "only_after_long_wait": waited,
                           "truncated_next_message": tail.hex(), "only_with_truncated_next_message": truncated,
                           "serve_raised": w.serve_error,
                           "effect": what, "replies_when_connected": replies, "diff": dump_diff(ref, got)}))


# ---------------------------------------------------------------------------------------------


# ---------------------------------------------------------------------------------------------
# size scaling: the same late rejections / concurrency with long path lists
# ---------------------------------------------------------------------------------------------

SIZES = [1, 10, 100, 600, 1100, 2500]
LIST_HANDLERS = ("declare_static", "define_step", "amend_step", "register_glob")


def _paths(n, tag, stem, ext, bad=None):
    """n good paths; with `bad`, about the first 3/4 sort before it and the rest after it, so that the
    rejected path lies in the last quarter and is followed by further entries when n > 4."""
    head = n if bad is None else max(1, n - n // 4)
    good = [f"a{tag}/{stem}{i:05d}{ext}" for i in range(head)] + [f"zz{tag}/{stem}{i:05d}{ext}" for i in range(n - head)]
    return sorted(good + ([bad] if bad is not None else []))


def scaled_scenarios(n, tag):
    """(kind, handler, expect, job -> request). Every list parameter of every list-taking handler, accepted and
    rejected on an entry in the last quarter."""
    cmd = f"sc{tag}_{n}"
    D = lambda j, i, o, v: {"name": "define_step", "args": [j, cmd, i, [], o, v, ".", DEFAULT, {}]}  # noqa: E731
    A = lambda j, i, o, v: {"name": "amend_step", "args": [j, i, [], o, v]}  # noqa: E731
    S = lambda j, t, f, p: {"name": "declare_static", "args": [j, t, f, p]}  # noqa: E731
    pats = lambda bad: (  # noqa: E731
        [(f"a{tag}/q{i:05d}/*.x", [f"a{tag}/q{i:05d}/m.x"]) for i in range(max(1, n - n // 4))]
        + ([("*.txt", ["o1.txt"])] if bad else [])
        + [(f"zz{tag}/q{i:05d}/*.x", [f"zz{tag}/q{i:05d}/m.x"]) for i in range(n // 4)])
    f = lambda bad=None: _paths(n, tag, "p", ".txt", bad)  # noqa: E731
    o = lambda bad=None: _paths(n, tag, "o", ".out", bad)  # noqa: E731
    v = lambda bad=None: _paths(n, tag, "v", ".vol", bad)  # noqa: E731
    t = lambda bad=None: _paths(n, tag, "d", "/", bad)  # noqa: E731
    return [
        ("static_files", "declare_static", "reject", lambda j: S(j, [], f("o2.txt"), [])),
        ("static_files", "declare_static", "accept", lambda j: S(j, [], f(), [])),
        ("static_trees", "declare_static", "reject", lambda j: S(j, t("tree/sub/"), [], [])),
        ("static_trees", "declare_static", "accept", lambda j: S(j, t(), [], [])),
        ("static_patterns", "declare_static", "reject", lambda j: S(j, [], [], pats(True))),
        ("static_patterns", "declare_static", "accept", lambda j: S(j, [], [], pats(False))),
        ("static_files_then_pattern", "declare_static", "reject", lambda j: S(j, [], f(), [("*.txt", ["o1.txt"])])),
        ("define_inp", "define_step", "reject", lambda j: D(j, f("v1.txt"), [cmd + ".out"], [])),
        ("define_inp", "define_step", "accept", lambda j: D(j, f(), [cmd + ".out"], [])),
        ("define_out_cycle", "define_step", "reject", lambda j: D(j, ["o1.txt"], o("late_in.txt"), [])),
        ("define_out_tree", "define_step", "reject", lambda j: D(j, [], o("tree/made.txt"), [])),
        ("define_out", "define_step", "accept", lambda j: D(j, ["o1.txt"], o(), [])),
        ("define_vol", "define_step", "reject", lambda j: D(j, [], [cmd + ".out"], v("late_in.txt"))),
        ("define_vol", "define_step", "accept", lambda j: D(j, [], [cmd + ".out"], v())),
        ("amend_inp", "amend_step", "reject", lambda j: A(j, f("v1.txt"), [], [])),
        ("amend_inp", "amend_step", "accept", lambda j: A(j, f(), [], [])),
        ("amend_out", "amend_step", "reject", lambda j: A(j, f(), o("o1.txt"), [])),
        ("amend_out", "amend_step", "accept", lambda j: A(j, [], o(), [])),
        ("amend_vol", "amend_step", "reject", lambda j: A(j, f(), [], v("voldir/"))),
        ("amend_vol", "amend_step", "accept", lambda j: A(j, [], [], v())),
        ("glob_paths", "register_glob", "reject", lambda j: {"name": "register_glob", "args": [j, "**", {}, f("o1.txt")]}),
        ("glob_paths", "register_glob", "accept", lambda j: {"name": "register_glob", "args": [j, "**", {}, f()]}),
    ]


def _short(req):
    """A request with its long lists abbreviated, for messages; witnesses keep the generator parameters."""
    def ab(x):
        if isinstance(x, list) and len(x) > 6:
            return [*x[:2], f"... {len(x) - 4} more ...", *x[-2:]]
        return x
    return {"name": req["name"], "args": [ab(a) for a in req["args"]]}


def size_plan(ctx, deep):
    """Sizes to try per handler: the fixed ladder plus n-1, n, n+1, 2n+1 around every integer literal >= 16 that the
    tolerant pre-scan saw in a handler (or in the mutating Workflow methods)."""
    diag = getattr(ctx, "diag", None) or {}
    extra = set()
    for lits in diag.get("boundaries", {}).values():
        for n in lits:
            if n <= 6000:
                extra |= {n - 1, n, n + 1, 2 * n + 1}
    extra = sorted(x for x in extra if x >= 1)
    if deep:
        return sorted(set(SIZES) | set(extra)), extra
    pick = [1, 10, 100, ctx.rng.choice([600, 1100, 2500])]
    return sorted(set(pick) | set(extra)), extra


def _suspects(ctx):
    diag = getattr(ctx, "diag", None) or {}
    out = []
    for h in list(diag.get("suspects", {})) + list(diag.get("multi_block", {})):
        if (h != "amend_step" or h in diag.get("suspects", {})) and h not in out:
            out.append(h)
    return out


async def _scaled_rollback(ctx, sizes, fails, only=None, budget=None):
    import time
    t0 = time.time()
    for n in sizes:
        for kind, handler, expect, mk in scaled_scenarios(n, "r"):
            if only and handler not in only:
                continue
            if budget and time.time() - t0 > budget:
                ctx.count("Rn:budget_exhausted")
                return
            job = 2
            req = mk(job)
            async with World() as w:
                before = w.dump()
                ch0 = w.con.total_changes
                reply = await w.call(req)
                wrote = w.con.total_changes - ch0
                after = w.dump()
            rejected = reply[0] == "err"
            ctx.count(f"Rn:{kind}:{'rejected' if rejected else 'accepted'}")
            ctx.case(("Rn", kind, expect, n), (rejected and wrote > 0) or (not rejected and after != before))
            if (expect == "reject") != rejected:
                ctx.count(f"Rn:unexpected_reply:{kind}:{expect}")
            if rejected and after != before:
                fails.append(("rollback", f"{kind}:n={n}",
                              {"scaled": {"kind": kind, "expect": expect, "n": n, "job": job}, "history": [],
                               "request_short": _short(req), "request": req if n <= 12 else None,
                               "reply": reply, "rows_written": wrote, "diff": dump_diff(before, after)}))


async def _scaled_concurrent(ctx, sizes, fails, only=None, budget=None):
    """A long request and a short one from another step, both queued on the lock (so that the lock is contended
    whenever the long one leaves a transaction: if its handler used several, the short one runs in between)."""
    import time
    t0 = time.time()
    small = {"name": "define_step", "args": [3, "small", ["o2.txt", "n/s1.txt"], ["EV1"], ["small.out"], ["small.vol"],
                                               ".", DEFAULT, {}]}
    for n in sizes:
        for kind, handler, expect, mk in scaled_scenarios(n, "s"):
            if only and handler not in only:
                continue
            if budget and time.time() - t0 > budget:
                ctx.count("Sn:budget_exhausted")
                return
            job = 2
            reqs = [mk(job), small]
            log = []
            async with World() as w:
                with _lock_log(log):
                    await w.db.__aenter__()
                    tasks = [asyncio.create_task(w.call(r), name=f"req{i}") for i, r in enumerate(reqs)]
                    for _ in range(3):
                        await asyncio.sleep(0)
                    await w.db.__aexit__(None, None, None)
                    log[:] = [x for x in log if x[1].startswith("req")]
                    replies = await asyncio.wait_for(asyncio.gather(*tasks), 4 * TIMEOUT)
                final = w.dump(True)
            order = []
            for ev, name in log:
                if ev == "begin" and int(name[3:]) not in order:
                    order.append(int(name[3:]))
            async with World() as w2:
                replies2 = {i: await w2.call(reqs[i]) for i in order}
                ref = w2.dump(True)
            nbegin = sum(1 for ev, name in log if ev == "begin" and name == "req0")
            ctx.case(("Sn", kind, expect, n), True)
            ctx.count(f"Sn:{handler}:transactions_of_long_request={nbegin}")
            if final != ref or any(replies[i] != replies2[i] for i in order) or _interleaved(log):
                fails.append(("serial", f"{kind}:n={n}",
                              {"scaled": {"kind": kind, "expect": expect, "n": n, "job": job},
                               "requests": [_short(r) for r in reqs], "lock_order": order,
                               "lock_log": log[:30], "replies": replies,
                               "replies_sequential": [replies2.get(i) for i in range(2)],
                               "diff": dump_diff(ref, final), "hold_first": True}))


async def _scaled_disconnect(ctx, sizes, fails, only):
    for n in sizes:
        for kind, handler, expect, mk in scaled_scenarios(n, "d"):
            if handler not in only:
                continue
            job = 2
            req = mk(job)
            async with World() as w:
                await _serve_frames(w, [_frame(1, req)], "close", True)
                got = w.dump(True)
            async with World() as w2:
                base = w2.dump(True)
                reply = await w2.call(req)
                ref = w2.dump(True)
            ctx.case(("Dn", kind, expect, n), ref != base)
            ctx.count(f"Dn:{handler}")
            if got != ref:
                fails.append(("disconnect", f"{kind}:n={n}",
                              {"scaled": {"kind": kind, "expect": expect, "n": n, "job": job},
                               "requests": [_short(req)], "mode": "close", "handler_blocked_on_lock": True,
                               "effect": "absent" if got == base else "partial",
                               "replies_when_connected": [reply], "diff": dump_diff(ref, got)}))


def _report(ctx, fails):
    seen = set()
    for what, kind, wit in fails:
        sc = wit.get("scaled")
        size = f":n={sc['n']}" if sc else ""
        if what == "rollback":
            rq = wit.get("request") or wit.get("request_short")
            kd = kind.split(":n=")[0]
            sig = f"rollback:{rq['name']}:{kd}:store-changed-after-rejection"
            detail = (f"request {wit.get('request_short') or rq}{size} was rejected ({wit['reply']}) but the "
                      f"database differs: {json.dumps(wit['diff'])[:700]}")
            name = "oracle-R:rejected-request-leaves-store-unchanged"
        elif what == "serial":
            sig = "serial:concurrent-requests-differ-from-lock-order" + (f":{sc['kind']}" if sc else "")
            detail = (f"concurrent requests {wit['requests']}{size} (lock order {wit['lock_order']}, lock log "
                      f"{wit.get('lock_log', [])[:12]}) ended in a database that differs from their sequential "
                      f"application: {json.dumps(wit['diff'])[:700]}")
            name = "oracle-S:concurrent-equals-sequential"
        elif what == "amend-await":
            sig = f"serial:request-during-hash-await-of-amend_step:{kind}:matches-no-sequential-order"
            detail = (f"{_short(wit['other'])} was served while {_short(wit['amend'])} awaited its promoted hash jobs: replies "
                      f"amend={wit['reply_amend']} other={wit['reply_other']}; sequential replies {wit['sequential']}; the store "
                      f"equals the store of order(s) {wit['store_equals_order']}; difference to amend-first: "
                      f"{json.dumps(wit['diff_vs_amend_first'])[:600]}")
            name = "oracle-A:amend-with-hash-await-equals-a-sequential-order"
        elif what == "inject":
            sig = f"inject:{wit['request']['name']}:store-changed-after-fault-inside-transaction"
            detail = (f"statement {wit['fault_at_statement']} of {wit['statements_of_request']} ({wit['statement']}) of request "
                      f"{_short(wit['request'])} raised; reply {wit['reply']}; the database differs from before the "
                      f"request: {json.dumps(wit['diff'])[:700]}")
            name = "oracle-I:fault-at-any-statement-rolls-back"
        elif what == "inject-residue":
            sig = f"inject:{wit['request']['name']}:rolled-back-attempts-change-a-later-request"
            detail = (f"request {_short(wit['request'])} after {len(wit['faults_at'])} rolled-back attempts of the same request "
                      f"replied {wit['reply']} (without earlier attempts: {wit['reply_without_faults']}) and the database "
                      f"differs from a world that saw the request once: {json.dumps(wit['diff'])[:700]}")
            name = "oracle-I:rolled-back-attempt-leaves-nothing-behind"
        else:
            sig = (f"disconnect:request-{wit['effect']}-after-peer-gone" + (f":{sc['kind']}" if sc else "")
                   + (":only-when-the-handler-waits-long-for-the-lock" if wit.get("only_after_long_wait") else "")
                   + (":only-when-the-stream-ends-inside-the-next-message"
                      if wit.get("only_with_truncated_next_message") else ""))
            detail = (f"frames {wit['requests']}{size} were received in full, then the peer went away "
                      f"({wit['mode']}"
                      + (f", after {len(wit['truncated_next_message']) // 2} bytes of a further message"
                         if wit.get("truncated_next_message") else "") + ")"
                      + (f" and the handler waited {wit['clock_jump_while_blocked']:.0f} s (loop clock) for the database "
                         "lock" if wit.get("clock_jump_while_blocked") else "")
                      + (f"; serve() raised {wit['serve_raised']}" if wit.get("serve_raised") else "")
                      + f"; effect is {wit['effect']}: {json.dumps(wit['diff'])[:700]}")
            name = "oracle-D:received-in-full-applied-in-full"
        if sig in seen:
            continue
        seen.add(sig)
        ctx.add_failure("oracle", name, sig, detail, witness=wit)


def _run_oracle(ctx, nsession, nconc, ndisc, deep=False):
    """deep = search() or the thorough tier: the full size ladder. When the translator failed closed on a handler
    (or a handler other than amend_step has several `async with`), that handler is examined first."""
    fails = []
    sizes, extra = size_plan(ctx, deep)
    suspects = [h for h in _suspects(ctx) if h in LIST_HANDLERS]
    ctx.stats["scaled_sizes"] = sizes
    ctx.stats["boundary_sizes"] = extra
    ctx.stats["suspect_handlers"] = suspects

    async def main():
        if suspects:
            full = sorted(set(SIZES) | set(extra))
            await _scaled_rollback(ctx, full, fails, only=suspects)
            await _scaled_concurrent(ctx, full, fails, only=suspects)
            await _scaled_disconnect(ctx, [s for s in full if s <= 1100], fails, only=suspects)
        rest = [h for h in LIST_HANDLERS if h not in suspects]
        await _rollback_sessions(ctx, nsession, fails)
        await _inject_cases(ctx, max(4, nsession // 6), fails)
        await _amend_await_cases(ctx, max(6, nsession // 5), fails)
        await _scaled_rollback(ctx, sizes, fails, only=rest, budget=None if deep else 25)
        await _concurrent_cases(ctx, nconc, fails)
        await _scaled_concurrent(ctx, sizes if deep else [s for s in sizes if s <= 100 or s in extra], fails,
                                 only=rest, budget=None if deep else 15)
        await _disconnect_cases(ctx, ndisc, fails)

    import logging
    logging.getLogger("stepup.core.rpc").setLevel(logging.ERROR)
    with _workdir():
        _run_guarded(main(), 1100)
    _report(ctx, fails)
    ctx.count("oracle_failures", len(fails))


def oracle(ctx):
    _run_oracle(ctx, ctx.scale(70, 700), ctx.scale(30, 300), ctx.scale(30, 300), deep=ctx.thorough())


def search(ctx):
    if not hasattr(ctx, "diag"):
        from translator import gen_structure
        ctx.diag = gen_structure.diagnose()
    _run_oracle(ctx, 300, 100, 100, deep=True)


def replay(ctx, obj):
    w = obj["failure"].get("witness")
    print("replaying", json.dumps(w)[:400])
    if w and w.get("scaled") and "history" in w:
        sc = w["scaled"]
        for kind, handler, expect, mk in scaled_scenarios(sc["n"], "r"):
            if kind == sc["kind"] and expect == sc["expect"]:
                w = dict(w, request=mk(sc["job"]))
    if w and "fault_at_statement" in w:
        fails = []

        async def one_fault():
            async with World() as wd:
                state = {"task": asyncio.current_task(), "n": 0, "at": w["fault_at_statement"], "hit": None}
                before = wd.dump()
                with _inject_at(state):
                    reply = await wd.call(w["request"])
                after = wd.dump()
                print("fault", state["hit"], "reply", reply, "unchanged" if before == after else dump_diff(before, after))
                async with World() as w2:
                    await w2.call(w["request"])
                    ref = w2.dump(True)
                if after != before and wd.dump(True) != ref:
                    fails.append(("inject", "replay", {**w, "reply": reply, "diff": dump_diff(before, after)}))
        with _workdir():
            asyncio.run(asyncio.wait_for(one_fault(), 120))
        _report(ctx, fails)
        return
    if w and "mode" in w and "requests" in w and not w.get("scaled"):
        fails = []

        async def one_disc():
            frames = [_frame(i + 1, r) for i, r in enumerate(w["requests"])]
            if w.get("truncated_next_message"):
                frames.append(bytes.fromhex(w["truncated_next_message"]))
            async with World() as wd:
                await _serve_frames(wd, frames, w["mode"], w["handler_blocked_on_lock"],
                                    w.get("clock_jump_while_blocked", 0.0))
                got = wd.dump(True)
            async with World() as w2:
                base = w2.dump(True)
                for r in w["requests"]:
                    await w2.call(r)
                ref = w2.dump(True)
            print("effect", "as when connected" if got == ref else ("absent" if got == base else "partial"))
            if got != ref:
                fails.append(("disconnect", "replay", {**w, "effect": "absent" if got == base else "partial",
                                                       "diff": dump_diff(ref, got)}))
        with _workdir():
            _run_guarded(one_disc(), 120)
        _report(ctx, fails)
        return
    if not w or "history" not in w or not w.get("request"):
        from translator import gen_structure
        ctx.diag = gen_structure.diagnose()
        _run_oracle(ctx, 20, 10, 10, deep=True)
        return
    fails = []

    async def one():
        if True:
            async with World(targets=w.get("targets", False)) as wd:
                for e in w["history"]:
                    await wd.call(e["request"])
                before = wd.dump()
                reply = await wd.call(w["request"])
                after = wd.dump()
                print("reply", reply, "unchanged" if before == after else dump_diff(before, after))
                if reply[0] == "err" and before != after:
                    fails.append(("rollback", "replay", {**w, "diff": dump_diff(before, after)}))

    with _workdir():
        asyncio.run(asyncio.wait_for(one(), 120))
    _report(ctx, fails)
