"""Directed family for C11 / C10: a director run that RESUMES an unchanged plan with OTHER TARGETS.

The random histories restart with new targets too, but there the boot plan is usually executed again and the
recycle of its products flags every step anyway; the flags that `Workflow.reconcile_targets` itself sets only
matter on a plain resume.  Every member runs on the REAL Workflow + Scheduler (in-memory database):

    run 1 (targets T1): ./plan.py (already RUNNING) declares the statics and defines
          mk   (inp src/a.txt, out <out>,     need <need>)
          dep  (inp <out>,     out res/d.txt, need DEFAULT)        only with `consumer`
          side (inp src/a.txt, out side/s.txt, DEFAULT)
        and succeeds; the phase is run to its end (every dispatched job succeeds).
    between the runs: optionally src/a.txt is edited (mk, side and what depends on them become PENDING).
    run 2 (targets T2): wf.targets / wf.target_dirs replaced, Scheduler.initialize, reconcile_targets, the phase is
        run to its end.

Judged generically with the definitions of harness/sched_model.View (nothing here knows what a wrong
implementation would do): after the metadata updates of every pop_next_job every cached attribute equals its
definition, the dispatched step is eligible by definition, `None` only when nothing is; at the end of run 2 no
eligible step is left.
"""
from __future__ import annotations

import random

DEFAULT, OPTIONAL = 32, 31

# (name, out label, declared need of mk, consumer?, T1 (targets, dirs), T2 (targets, dirs), edit between runs)
VARIANTS = [
    ("exact-new", "out/x.txt", DEFAULT, False, ([], []), (["out/x.txt"], []), True),
    ("exact-new-optional", "out/x.txt", OPTIONAL, False, ([], []), (["out/x.txt"], []), True),
    ("exact-new-quiet", "out/x.txt", DEFAULT, False, ([], []), (["out/x.txt"], []), False),
    ("dir-new", "out/x.txt", DEFAULT, False, ([], []), ([], ["out/"]), True),
    ("dir-new-upper-neighbour", "out0", DEFAULT, False, ([], []), ([], ["out/"]), True),
    ("dir-first-upper-neighbour", "out0", DEFAULT, True, ([], ["out/"]), ([], []), True),
    ("dir-new-optional", "out/x.txt", OPTIONAL, False, ([], []), ([], ["out/"]), True),
    ("exact-gone", "out/x.txt", OPTIONAL, False, (["out/x.txt"], []), ([], []), True),
    ("exact-moved", "out/x.txt", DEFAULT, True, (["out/x.txt"], []), (["side/s.txt"], []), True),
    ("dir-gone", "out/x.txt", DEFAULT, False, ([], ["out/"]), (["side/s.txt"], []), True),
    ("consumer-target", "out/x.txt", OPTIONAL, True, ([], ["side/"]), (["res/d.txt"], []), True),
]


def random_variant(rng: random.Random):
    outs = ["out/x.txt", "out0", "out/sub/y.txt", "out-x", "a/x.txt"]
    out = rng.choice(outs)
    tsets = [([], []), ([out], []), ([], ["out/"]), (["side/s.txt"], []), ([], ["side/"]), (["res/d.txt"], []),
             ([], ["a/"]), ([out, "side/s.txt"], ["out/"])]
    return ("random", out, rng.choice([DEFAULT, OPTIONAL]), rng.random() < 0.5, rng.choice(tsets), rng.choice(tsets),
            rng.random() < 0.8)


async def target_resume_case(variant) -> dict:
    from path import Path
    from stepup.core.enums import HashUpdateCause, Need, StepState
    from . import sched_model as M
    from .sched_common import _fh, _step_hash
    from .wfutil import WF

    name, out, need, consumer, t1, t2, edit = variant
    has_dep = consumer or "res/d.txt" in t1[0] + t2[0]
    obs = {"variant": list(variant), "problems": []}

    def problem(sig, detail, snap):
        obs["problems"].append((sig, detail, snap))

    async with WF(targets=frozenset(Path(p) for p in t1[0]), target_dirs=frozenset(Path(p) for p in t1[1]),
                  defer_cap=3) as w:
        wf, sched, db = w.wf, w.sched, w.db
        salt = {"n": 0}

        async def phase(run: str):
            for _ in range(40):
                job = await sched.pop_next_job()
                snap = await M._snap(w)
                v = M.View(snap)
                stale = v.cached_vs_spec()
                for col, k, cached, spec in stale:
                    problem(f"target-resume:cached-{col}", f"{run}: after the metadata updates step {M.label_of(snap, k)!r} has "
                            f"{col} = {cached}, its definition gives {spec} (targets {snap['targets']} {snap['target_dirs']})", snap)
                if job is None:
                    # the dispatched step was already set RUNNING/CHECKING in `snap`; for None nothing changed
                    elig = v.eligible_set()
                    if elig:
                        problem("target-resume:eligible-step-left", f"{run}: pop_next_job returned None although "
                                f"{[M.label_of(snap, k) for k in elig]} are eligible by definition "
                                f"(targets {snap['targets']} {snap['target_dirs']})", snap)
                    return
                step = job.step
                need_spec = v.need_spec(step.i)
                if not (need_spec > OPTIONAL and need_spec > snap["threshold"]):
                    problem("target-resume:unneeded-step-dispatched", f"{run}: step {step.label!r} was dispatched with "
                            f"need_spec = {need_spec}, threshold {snap['threshold']}", snap)
                async with db:
                    checking = step.get_state() == StepState.CHECKING
                salt["n"] += 1
                async with db:
                    if not checking:
                        step.reset_for_rerun()
                    outs = {str(r.path): _fh(str(r.path), salt["n"]) for r in step.out_paths()}
                    wf.update_file_hashes(outs, cause=HashUpdateCause.SUCCEEDED)
                    step.mark_completed(_step_hash(step.label, salt["n"]), False)
            problem("target-resume:phase-does-not-end", f"{run}: more than 40 jobs", await M._snap(w))

        async with db:
            w.confirm_static(w.plan, ["src/a.txt"])
            wf.define_step(w.plan, "mk", inp_paths=["src/a.txt"], out_paths=[out], need=Need(need))
            if has_dep:
                wf.define_step(w.plan, "dep", inp_paths=[out], out_paths=["res/d.txt"])
            wf.define_step(w.plan, "side", inp_paths=["src/a.txt"], out_paths=["side/s.txt"])
            w.plan.mark_completed(_step_hash("./plan.py"), False)
        await phase("run 1")
        obs["after_run1"] = {s["label"]: s["state"] for s in (await M._snap(w))["steps"]}
        if edit:
            async with db:
                wf.update_file_hashes({"src/a.txt": _fh("src/a.txt", 99)}, cause=HashUpdateCause.EXTERNAL)
        # -- a new director run with other targets, the plan is not executed again
        wf.targets = frozenset(Path(p) for p in t2[0])
        wf.target_dirs = frozenset(Path(p) for p in t2[1])
        await sched.initialize(None)
        try:
            async with db:
                wf.reconcile_targets()
        except Exception as exc:  # noqa: BLE001 - a forbidden target ends the director: not a case
            obs["rejected"] = f"{type(exc).__name__}: {exc}"
            return obs
        await phase("run 2")
        obs["after_run2"] = {s["label"]: s["state"] for s in (await M._snap(w))["steps"]}
    return obs


def run_target_resume_family(variants, fail, count=None):
    from .sched_common import run
    for v in variants:
        obs = run(target_resume_case(v), timeout=120)
        if count is not None:
            count(v, obs)
        for sig, detail, snap in obs["problems"]:
            fail(sig, "target-resume", f"variant {v[0]} (output {v[1]!r}, need {v[2]}, targets {v[4]} -> {v[5]}, "
                 f"{'input edited' if v[6] else 'nothing edited'}): {detail}",
                 {"family": "target-resume", "variant": list(v), "snapshot": snap})
