"""C10: Dispatch is exact: nothing ineligible starts, nothing eligible is left."""
from __future__ import annotations

import random
import sqlite3 as _sq
import time

from . import common
from . import sched_d39 as D39
from . import sched_families as FAM
from . import sched_graph as SG
from . import sched_hold as HD
from . import sched_scenarios as SC
from . import sched_model as M
from .sched_common import Sim, choose_targets, gen_plan, run, with_before

PID = "C10"
PROPS_FILE = "props/C10.v"
MODEL_TARGETS = ["model/Sched.vo", "model/SchedGraph.vo"]
RULE = ("random build histories driven through the real Workflow/Scheduler API by harness/sched_common.py "
        "(plans with OPTIONAL/DEFAULT/PLAN steps, chains of optional steps, amended inputs, recycled and "
        "dropped children, hold/release, defers up to the cap, resources, exact and directory targets that "
        "change between phases, external edits), plus scripted plan families (harness/sched_families.py: outputs "
        "adjacent to a target directory in byte order, a resource holder detached while running, deep creation "
        "chains with a dropped middle level, a detached dynamic input that returns by a full recycle). Correspondence: at every real pop_next_job the model's "
        "update_meta applied to the snapshot before must reproduce every cached column and flag of the "
        "snapshot taken after the three _update_meta_* calls, and the dispatched step must be a member of the "
        "model's dispatch set (empty set when None); hold/release/revert_optional/defer completions are "
        "replayed as model primitives; low-level real calls (set_state, add_source, del_sources, file "
        "set_state, detach, reattach) versus the model primitives. Oracle: the three specifications are "
        "recomputed from the dumped tables by definition in Python at every dispatch decision and at every "
        "phase end; no phase ends with a step that only `deferred` keeps back while all its dynamic inputs are "
        "available; no job outcome leaves the same job dispatchable. A tick is non-trivial when at least one flag was set before it; distinct by the pair of "
        "snapshots")
TRUSTED_BASE = [
    "Coq 8.16.1 kernel (vm_compute in the refutation witnesses, Examples and correspondence evaluation)",
    "Print Assumptions: Closed under the global context for every C10 theorem",
    "translator/gen_sched.py + translator/sqlexpr.py (SQL fragments parsed to data; every other SQL constant and the "
    "Python glue compared with a pinned shape: any edit fails closed)",
    "harness/sched_common.py (history generator, snapshot dump), harness/sched_model.py (Gallina printer, "
    "Python re-statement of the specifications), harness/p_c10.py",
    "model/Sched.v is hand-written from scheduler.py/step.py and validated by the correspondence on every run",
]
ASSUMPTIONS = [
    "SQLite executes one UPDATE ... FROM (cte) statement against a snapshot of the table (Jacobi iteration), "
    "as measured in MODEL_NOTES section 6 and re-validated by the tick correspondence",
    "durations are whole numbers in the generated histories (the model keeps _tail_time in N); use_duration is off",
    "the creator forest and the two-hop consumer relation are acyclic (trellis invariants I1/I2, property C09); "
    "checked on every dumped snapshot",
    "asyncio wake-ups of Builder.job_loop are not modelled (a lost wake-up would show as a phase that ends with "
    "an eligible step only in system-level runs)",
]

SIG_D8 = "flaginv:_implied_need:file-step-edge-deleted:producer-not-flagged"
SIG_D11 = "update_meta_safe:min-merge:stale-low-creator"


def generate(ctx):
    from translator import gen_sched
    text, facts = gen_sched.generate()
    ctx.write_gen("GenSched.v", text)
    ctx.facts = facts
    ctx.stats["safe_merge"] = facts["safe_merge"]
    ctx.stats["dep_del_trigger"] = [f"{a}:{b}" for a, b in facts["triggers"]["step_dependency_check_after_del"]]


# ---------------------------------------------------------------------------------------------
# histories (generated once per run, shared by correspondence and oracle)
# ---------------------------------------------------------------------------------------------


async def _one_history(seed_rng: random.Random, size: int, prim_ops: int):
    rng = random.Random(seed_rng.getrandbits(64))
    plan = gen_plan(rng)
    targets, dirs = choose_targets(rng, plan)
    resources = "r1:2,r2:1" if rng.random() < 0.5 else None
    sim = Sim(rng, targets=targets, target_dirs=dirs, resources=resources,
              defer_cap=rng.choice([1, 2, 3]), plan=plan)
    prims = []
    try:
        await sim.start()
        n = 0
        while n < size and await sim.step_once():
            n += 1
        events = list(with_before(sim.events))
        # a rejected reconcile_targets (forbidden target) makes the real director exit: the
        # simulator goes on for its own purposes, the history that counts ends there
        for i, e in enumerate(events):
            if e["op"] == "reconcile" and "rejected" in e:
                events = events[:i + 1]
                break
        if prim_ops and not any("error" in e for e in events):
            prims = await _primitive_ops(sim, rng, prim_ops)
    finally:
        sim.close()
    return {"events": events, "stats": dict(sim.stats), "prims": prims,
            "config": {"targets": sim.targets, "target_dirs": sim.target_dirs, "njob": sim.njob,
                       "defer_cap": sim.defer_cap, "resources": resources}}


async def _primitive_ops(sim: Sim, rng: random.Random, count: int):
    """Low-level real calls on the final state of a history, each in its own transaction."""
    from stepup.core.enums import FileState, StepState
    from stepup.core.file import File
    from stepup.core.step import Step
    out = []
    for _ in range(count):
        before = await sim.snap()
        steps = before["steps"]
        files = before["files"]
        if not steps:
            break
        kind = rng.choice(["set_state", "set_state", "hold", "release", "add_source", "add_dyn", "del_source",
                           "file_state", "file_state", "detach", "reattach", "detach_file"])
        rec = {"op": kind, "before": before}
        try:
            async with sim.db:
                if kind == "set_state":
                    s = rng.choice(steps)
                    st = rng.choice([x.value for x in StepState])
                    df = st == StepState.PENDING.value and rng.random() < 0.3
                    Step(sim.wf, s["key"], s["label"]).set_state(StepState(st), df)
                    rec["args"] = [s["key"], st, df]
                elif kind in ("hold", "release"):
                    s = rng.choice(steps)
                    if kind == "release" and s["holding"] == 0:
                        holders = [x for x in steps if x["holding"] > 0]
                        if holders:
                            s = rng.choice(holders)
                    step = Step(sim.wf, s["key"], s["label"])
                    rec["args"] = [s["key"]]
                    (step.hold if kind == "hold" else step.release)()
                elif kind in ("add_source", "add_dyn"):
                    s = rng.choice(steps)
                    have = {(d["src"], d["snk"]) for d in before["deps"]}
                    cands = [f for f in files if (f["key"], s["key"]) not in have and (s["key"], f["key"]) not in have]
                    if not cands:
                        continue
                    f = rng.choice(cands)
                    if rng.random() < 0.7:
                        src, snk = f, s     # file -> step
                        idep = Step(sim.wf, s["key"], s["label"]).add_source(File(sim.wf, f["key"], f["label"]))
                    else:
                        src, snk = s, f     # step -> file
                        idep = File(sim.wf, f["key"], f["label"]).add_source(Step(sim.wf, s["key"], s["label"]))
                    dyn = kind == "add_dyn"
                    if dyn:
                        sim.db.execute("INSERT INTO dynamic_dep VALUES (?)", (idep,))
                    rec["args"] = [src["key"], snk["key"], dyn]
                elif kind == "del_source":
                    if not before["deps"]:
                        continue
                    d = rng.choice(before["deps"])
                    row = sim.db.execute("SELECT i FROM dependency WHERE source = ? AND sink = ?",
                                         (d["src"], d["snk"])).fetchone()
                    if d["dyn"]:
                        sim.db.execute("DELETE FROM dynamic_dep WHERE i = ?", (row[0],))
                    sim.db.execute("DELETE FROM dependency WHERE source = ? AND sink = ?", (d["src"], d["snk"]))
                    rec["args"] = [d["src"], d["snk"], bool(d["dyn"])]
                elif kind == "file_state":
                    cands = [f for f in files if f["hash"]] or files
                    if not cands:
                        continue
                    f = rng.choice(cands)
                    choices = [FileState.PLANNED, FileState.VOLATILE, FileState.MISSING]
                    if f["hash"]:
                        choices += [FileState.BUILT, FileState.OUTDATED, FileState.CONFIRMED]
                    if f["detached"]:
                        choices.append(FileState.UNDECLARED)
                    st = rng.choice(choices)
                    File(sim.wf, f["key"], f["label"]).set_state(st)
                    rec["args"] = [f["key"], st.value]
                elif kind == "detach":
                    s = rng.choice(steps)
                    Step(sim.wf, s["key"], s["label"]).detach()
                    rec["args"] = [s["key"]]
                elif kind == "detach_file":
                    if not files:
                        continue
                    f = rng.choice(files)
                    File(sim.wf, f["key"], f["label"]).detach()
                    rec["args"] = [f["key"]]
                elif kind == "reattach":
                    det = [x for x in steps if x["detached"] and x["creator"] is None]
                    att = [x for x in steps if x["creator"] is not None or x["label"] == "./plan.py"]
                    if not det or not att:
                        continue
                    s = rng.choice(det)
                    below = _below(before, s["key"])
                    cands = [c for c in att if c["key"] != s["key"] and c["key"] not in below]
                    if not cands:
                        continue
                    c = rng.choice(cands)
                    Step(sim.wf, s["key"], s["label"]).reattach(Step(sim.wf, c["key"], c["label"]))
                    rec["args"] = [s["key"], c["key"], bool(c["detached"])]
        except Exception as exc:  # noqa: BLE001 - a rejected low-level call is not a case
            rec["rejected"] = f"{type(exc).__name__}: {exc}"
        rec["after"] = await sim.snap()
        if "args" in rec:
            out.append(rec)
    return out


def _below(snap, key):
    kids = {}
    for coll in ("steps", "files", "others"):
        for n in snap[coll]:
            kids.setdefault(n["creator"], []).append(n["key"])
    out, todo = set(), [key]
    while todo:
        k = todo.pop()
        for c in kids.get(k, []):
            if c not in out:
                out.add(c)
                todo.append(c)
    return out


def histories(ctx):
    if getattr(ctx, "_c10_hist", None) is None:
        nh = ctx.scale(24, 400)
        size = ctx.scale(70, 110)
        seed_rng = random.Random(f"C10-hist-{ctx.seed}")
        t0 = time.time()
        hs = []
        for i in range(nh):
            hs.append(run(_one_history(seed_rng, size, prim_ops=ctx.scale(6, 10) if i % 2 == 0 else 0), timeout=120))
        # scripted plan families (harness/sched_families.py): shapes the random plans rarely reach
        fam_rng = random.Random(f"C10-families-{ctx.seed}")
        for name in FAM.FAMILIES:
            for _ in range(ctx.scale(2, 25)):
                hs.append(run(FAM.family_history(name, fam_rng), timeout=120))
                ctx.count("family_histories." + name)
        ctx._c10_hist = hs
        ctx.stats["t_histories_s"] = round(time.time() - t0, 1)
        agg = {}
        for h in hs:
            for k, v in h["stats"].items():
                agg[k] = agg.get(k, 0) + v
        ctx.stats["histories"] = len(hs)
        ctx.stats["history_events"] = sum(len(h["events"]) for h in hs)
        ctx.stats["ops"] = {k[3:]: v for k, v in sorted(agg.items()) if k.startswith("op.")}
        ctx.stats["shapes"] = {k[6:]: v for k, v in sorted(agg.items()) if k.startswith("shape.")}
        ctx.stats["jobs"] = {k: v for k, v in sorted(agg.items())
                             if k.split(".")[0] in ("job", "end", "skip", "define", "tick", "phase", "mutate")}
    return ctx._c10_hist


# ---------------------------------------------------------------------------------------------
# correspondence
# ---------------------------------------------------------------------------------------------


def _fragment_cases(ctx, checks, descr):
    """seval on the generated fragments versus a real SQLite evaluation of the same text."""
    from stepup.core.file import REGULAR_OUTPUT_WHERE
    from stepup.core.step import STEP_DISPATCH_WHERE, UNAVAILABLE_INPUT_WHERE
    from translator import sqlexpr
    rng = ctx.rng
    con = _sq.connect(":memory:")
    facts = getattr(ctx, "facts", None)      # absent when the translator failed closed
    try:
        ui_ast = facts["fragments"]["unavailable_input"] if facts else sqlexpr.parse(UNAVAILABLE_INPUT_WHERE)
    except Exception:  # noqa: BLE001 - outside the grammar: only the Coq/SQLite comparison remains
        ui_ast = None
    fstates = list(range(10, 20))
    n = ctx.scale(100, 1500)
    for _ in range(n):
        fs, det, dyn = rng.choice(fstates), rng.randint(0, 1), rng.randint(0, 1)
        sql = (f"SELECT ({UNAVAILABLE_INPUT_WHERE}) FROM (SELECT {fs} AS state) AS input_file, "
               f"(SELECT {det} AS detached) AS input_node, (SELECT {'1' if dyn else 'NULL'} AS i) AS dynamic_dep")
        exp = con.execute(sql).fetchone()[0]
        env = {("input_file", "state"): fs, ("input_node", "detached"): det, ("dynamic_dep", "i"): 1 if dyn else None}
        py = sqlexpr.evaluate(ui_ast, env) if ui_ast is not None else exp
        if bool(py) != bool(exp):
            ctx.add_failure("correspondence", "sqlexpr.evaluate", "E1:sqlexpr-evaluate",
                            f"reference evaluator disagrees with SQLite on {env}", witness={"env": str(env)})
        f = f"(mkFile 1 [] {fs} {M.cbool(det)} None false)"
        d = f"(mkDep 1 2 {M.cbool(dyn)})"
        checks.append(f"Bool.eqb (sholds (ienv {f} {d}) gen_unavailable_input) {M.cbool(exp)}")
        descr.append(("fragment", "unavailable_input", fs, det, dyn, exp))
        ctx.case(("ui", fs, det, dyn), True)
    for _ in range(n):
        st = rng.choice([21, 22, 23, 24, 25])
        safe, hh, snh, df, rdy = (rng.randint(0, 1) for _ in range(5))
        ineed = rng.choice([31, 32, 33, 34])
        sql = (f"SELECT ({STEP_DISPATCH_WHERE}) FROM (SELECT {st} AS state, {safe} AS _safe, {hh} AS _has_hash, "
               f"{snh} AS _safe_ignoring_hold, {df} AS deferred, {ineed} AS _implied_need, {rdy} AS _ready) AS step")
        exp = con.execute(sql).fetchone()[0]
        checks.append(f"Bool.eqb (sholds (senv_vals {st} {M.cbool(safe)} {M.cbool(hh)} {M.cbool(snh)} {M.cbool(df)} "
                      f"{ineed} {M.cbool(rdy)}) gen_dispatch_where) {M.cbool(exp)}")
        descr.append(("fragment", "dispatch_where", st, safe, hh, snh, df, ineed, rdy, exp))
        ctx.case(("dw", st, safe, hh, snh, df, ineed, rdy), True)
    for fs in fstates:
        for det in (0, 1):
            sql = (f"SELECT ({REGULAR_OUTPUT_WHERE}) FROM (SELECT {det} AS detached) AS onode, "
                   f"(SELECT {fs} AS state) AS ofile")
            exp = con.execute(sql).fetchone()[0]
            checks.append(f"Bool.eqb (regular_output (mkFile 1 [] {fs} {M.cbool(det)} None false)) {M.cbool(exp)}")
            descr.append(("fragment", "regular_output", fs, det, exp))
            ctx.case(("ro", fs, det), True)


def _has_unavail_dyn(snap, key):
    files = {f["key"]: f for f in snap["files"]}
    from stepup.core.enums import FileState
    ok = (FileState.CONFIRMED.value, FileState.BUILT.value)
    return any(d["dyn"] and d["snk"] == key and d["src"] in files and files[d["src"]]["state"] not in ok
               for d in snap["deps"])


def _step_row(snap, key):
    for s in snap["steps"]:
        if s["key"] == key:
            return s
    return None


def correspondence(ctx):
    hs = histories(ctx)
    checks, descr = [], []
    _fragment_cases(ctx, checks, descr)
    for hi, h in enumerate(hs):
        for ei, ev in enumerate(h["events"]):
            op = ev["op"]
            if "error" in ev:
                continue
            before, after = ev.get("before"), ev["after"]
            if op == "tick" and ev.get("after_meta") is not None:
                gb, ga = M.to_coq(before), M.to_coq(ev["after_meta"])
                choice = M.copt(ev["choice"])
                ns = ev["new_state"] if ev["new_state"] is not None else 0
                flagged = any(s["chk_safe"] or s["chk_after"] or s["chk_ready"] for s in before["steps"])
                # model = implementation, and the Python statement of the invariants = the Coq one
                vb, va = M.View(before), M.View(ev["after_meta"])
                py = (not vb.flaginv_safe_violations(), not vb.flaginv_need_violations(),
                      not vb.flaginv_ready_violations(), not vb.stale_low_seeds(), not va.cached_vs_spec()
                      and not any(s["chk_safe"] or s["chk_after"] or s["chk_ready"] for s in ev["after_meta"]["steps"]))
                checks.append(f"let gb := {gb} in let ga := {ga} in tick_ok gb ga {choice} {ns} && "
                              f"Bool.eqb (flaginv_safe_b gb) {M.cbool(py[0])} && Bool.eqb (flaginv_need_b gb) {M.cbool(py[1])} "
                              f"&& Bool.eqb (flaginv_ready_b gb) {M.cbool(py[2])} && Bool.eqb (nostalelow_b gb) {M.cbool(py[3])} "
                              f"&& Bool.eqb (allcorrect_b ga && has_hash_inv_b ga) {M.cbool(py[4])}")
                descr.append(("tick", hi, ei, py))
                ctx.case(("tick", repr(before), repr(ev["after_meta"])), flagged)
            elif op in ("hold", "release") and "rejected" not in ev:
                k = ev["args"]["step"]
                gb, ga = M.to_coq(before), M.to_coq(after)
                if op == "hold":
                    checks.append(f"graph_eqb (hold_step {gb} {k}) {ga}")
                else:
                    checks.append(f"match release_step {gb} {k} with Some g' => graph_eqb g' {ga} | None => false end")
                descr.append((op, hi, ei))
                ctx.case((op, repr(before), k), True)
            elif op == "revert":
                gb, ga = M.to_coq(before), M.to_coq(after)
                labels = {f["label"]: f["key"] for f in before["files"]}
                q = "[" + "; ".join(f"({labels[p]}, {M.cbool(kind == 'hash')})" for p, kind in ev["to_be_deleted"]
                                    if not p.endswith("/") and p in labels) + "]"
                checks.append(f"let r := revert_optional {gb} in graph_eqb (fst r) {ga} && queue_eqb (snd r) {q}")
                descr.append(("revert", hi, ei))
                ctx.case(("revert", repr(before)), bool(ev["to_be_deleted"]))
            if op == "end" and ev["args"].get("wants_defer") and ev["args"].get("kind") in ("defer", "always_defer", None) \
                    and before is not None:
                k = ev["args"]["step"]
                sb, sa = _step_row(before, k), _step_row(after, k)
                if sb is None or sa is None or ev["args"].get("stored_hash"):
                    continue
                u = _has_unavail_dyn(before, k)
                checks.append(
                    f"let s := complete_defer {before['defer_cap']} {M.cbool(u)} {M.step_to_coq(sb)} in "
                    f"(s_state s =? {sa['state']}) && Bool.eqb (s_deferred s) {M.cbool(sa['deferred'])} && "
                    f"(s_defer_count s =? {sa['defer_count']}) && (s_holding s =? {sa['holding']})")
                descr.append(("defer", hi, ei))
                ctx.case(("defer", sb["defer_count"], before["defer_cap"], u), sb["defer_count"] + 1 >= before["defer_cap"])
        for pi, rec in enumerate(h["prims"]):
            term = _prim_term(rec)
            if term is None:
                continue
            checks.append(term)
            descr.append(("prim:" + rec["op"], hi, pi))
            ctx.count("prim." + rec["op"])
            ctx.case(("prim", rec["op"], repr(rec["before"]), repr(rec["args"])), "rejected" not in rec)
    _projection_cases(ctx, hs)
    ctx.count("correspondence_cases", len(checks))
    for d in descr[-3:]:
        ctx.sample({"correspondence-case": d})
    t0 = time.time()
    bad = common.run_cases(ctx, "sched", M.COQ_HEADER, checks, chunk=ctx.scale(60, 80), timeout=900)
    ctx.stats["t_run_cases_s"] = round(time.time() - t0, 1)
    ctx.traces_validated += len(checks) - len(bad)
    seen = set()
    for i in bad:
        kind = descr[i][0]
        sig = f"correspondence:{kind}"
        if sig in seen:
            continue
        seen.add(sig)
        wit, detail = _explain(ctx, hs, descr[i], checks[i])
        ctx.add_failure("correspondence", kind, sig, detail, witness=wit)


def _tx_of(ev):
    """(snapshot before, operations) of an event that is a transaction of Graph.v's alphabet."""
    op = ev["op"]
    if op == "tick":
        return ev.get("after_meta"), SG.tick_ops(ev)
    before = ev.get("before")
    if before is None:
        if op != "boot":
            return None, None
        before = dict(ev["after"])
        before.update(SG.EMPTY)
    return before, SG.event_ops(ev, before)


def _projection_cases(ctx, hs):
    """Every transaction of every history (define_step new / partial recycle / full recycle, amend_step,
    declare_static_files, delete_detached, update_file_hashes, reset_for_rerun, mark_completed, dispatch,
    hold/release, ...): the primitive sequence that model/SchedGraph.v projects from the transaction
    model, replayed on the Sched snapshot before, lands on ALL real scheduling columns after, and every
    primitive is applied where the side condition of its flag-soundness theorem holds (run_ok_b), so
    C10_primitive_sequences_preserve_FlagInv_decidable applies to every real transaction."""
    checks, descr = [], []
    # directed transactions (recycle branch of Trellis.create, take-over, after_recycle on a holding step,
    # delete_detached with survivors): appended as extra histories
    if getattr(ctx, "_c10_scen", None) is None:
        ctx._c10_scen = [{"events": run(SC.scenario(v), timeout=120), "scenario": v[0]} for v in SC.VARIANTS]
    hs = list(hs) + ctx._c10_scen
    for hi, h in enumerate(hs):
        if "family" in h and not ctx.thorough():
            continue    # quick tier: the scripted families are judged by the tick correspondence and the oracles
        if not ctx.thorough() and "scenario" not in h and hi % 2 == 1:
            continue    # quick tier: every second random history (all of them in the thorough tier)
        for ei, ev in enumerate(h["events"]):
            if "scenario" in h and "rejected" in ev:
                ctx.add_failure("harness", "scenario", "scenario:rejected-step",
                                f"directed scenario {h['scenario']}: transaction {ev['op']} {ev.get('args')} was rejected: "
                                f"{ev['rejected']}", witness={"scenario": h["scenario"], "event": ei})
            if "error" in ev or "rejected" in ev:
                # a rejected request is rolled back (flags included): nothing is projected.  Whether the
                # transaction model rejects the same requests is C09's correspondence (targets, which
                # cause some of the rejections here, are not part of that model)
                continue
            if ev["op"] == "revert" and ev.get("before") is not None:
                # finalize.revert_optional_steps is not an operation of Graph.v's alphabet: FlagInv is proved for it
                # (C11_revert_optional_keeps_flag_invariant); here the certificate of reach_revert
                checks.append(SG.revert_case(ev["before"], ev["after"], M.to_coq))
                descr.append(("revert-certificate", hi, ei))
                ctx.count("projection.revert-certificate")
                ctx.case(("revert-cert", repr(ev["before"])), True)
                continue
            before, ops = _tx_of(ev)
            if not ops:
                continue
            fired = False
            if ev["op"] in ("define", "amend", "static") and before is not None:
                was = {s["key"] for s in before["steps"] if s["deferred"] and s["state"] == M.PENDING}
                fired = any(s["key"] in was and not s["deferred"] and s["state"] == M.PENDING for s in ev["after"]["steps"])
                if fired:
                    # step_node_undefer_reattached fired: model/Graph.v does not have the trigger, verdict 7 is accepted
                    # for this transaction (and only here)
                    ctx.count("projection_transactions_where_the_undefer_trigger_fired")
            checks.append(SG.tx_case(ev, before, ev["after"], ops, M.to_coq, allow_state_certificate=fired))
            kind = ev["op"] + ((":" + ev["recycle"]) if ev.get("recycle") else "")
            if "scenario" in h:
                ctx.count("scenario_transactions")
            descr.append((kind, hi, ei))
            ctx.count("projection." + kind)
            ctx.case(("projection", ev["op"], repr(before), repr(ev.get("args")), ev.get("choice")), True)
    ctx.count("projection_cases", len(checks))
    t0 = time.time()
    bad = common.run_cases(ctx, "proj", M.COQ_HEADER + SG.COQ_HEADER, checks, chunk=ctx.scale(40, 60), timeout=900)
    ctx.stats["t_projection_s"] = round(time.time() - t0, 1)
    ctx.traces_validated += len(checks) - len(bad)
    seen = set()
    for i in bad:
        kind, hi, ei = descr[i]
        sig = f"correspondence:projection:{kind}"
        if sig in seen:
            continue
        seen.add(sig)
        ev = hs[hi]["events"][ei]
        if kind == "revert-certificate":
            ctx.add_failure("correspondence", "projection:" + kind, sig,
                            f"revert_optional_steps (event {ei} of history {hi}): the snapshot before or the model's result is "
                            "not coupled to a stored workflow satisfying C09's invariant, or file node ids are not unique "
                            "(hypotheses of reach_revert / C11_revert_optional_keeps_flag_invariant)",
                            witness={"history": hi, "event": ei, "op": "revert", "before": ev["before"], "after": ev["after"]})
            continue
        before, ops = _tx_of(ev)
        vals = common.eval_terms(ctx, "projdiag", M.COQ_HEADER + SG.COQ_HEADER,
                                 SG.tx_diag(ev, before, ev["after"], ops, M.to_coq))
        verdict = {"0": "ok", "1": "the replayed sequence does not land on the real columns",
                   "2": "a primitive is applied where its side condition (run_ok_b) fails",
                   "3": "the transaction model rejects the operation or a primitive is undefined",
                   "4": "the state before does not satisfy J or is not coupled to the snapshot",
                   "5": "the state after the transaction does not satisfy J (inv_core_b && ntc_b)",
                   "6": "the result of the replay is not coupled to the state after the transaction",
                   "7": "the transaction model's own result is not coupled to the replayed (= real) tables, although the "
                        "trigger step_node_undefer_reattached did not fire (model/Graph.v and the code disagree on a "
                        "structural column)"}.get(
                       (vals[0] or "").strip(), str(vals[0]))
        ctx.add_failure(
            "correspondence", "projection:" + kind, sig,
            f"transaction {ev['op']} (event {ei} of history {hi}): {verdict}; projected primitives of the first "
            f"operation: {vals[1]}; rows of the model result that are not in the real tables / edges only in the "
            f"model / edges only in reality: {vals[2]}",
            witness={"history": hi, "scenario": hs[hi].get("scenario"), "event": ei, "op": ev["op"], "args": ev.get("args"),
                     "operations": [list(x) for x in ops], "before": before, "after": ev["after"]})


def _prim_term(rec):
    gb, ga = M.to_coq(rec["before"]), M.to_coq(rec["after"])
    op, a = rec["op"], rec["args"]
    if "rejected" in rec:
        if op == "release":
            return f"match release_step {gb} {a[0]} with None => graph_eqb {gb} {ga} | Some _ => false end"
        return None
    if op == "set_state":
        return f"graph_eqb (set_step_state {gb} {a[0]} {a[1]} {M.cbool(a[2])}) {ga}"
    if op == "hold":
        return f"graph_eqb (hold_step {gb} {a[0]}) {ga}"
    if op == "release":
        return f"match release_step {gb} {a[0]} with Some g' => graph_eqb g' {ga} | None => false end"
    if op in ("add_source", "add_dyn"):
        return f"graph_eqb (ins_dep {gb} (mkDep {a[0]} {a[1]} {M.cbool(a[2])})) {ga}"
    if op == "del_source":
        return f"graph_eqb (del_dep {gb} (mkDep {a[0]} {a[1]} {M.cbool(a[2])})) {ga}"
    if op == "file_state":
        # file_clear_hash (file.py) is applied by the dump: pass the observed hash presence
        h = next(f["hash"] for f in rec["after"]["files"] if f["key"] == a[0])
        return f"graph_eqb (set_file_state {gb} {a[0]} {a[1]} {M.cbool(h)}) {ga}"
    if op == "detach":
        return f"graph_eqb (detach_step {gb} {a[0]}) {ga}"
    if op == "detach_file":
        return f"graph_eqb (detach_file {gb} {a[0]}) {ga}"
    if op == "reattach":
        return f"graph_eqb (reattach_step {gb} {a[0]} {a[1]} {M.cbool(a[2])}) {ga}"
    return None


def _explain(ctx, hs, d, check):
    kind = d[0]
    if kind == "fragment":
        return {"case": list(d)}, f"generated SQL fragment evaluates differently in Coq and in SQLite: {d}"
    h = hs[d[1]]
    if kind.startswith("prim:"):
        rec = h["prims"][d[2]]
        wit = {"op": rec["op"], "args": rec["args"], "before": rec["before"], "after": rec["after"]}
        return wit, f"model primitive {rec['op']}{rec['args']} does not reproduce the real tables"
    ev = h["events"][d[2]]
    wit = {"history": d[1], "event": d[2], "op": ev["op"], "args": ev.get("args"), "before": ev.get("before"),
           "after_meta": ev.get("after_meta"), "after": ev["after"], "choice": ev.get("choice")}
    detail = f"model and implementation disagree at event {d[2]} ({ev['op']}) of history {d[1]}"
    if kind == "tick":
        gb, ga = M.to_coq(ev["before"]), M.to_coq(ev["after_meta"])
        vals = common.eval_terms(ctx, "diag", M.COQ_HEADER, [
            f"match update_meta {gb} with Some g' => map (fun p => s_key (fst p)) (filter (fun p => negb (step_eqb (fst p) (snd p))) "
            f"(combine (g_steps g') (g_steps {ga}))) | None => [999999] end",
            f"map s_key (dispatch_set {ga})"])
        vals2 = common.eval_terms(ctx, "diag2", M.COQ_HEADER, [
            f"(flaginv_safe_b {gb}, flaginv_need_b {gb}, flaginv_ready_b {gb}, nostalelow_b {gb}, allcorrect_b {ga} && has_hash_inv_b {ga})"])
        detail += (f"; rows that differ after update_meta: {vals[0]}; model dispatch set: {vals[1]}; real choice: "
                   f"{ev.get('choice')}; Coq (flaginv_safe, flaginv_need, flaginv_ready, nostalelow, allcorrect) = {vals2[0]}, "
                   f"Python = {d[3] if len(d) > 3 else 'n/a'}")
    return wit, detail


# ---------------------------------------------------------------------------------------------
# oracle
# ---------------------------------------------------------------------------------------------


def _edge_deleted_from_output_of(before, after, key):
    """A file -> attached-step edge of `before` that is gone in `after`, whose file is an output of key."""
    vb = M.View(before)
    gone = {(d["src"], d["snk"]) for d in before["deps"]} - {(d["src"], d["snk"]) for d in after["deps"]}
    outs = {d["snk"] for d in vb.out_edges.get(key, [])}
    for src, snk in sorted(gone):
        if src in outs and snk in vb.steps and not vb.steps[snk]["detached"]:
            return [src, snk]
    return None


def _multi_consumer_optional(v):
    """An attached OPTIONAL step has an output with two or more attached consumers of different need."""
    for k, s in v.steps.items():
        if s["detached"] or s["need"] != M.OPTIONAL:
            continue
        for d in v.out_edges.get(k, []):
            needs = {v.steps[e["snk"]]["need"] for e in v.out_edges.get(d["snk"], [])
                     if e["snk"] in v.steps and not v.steps[e["snk"]]["detached"]}
            if len(needs) >= 2:
                return True
    return False


def _edge_dropped_while_lower_consumer_stays(before, after):
    vb, va = M.View(before), M.View(after)
    gone = {(d["src"], d["snk"]) for d in before["deps"]} - {(d["src"], d["snk"]) for d in after["deps"]}
    for src, snk in gone:
        if src not in vb.files or snk not in vb.steps or vb.steps[snk]["detached"]:
            continue
        producers = [e["src"] for e in vb.in_edges.get(src, []) if e["src"] in vb.steps
                     and vb.steps[e["src"]]["need"] == M.OPTIONAL and not vb.steps[e["src"]]["detached"]]
        stay = [e["snk"] for e in va.out_edges.get(src, []) if e["snk"] in va.steps
                and not va.steps[e["snk"]]["detached"] and va.steps[e["snk"]]["need"] < vb.steps[snk]["need"]]
        if producers and stay:
            return True
    return False


def _violations(v):
    return ({("_safe", k) for k in v.flaginv_safe_violations()}
            | {("_implied_need", k) for k in v.flaginv_need_violations()}
            | {("_ready", k) for k in v.flaginv_ready_violations()})


def _rootcol(col):
    return "_safe" if col == "_safe_ignoring_hold" else col


def _upstream_root(v, root, key):
    """A stale _implied_need is inherited from a consumer (transitively) whose own value is stale."""
    seen, todo = set(), [key]
    while todo:
        k = todo.pop()
        for y in v.consumers(k):
            if y in seen:
                continue
            seen.add(y)
            if ("_implied_need", y) in root:
                return root[("_implied_need", y)]
            todo.append(y)
    return None


def _side_conditions(snap):
    """The hypotheses of C10_detach/reattach_preserves_FlagInv on a real snapshot: node ids are not
    shared between step and file rows; a file below a step in the creator forest has no producer
    edge from outside that step's subtree. Returns a description of a violation or None."""
    step_keys = {s["key"] for s in snap["steps"]}
    file_keys = {f["key"] for f in snap["files"]}
    if step_keys & file_keys:
        return f"node ids shared by step and file rows: {sorted(step_keys & file_keys)}"
    for s in snap["steps"]:
        sub = _below(snap, s["key"]) | {s["key"]}
        for d in snap["deps"]:
            if d["snk"] in sub and d["snk"] in file_keys and d["src"] not in sub:
                return f"file {d['snk']} below step {s['key']} has a producer edge from {d['src']} outside the subtree"
    return None


def _unusable_dynamic_inputs(view, k):
    """The dynamic inputs of step k that are detached or not CONFIRMED / BUILT (Sched.unusable_dyn; the negation of
    dynamic_inputs_ready in Scheduler._derive_job): what a deferred step may legitimately wait for."""
    out = []
    for d in view.in_edges.get(k, []):
        f = view.files.get(d["src"]) if d["dyn"] else None
        if f is not None and (f["detached"] or f["state"] not in (M.FS.CONFIRMED.value, M.FS.BUILT.value)):
            out.append(f["label"])
    return out


def oracle(ctx):
    hs = histories(ctx)
    t0 = time.time()
    fails = {}

    def fail(sig, name, detail, witness):
        if sig not in fails:
            fails[sig] = (name, detail, witness)
        ctx.count("oracle_failures")
        ctx.count("oracle_failure." + sig)

    shapes = []
    for hi, h in enumerate(hs):
        root = {}       # (column, key) of a stale value that no flag covers -> signature of what caused it
        parked_by = {}  # step key -> the operation that set its deferred flag
        for ei, ev in enumerate(h["events"]):
            if "error" in ev:
                fail(f"history-error:{ev['op']}", "history", f"the real API raised in {ev['op']}: {ev['error'][-600:]}",
                     {"history": hi, "event": ei, "op": ev["op"], "args": ev.get("args"), "before": ev.get("before")})
                break
            op = ev["op"]
            before, after = ev.get("before"), ev["after"]
            where = {"history": hi, "event": ei, "op": op, "args": ev.get("args"), "config": h["config"]}
            if op == "tick" and ev.get("after_meta") is not None:
                vb, vm = M.View(before), M.View(ev["after_meta"])
                shapes.append(vm.shape())
                ctx.case(("oracle-tick", repr(ev["after_meta"]), ev["choice"]), True)
                if _multi_consumer_optional(vm):
                    ctx.count("ticks_with_optional_output_shared_by_consumers_of_different_need")
                sc = _side_conditions(before)
                ctx.count("side_conditions_checked")
                if sc is not None:
                    fail("side-condition:detach-reattach-hypothesis", "side-condition",
                         "a hypothesis of C10_detach/reattach_preserves_FlagInv does not hold on a real snapshot: " + sc,
                         {**where, "before": before})
                # 1. every possibly stale value is flagged when the decision is taken
                viol_b = _violations(vb)
                for col, k in sorted(viol_b):
                    sig = root.get((col, k), f"flaginv:{col}:unattributed")
                    fail(sig, f"FlagInv{col}", f"step {M.label_of(before, k)!r}: cached {col} is stale and nothing flags it "
                         f"when pop_next_job starts", {**where, "step": M.label_of(before, k), "before": before})
                stale_low = vb.stale_low_seeds()
                # 2. cached = definition after the three updates
                mism = vm.cached_vs_spec()
                sig_of = {}
                for col, k, cached, spec in mism:
                    lbl = M.label_of(before, k)
                    rc = _rootcol(col)
                    if (rc, k) in root:
                        sig = root[(rc, k)]
                    elif rc == "_safe" and stale_low and not any(c == "_safe" for c, _ in viol_b):
                        sig = SIG_D11
                    elif rc == "_implied_need" and _upstream_root(vm, root, k):
                        sig = _upstream_root(vm, root, k)
                    else:
                        sig = f"cached:{col}:wrong-after-update"
                    sig_of[(rc, k)] = sig
                    fail(sig, f"cached{col}", f"after _update_meta_* step {lbl!r} has {col} = {cached}, its definition gives {spec}",
                         {**where, "step": lbl, "column": col, "cached": cached, "spec": spec, "before": before,
                          "after_meta": ev["after_meta"]})
                # 3. the dispatched step is eligible by definition; None only when nothing is
                elig = vm.eligible_set()
                ch = ev["choice"]
                if ch is not None and ch not in elig:
                    sig = next((sg for (c, k), sg in sig_of.items() if k == ch), None)
                    fail(sig or "dispatch:ineligible-step-started", "dispatch",
                         f"step {M.label_of(before, ch)!r} was dispatched but is not eligible by definition",
                         {**where, "step": M.label_of(before, ch), "after_meta": ev["after_meta"]})
                if ch is None and elig:
                    sig = next((sg for (c, k), sg in sig_of.items() if k in elig), None)
                    fail(sig or "dispatch:eligible-step-left", "dispatch",
                         f"pop_next_job returned None although {[M.label_of(before, k) for k in elig]} are eligible by definition",
                         {**where, "eligible": [M.label_of(before, k) for k in elig], "after_meta": ev["after_meta"]})
                va = M.View(after)
                root = {x: (root.get(x) or sig_of.get(x) or f"flaginv:{x[0]}:tick") for x in _violations(va)}
                continue
            va = M.View(after)
            if before is not None:
                was = {s["key"]: s["deferred"] for s in before["steps"]}
                for s in after["steps"]:
                    if s["deferred"] and not was.get(s["key"]):
                        parked_by[s["key"]] = op if op != "end" else "defer"
            if before is not None and _edge_dropped_while_lower_consumer_stays(before, after):
                ctx.count("events_dropping_an_edge_while_a_lower_need_consumer_stays")
            newv = _violations(va)
            nroot = {}
            for col, k in newv:
                if (col, k) in root:
                    nroot[(col, k)] = root[(col, k)]
                    continue
                sig = f"flaginv:{col}:{op}"
                if col == "_implied_need" and before is not None and _edge_deleted_from_output_of(before, after, k):
                    sig = SIG_D8
                nroot[(col, k)] = sig
            root = nroot
            if op in ("validate", "skip", "end") and before is not None and "rejected" not in ev:
                # termination: the outcome of a job must not leave the same job dispatchable: the step
                # is completed (SUCCEEDED / FAILED), deferred, lost its stored hash, or used up one defer
                k = ev["args"]["step"]
                sb, sa = _step_row(before, k), _step_row(after, k)
                if sb is not None and sa is not None:
                    ctx.case(("oracle-job-outcome", op, repr(sb), repr(sa)), True)
                    progress = (sa["state"] in (M.SUCCEEDED, M.FAILED) or sa["deferred"]
                                or (sb["hash_stored"] and not sa["hash_stored"])
                                or sa["defer_count"] > sb["defer_count"])
                    if op == "validate" and not progress and not _unusable_dynamic_inputs(va, k):
                        # the repaired validate_dynamic_job (flag computed in the outcome transaction): every
                        # dynamic input came back while the job was in flight; the next job of the step is a hash
                        # check (try_skip_job), not the same validation job (C10_validate_outcome_redispatched_only_as_check)
                        progress = True
                        ctx.count("validate_outcomes_not_deferred_all_inputs_usable")
                    if sa["state"] == M.PENDING and not progress:
                        branch = {"validate": "unchanged" if not ev["args"].get("changed") else "changed",
                                  "skip": "ok" if ev["args"].get("ok") else "mismatch"}.get(op, ev["args"].get("kind"))
                        fail(f"termination:{op}:{branch}:same-job-dispatchable-again", "termination",
                             f"the job of step {M.label_of(before, k)!r} ended ({op}, {branch}) leaving it PENDING, not "
                             f"deferred, with the same stored hash and defer count as when it was dispatched: the same job "
                             f"can be handed out again without any intervening change (eligible by definition afterwards: "
                             f"{va.eligible_spec(k)})", {**where, "step": M.label_of(before, k), "before_row": sb, "after_row": sa})
            if op == "phase_end" and not after["draining"]:
                elig = va.eligible_set()
                ctx.case(("oracle-phase-end", repr(after)), True)
                if elig:
                    stale = {k: (c, a, b) for c, k, a, b in va.cached_vs_spec()}
                    sig = next((root[(c, k)] for (c, k) in root if k in elig), None)
                    fail(sig or "phase-end:eligible-step-left", "phase-end",
                         f"the build phase ended although {[M.label_of(after, k) for k in elig]} are eligible by definition",
                         {**where, "eligible": [M.label_of(after, k) for k in elig], "stale": {M.label_of(after, k): list(v) for k, v in stale.items()},
                          "after": after})
            if op == "phase_end" and not after["draining"]:
                # a parked step: deferred is justified by a dynamic input that is not available (it is
                # cleared by mark_step_pending when such an input changes).  A phase must not end with a
                # step that only the flag keeps from being dispatched while all its dynamic inputs are there
                for k, s in va.steps.items():
                    if s["state"] != M.PENDING or s["detached"] or not s["deferred"]:
                        continue
                    ctx.case(("oracle-phase-end-deferred", repr(s), repr(after["deps"])), True)
                    dyn = [va.files[d["src"]] for d in va.in_edges.get(k, []) if d["dyn"] and d["src"] in va.files]
                    if _unusable_dynamic_inputs(va, k):
                        continue    # justified: it waits for an input that is detached or not CONFIRMED / BUILT
                    if va.eligible_spec(k, ignore_deferred=True):
                        fail(f"phase-end:deferred-step-with-available-inputs:parked-by-{parked_by.get(k, 'unknown')}", "phase-end",
                             f"the build phase ended with step {s['label']!r} PENDING, attached, needed, safe and ready, all its "
                             f"dynamic inputs {[(f['label'], f['state']) for f in dyn]} available, but deferred: nothing will clear "
                             f"the flag (no input is going to change), the step is never built",
                             {**where, "step": s["label"], "dynamic_inputs": [[f["label"], f["state"], f["detached"]] for f in dyn],
                              "after": after})
            if op == "end" and ev["args"].get("wants_defer") and before is not None and not ev["args"].get("stored_hash"):
                k = ev["args"]["step"]
                sb, sa = _step_row(before, k), _step_row(after, k)
                if sb and sa:
                    ctx.case(("oracle-defer", sb["defer_count"], before["defer_cap"]), True)
                    beyond = sb["defer_count"] + 1 > before["defer_cap"]
                    if sa["defer_count"] != sb["defer_count"] + 1 or (sa["state"] == M.FAILED) != beyond:
                        fail("defer-cap:wrong-outcome", "defer-cap",
                             f"defer number {sb['defer_count'] + 1} with cap {before['defer_cap']} left state {sa['state']}",
                             {**where, "before_row": sb, "after_row": sa})
    ctx.stats["t_oracle_s"] = round(time.time() - t0, 1)
    # targeted family: several consumers of different need on one optional output, the higher one drops
    M.run_multi_consumer_family(M.MULTI_VARIANTS, fail,
                                lambda v, obs: ctx.case(("multi-consumer", v[0]), True))
    ctx.count("multi_consumer_cases", len(M.MULTI_VARIANTS))
    # D36 (fixed by d760e3e): the witness of C10_validate_without_defer_refuted on the real scheduler
    r = run(M.replay_d36(), timeout=60)
    ctx.case(("replay", "d36"), True)
    ctx.stats["replay_d36"] = {k: r[k] for k in ("first", "prefix_outcome_next", "repo_outcome", "repo_outcome_next")}
    if r["first"] != "validate" or r["prefix_outcome_next"] != "validate":
        fail("replay:d36:witness-not-reproduced", "replay",
             f"the scenario of C10_validate_without_defer_refuted no longer behaves as the model says: {r}", r)
    if r["repo_outcome_next"] is not None:
        fail("termination:validate:unchanged:same-job-dispatchable-again", "termination",
             f"after the outcome that executor.validate_dynamic_job produces for an unchanged digest "
             f"(set_state{tuple(r['repo_outcome'])}) pop_next_job hands out the same {r['repo_outcome_next']!r} job again", r)
    # D39: the two witness histories of C10_deferred_is_justified_refuted_without_repair (sequential: needs the
    # trigger step_node_undefer_reattached; race: needs the flag computed in the outcome transaction)
    for race in (False, True):
        name = "replay:D39:" + ("race" if race else "sequential")
        try:
            r = run(D39.replay_d39(race), timeout=120)
        except Exception as exc:  # noqa: BLE001 - e.g. the translator no longer recognises executor.py
            fail("replay:d39:witness-not-reproduced", name,
                 f"the D39 history could not be replayed: {type(exc).__name__}: {exc}", {"replay": name, "error": repr(exc)})
            continue
        ctx.case(("replay", "d39", race), True)
        ctx.stats["replay_d39_" + ("race" if race else "sequential")] = {
            "stuck": r["stuck"], "user": r["states"].get("user"), "validated": r["validated"]}
        if not (r["build1_terminated"] and r["build1_all_succeeded"] and r["validated"] and r["build2_terminated"]):
            fail("replay:d39:witness-not-reproduced", name,
                 "the D39 history no longer reaches the 'digest unchanged' validation of `user` (or a phase does not end): "
                 f"{r['trace']}", {"replay": name, "trace": r["trace"], "states": r["states"]})
        elif r["stuck"]:
            fail(D39.SIG_RACE if race else D39.SIG, name,
                 f"build 2 ended with {r['stuck']} PENDING, attached, needed, safe, ready, every dynamic input attached and "
                 "BUILT -- and deferred: the input a/x.txt was detached when the validation job was derived and came back "
                 "unchanged by a full recycle " + ("BEFORE the outcome of the validation was committed" if race else
                                                    "after the step was parked") + "; nothing clears the flag",
                 {"replay": name, "trace": r["trace"], "states": r["states"], "stuck": r["stuck"], "after": r["after"]})
    # directed family: hold / release / failure / full recycle of a step whose subtree is two or more levels deep
    # (RECURSIVE_CHECK_WITH_PRODUCTS must reach every step below it)
    HD.run_hold_deep_family(HD.VARIANTS, fail, lambda v, obs: ctx.case(("hold-deep", repr(v)), True))
    ctx.count("hold_deep_cases", len(HD.VARIANTS))
    # D39-refine (found by C02): deferring a step and re-attaching its orphan dynamic input by a declaration must
    # commute on the step's row (C10_defer_and_reattachment_commute_on_the_deferred_flag).  Judged only for the
    # refined trigger; for the unconditional trigger of repo 84081f2 the Coq refutation
    # C10_defer_and_reattachment_order_matters_with_unconditional_trigger says that the order decides
    refined = D39.trigger_is_refined()
    ctx.stats["undefer_trigger_refined"] = refined
    for how in ("static", "output"):
        try:
            ra = run(D39.defer_reattach_pair(how, "r1r2"), timeout=120)
            rb = run(D39.defer_reattach_pair(how, "r2r1"), timeout=120)
        except Exception as exc:  # noqa: BLE001
            fail("replay:d39-refine:pair-not-reproduced", "commute:defer-vs-reattach",
                 f"the pair could not be driven: {type(exc).__name__}: {exc}", {"how": how, "error": repr(exc)})
            continue
        ctx.case(("commute", "defer-vs-reattach", how), True)
        same = ra["S"] == rb["S"] and ra["next_job"] == rb["next_job"]
        ctx.stats["defer_vs_reattach_" + how] = {"r1;r2": ra["S"] + [ra["next_job"]], "r2;r1": rb["S"] + [rb["next_job"]]}
        if not same and refined:
            fail(D39.SIG_ORDER, "commute:defer-vs-reattach",
                 f"S is deferred (r1) and another running step declares S's orphan dynamic input f1.txt ({how}, r2): after r1;r2 "
                 f"S = (state, deferred, defer_count) {ra['S']}, next job {ra['next_job']!r}; after r2;r1 S = {rb['S']}, next job "
                 f"{rb['next_job']!r}; f1.txt is {ra['f1']} in both: the re-attachment woke a step whose input is still unusable",
                 {"how": how, "r1;r2": {k: ra[k] for k in ("S", "f1", "next_job")},
                  "r2;r1": {k: rb[k] for k in ("S", "f1", "next_job")}, "snapshot_r1r2": ra["snapshot"]})
    if ctx.thorough():
        # the same two histories at system level: the real serve(), real digests, three builds on one graph.db
        from . import d39_sys
        for race in (False, True):
            r = d39_sys.d39_system(race=race)
            ctx.case(("system", "d39", race), True)
            name = "system:D39:" + ("race" if race else "sequential")
            brief = {k: r.get(k) for k in ("precondition", "parked", "differs_from_scratch", "validation_held")}
            ctx.stats["system_d39_" + ("race" if race else "sequential")] = brief
            if not r["precondition"] or (race and not r.get("validation_held")):
                fail("system:d39:witness-not-reproduced", name,
                     f"the system-level D39 history no longer reaches its precondition (u's stored hash without x.txt"
                     f"{', validation in flight during the recycle' if race else ''}): {brief}", {"replay": name, **brief})
            elif r["parked"] or r["differs_from_scratch"]:
                fail("system:d39:parked-after-unchanged-validation" + (":outcome-committed-after-reattach" if race else ""), name,
                     f"real `stepup` builds: build 2 ends with rc {r['build2']['rc']}, ./u.py {r['build2']['probe']}, warnings "
                     f"{r['build2'].get('warning')}; the build from scratch ends with rc {r['scratch']['rc']}",
                     {"replay": name, "build2": r["build2"], "build3": r["build3"], "scratch": r["scratch"]})
    # deterministic replays of the Coq refutation witnesses (regressions for the fixed D18 and D8)
    r = run(M.replay_d11(), timeout=60)
    ctx.case(("replay", "d11"), True)
    va = M.View(r["after"])
    if r["choice"] is None and va.eligible_set():
        fail(SIG_D11, "replay:D11", "witness of C10_update_meta_refuted_for_min_merge on the real code: after the "
             "plan reran and recycled its child c, the grandchild b keeps _safe = 0 although plan and c are SUCCEEDED; "
             "pop_next_job returns None and the phase ends with b PENDING",
             {"replay": "D11", "cached_vs_spec": [[c, M.label_of(r['after'], k), a, b] for c, k, a, b in va.cached_vs_spec()],
              "eligible_left": [M.label_of(r["after"], k) for k in va.eligible_set()], "before": r["before"]})
    r = run(M.replay_d8(), timeout=60)
    ctx.case(("replay", "d8"), True)
    v1 = M.View(r["phase1_end"])
    stale = [(c, M.label_of(r["phase1_end"], k), a, b) for c, k, a, b in v1.cached_vs_spec()]
    if stale or r["phase2_choice"] == "P":
        fail(SIG_D8, "replay:D8", "witness of C10_del_dep_need_flag_refuted_for_sink_only_trigger on the real code: after C's rerun "
             "dropped its amended input f.txt, the OPTIONAL producer P keeps _implied_need = DEFAULT with no flag; "
             f"phase 1 ends with {stale}, revert_optional_steps queues {r['to_be_deleted']}, and phase 2 dispatches "
             f"{r['phase2_choice']!r} although nothing needs it",
             {"replay": "D8", "trace": r["trace"], "stale": [list(x) for x in stale], "to_be_deleted": r["to_be_deleted"],
              "phase2_choice": r["phase2_choice"], "before": r["before"]})
    for sig, (name, detail, witness) in fails.items():
        ctx.add_failure("oracle", name, sig, detail, witness=witness)
    if shapes:
        for key in shapes[0]:
            vals = sorted(s[key] for s in shapes)
            ctx.stats.setdefault("graph_shape_at_ticks", {})[key] = {
                "min": vals[0], "median": vals[len(vals) // 2], "max": vals[-1]}
    ctx.sample({"oracle": "specs recomputed by definition at every tick and phase end", "ticks": len(shapes)})


def search(ctx):
    """An obligation broke without a witness from the quick phases: first the targeted family with
    random members (a changed trigger body is most likely to show there), then more and longer
    histories."""
    found = []
    rng = random.Random(f"C10-search-{ctx.seed}")
    M.run_multi_consumer_family([M.random_multi_variant(rng) for _ in range(60)],
                                lambda sig, name, detail, wit: found.append((sig, name, detail, wit)))
    seen = set()
    for sig, name, detail, wit in found:
        if sig not in seen:
            seen.add(sig)
            ctx.add_failure("oracle", name, sig, detail, witness=wit)
    if found:
        return
    ctx._c10_hist = None
    old = ctx.tier
    ctx.tier = "thorough"
    try:
        oracle(ctx)
    finally:
        ctx.tier = old


def replay(ctx, obj):
    w = obj["failure"].get("witness")
    print("replaying", (w or {}).get("replay") or (w or {}).get("op"))
    oracle(ctx)
