"""C16: oracles on the implementation alone (no Coq, no generated file: they run whatever the translator did).

Families (every failure carries the event list / offsets needed to reproduce it):

 A  answered-exactly-once on a connection that stays up: random request mixes, completion orders and handler
    endings (value, UsageError, internal error, a CancelledError or BaseException raised by the handler itself,
    refusals); when everything completed and every drain was let through, each request has exactly one reply
    with its own id and of the expected class.
 B  the peer vanishes (EOF, or a reset) at EVERY byte offset of a request stream: serve() returns normally, no
    handler in flight is cancelled, every completely received request was started and runs to its end.
 C  several real clients on one Unix socket using the SAME call ids concurrently, one of them vanishing with calls
    in flight: each caller gets the value of its own call.
 D  SocketRPCServer shutdown with calls in flight, after an hour of loop time: the handlers are not cancelled,
    serve() waits for them and returns.
 I  two connections of one SocketRPCServer (real _serve_connection): garbage body / oversized header / EOF inside a
    header or a body / cancelled serve() / reader error / unpicklable result / normal end on B while A has calls in
    flight: A's handlers are not cancelled, A's calls get their own values, A stays usable, B does not wait for A.
 H  framing round trip: _encode_message read back by _recv_stream_message and _recv_socket_message.
 G  bursts: 70 / 150 / 300 calls in flight on one connection completed within one event-loop turn, with the send loop
    blocked in drain() by a peer that does not read, and with a free send loop: one reply per call.
 E  a handler that fails while it is being cancelled (teardown after garbage): serve() still ends, and with the
    receive loop's own error only.
"""
from __future__ import annotations

import asyncio
import os
import pickle

from .c16_driver import Handler, ServerRun, reply_kind, request, settle, split_messages

EXPECT_KIND = {"ok": "ok", "usage": "usage", "usage2": "usage", "internal": "generic", "cancel_self": "generic",
               "await_cancelled": "generic", "base_exc": "generic"}
REFUSED = ("hidden", "hidden_async", "nosuch", "not_callable", "_private", "__class__", "release")


async def family_a(ctx, ncase, problems):
    rng = ctx.rng
    for _ in range(ncase):
        n = rng.randint(2, 9)
        plan = []          # (call id, name, outcome | None)
        cid = rng.choice([1, 1, 5, 2 ** 63])
        for _ in range(n):
            r = rng.random()
            if r < 0.6:
                plan.append((cid, "work", rng.choice(list(EXPECT_KIND))))
            elif r < 0.8:
                plan.append((cid, "quick", rng.choice(["ok", "usage", "internal", "cancel_self", "base_exc"])))
            else:
                plan.append((cid, rng.choice(REFUSED), None))
            cid += rng.choice([1, 1, 2])
        run = ServerRun(gated=rng.random() < 0.5)
        await run.start()
        stream = b"".join(request(c, nm, c, oc) if nm == "quick" else request(c, nm, c) for c, nm, oc in plan)
        cut = rng.randint(0, len(stream))
        run.reader.feed_data(stream[:cut])
        await settle()
        run.reader.feed_data(stream[cut:])
        await settle()
        order = [(c, oc) for c, nm, oc in plan if nm == "work"]
        rng.shuffle(order)
        events = [["recv", stream[:cut].hex()], ["recv", stream[cut:].hex()]]
        for c, oc in order:
            run.handler.release(c, oc)
            events.append(["complete", c, oc])
            if rng.random() < 0.5:
                await settle()
                run.writer.permit(True)
        for _ in range(4 * n):
            await settle()
            if not run.writer.permit(True):
                break
        await settle()
        o = run.observe()
        ctx.case(("implA", repr(plan), cut), True)
        got = {}
        for c, k in o["sent"]:
            got.setdefault(c, []).append(k)
        for c, nm, oc in plan:
            want = EXPECT_KIND[oc] if oc else "generic"
            cause = f"{nm}:{oc or 'refused'}"
            if o["status"] != "up":
                problems.append((f"connection-ended:{cause}", f"the connection ended ({o['status']}) although nothing but "
                                 f"ordinary calls happened; plan {plan}", {"plan": plan, "events": events}))
                break
            if got.get(c, []) != [want]:
                what = "no-reply" if not got.get(c) else ("several-replies" if len(got[c]) > 1 else "wrong-class")
                problems.append((f"{what}:{cause}", f"call {c} ({nm}, ending {oc}) on a connection that stays up got "
                                 f"replies {got.get(c, [])}, expected exactly [{want}]; all replies {o['sent']}",
                                 {"plan": plan, "events": events, "call": c}))
                break
        await run.teardown()


async def family_b(ctx, problems, stride=1):
    """Peer gone at every offset."""
    msgs = [request(1, "work", 1), request(2, "quick", 2, "ok"), request(3, "work", 3, ), request(4, "work", "x" * 300)]
    stream = b"".join(msgs)
    bounds = [0]
    for m in msgs:
        bounds.append(bounds[-1] + len(m))
    for how in ("eof", "reset"):
        for cut in range(0, len(stream) + 1, stride):
            run = ServerRun(gated=False)
            await run.start()
            if cut:
                run.reader.feed_data(stream[:cut])
            await settle()
            if how == "eof":
                run.reader.feed_eof()
            else:
                run.reader.set_exception(ConnectionResetError("peer reset (injected)"))
            await settle()
            complete = sum(1 for b in bounds[1:] if b <= cut)
            inside = next(i for i in range(len(msgs)) if cut <= bounds[i + 1]) if cut < len(stream) else len(msgs) - 1
            where = ("at-a-message-boundary" if cut in bounds else
                     "inside-a-header" if cut - bounds[inside] < 16 else "inside-a-body")
            mid = run.observe()
            for tag, _ in list(run.handler.started):
                run.handler.release(tag, "ok")
            await settle()
            o = run.observe()
            ctx.case(("implB", how, cut), True)
            wit = {"stream": stream.hex(), "cut": cut, "how": how, "complete_frames": complete}
            if not run.task.done():
                problems.append((f"peer-gone:{where}:serve-does-not-end", f"{how} at offset {cut}: serve() still runs", wit))
            elif not o["status"] == "closed":
                problems.append((f"peer-gone:{where}:serve-raises", f"{how} at offset {cut} ({where}): serve() ended as "
                                 f"{o['status']} instead of returning", wit))
            elif mid["cancelled"] or o["cancelled"]:
                problems.append((f"peer-gone:{where}:cancels-calls-in-flight", f"{how} at offset {cut}: handlers "
                                 f"{o['cancelled']} were cancelled", wit))
            elif len(o["invoked"]) != complete or sorted(map(str, o["finished"])) != sorted(
                    map(str, [1, 2, 3, "x" * 300][:complete])):
                problems.append((f"peer-gone:{where}:received-call-not-run", f"{how} at offset {cut}: {complete} complete "
                                 f"frames but invoked {o['invoked']} finished {o['finished']}", wit))
            await run.teardown()
            if problems and problems[-1][2] is wit and len([p for p in problems if p[2].get("how") == how]) > 3:
                break


class _SlowHandler(Handler):
    pass


async def family_c(ctx, tmp, problems):
    from stepup.core.rpc import SocketAsyncRPCClient, SocketRPCServer
    rng = ctx.rng
    path = os.path.join(tmp, "multi")
    handler = Handler()
    stop = asyncio.Event()
    server = asyncio.create_task(SocketRPCServer(handler, path).serve(stop))
    for _ in range(4000):
        if os.path.exists(path):
            break
        await asyncio.sleep(0.005)
    nclient, ncall = 4, ctx.scale(6, 20)
    clients = [SocketAsyncRPCClient(path) for _ in range(nclient)]
    tasks = {}
    for k, c in enumerate(clients):
        for i in range(ncall):          # client k, call id i+1 on every connection
            tasks[(k, i)] = asyncio.create_task(c.call.work(1000 * k + i))

    async def started(n):
        while len(handler.invoked) < n:
            await asyncio.sleep(0)
    await asyncio.wait_for(started(nclient * ncall), 60)
    # a fifth peer sends an oversized header, a sixth a body that is no call: their connections fail, nobody else's
    for junk in ((7).to_bytes(8, "big") + (2 ** 40).to_bytes(8, "big"), (7).to_bytes(8, "big") + (5).to_bytes(8, "big") + b"hello"):
        r_, w_ = await asyncio.open_unix_connection(path)
        w_.write(junk)
        await w_.drain()
        await asyncio.wait_for(r_.read(), 60)       # until the server closed that connection
        w_.close()
    if handler.cancelled:
        problems.append(("multi-client:malformed-frame-of-another-peer-cancels-calls", f"handlers {handler.cancelled[:6]} "
                         "of well-behaved clients were cancelled when another peer sent a malformed frame",
                         {"cancelled": handler.cancelled[:20]}))
        for t in tasks.values():
            t.cancel()
        stop.set()
        return
    # client 0 vanishes with all its calls in flight
    clients[0]._writer.transport.abort()
    order = list(tasks)
    rng.shuffle(order)
    for k, i in order:
        handler.release(1000 * k + i, "ok")
    res = await asyncio.wait_for(asyncio.gather(*tasks.values(), return_exceptions=True), 60)
    for (k, i), r in zip(tasks, res):
        ctx.case(("implC", k, i), True)
        if k == 0:
            if not isinstance(r, (ConnectionError, OSError)):
                problems.append(("multi-client:vanished-client-call", f"call {i + 1} of the aborted client ended as {r!r}",
                                 {"client": k, "call": i + 1}))
                break
        elif r != ("ok", 1000 * k + i):
            problems.append(("multi-client:reply-of-another-call", f"client {k} call id {i + 1} (tag {1000 * k + i}) "
                             f"received {r!r} while {nclient} clients used the same call ids",
                             {"client": k, "call": i + 1, "order": order[:40]}))
            break
    for c in clients[1:]:
        await asyncio.wait_for(c.close(), 60)
    try:
        await asyncio.wait_for(clients[0].close(), 60)
    except Exception:  # noqa: BLE001 - the aborted client may report its lost connection
        pass
    if handler.cancelled:
        problems.append(("multi-client:handlers-cancelled", f"handlers {handler.cancelled} were cancelled when one "
                         "client vanished", {"cancelled": handler.cancelled}))
    stop.set()
    await asyncio.wait_for(server, 60)


async def family_d(ctx, tmp, problems):
    """Shutdown of the server with calls in flight, the loop clock an hour ahead."""
    from stepup.core.rpc import SocketAsyncRPCClient, SocketRPCServer
    path = os.path.join(tmp, "shutdown")
    handler = Handler()
    stop = asyncio.Event()
    server = asyncio.create_task(SocketRPCServer(handler, path).serve(stop))
    for _ in range(4000):
        if os.path.exists(path):
            break
        await asyncio.sleep(0.005)
    client = SocketAsyncRPCClient(path)
    calls = [asyncio.create_task(client.call.work(i)) for i in range(3)]

    async def started(n):
        while len(handler.invoked) < n:
            await asyncio.sleep(0)
    await asyncio.wait_for(started(3), 60)
    stop.set()
    for _ in range(20):
        await asyncio.sleep(0)
    loop = asyncio.get_running_loop()
    base = loop.time
    loop.time = lambda: base() + 3600.0
    for _ in range(50):
        await asyncio.sleep(0.001)
    ctx.case(("implD",), True)
    early = server.done()
    cancelled = list(handler.cancelled)
    for i in range(3):
        handler.release(i, "ok")
    done, _ = await asyncio.wait([server], timeout=60)
    if early:
        problems.append(("shutdown:serve-returned-with-calls-in-flight", "SocketRPCServer.serve() returned while 3 "
                         "handlers were still running", {"calls": 3}))
    elif cancelled:
        problems.append(("shutdown:calls-in-flight-cancelled", f"handlers {cancelled} were cancelled by the shutdown "
                         "(after an hour of loop time)", {"cancelled": cancelled}))
    elif not done:
        problems.append(("shutdown:serve-does-not-return", "SocketRPCServer.serve() did not return after the handlers "
                         "finished", {}))
    elif sorted(handler.finished) != [0, 1, 2]:
        problems.append(("shutdown:calls-in-flight-not-finished", f"finished {handler.finished}", {}))
    res = await asyncio.wait_for(asyncio.gather(*calls, return_exceptions=True), 60)
    for i, r in enumerate(res):
        if not (r == ("ok", i) or isinstance(r, (ConnectionError, OSError))):
            problems.append(("shutdown:caller-outcome", f"caller {i} ended as {r!r}", {"call": i}))
    try:
        await asyncio.wait_for(client.close(), 60)
    except Exception:  # noqa: BLE001
        pass


class _FailsInCancel(Handler):
    from stepup.core.rpc import allow_rpc as _allow

    @_allow
    async def stubborn(self, tag):
        self.invoked.append("stubborn")
        try:
            await asyncio.get_running_loop().create_future()
        except asyncio.CancelledError:
            self.cancelled.append(tag)
            raise RuntimeError("failed while being cancelled")   # noqa: B904


async def family_e(ctx, problems):
    run = ServerRun(handler=_FailsInCancel(), gated=False)
    await run.start()
    run.reader.feed_data(request(1, "stubborn", 1) + request(2, "work", 2))
    await settle()
    run.reader.feed_data((9).to_bytes(8, "big") + (2 ** 40).to_bytes(8, "big"))
    await settle()
    o = run.observe()
    ctx.case(("implE",), True)
    if not run.task.done():
        problems.append(("teardown:serve-does-not-end:handler-raises-in-cancel", f"after garbage: {o}", {"obs": repr(o)}))
    elif o["status"] != "failed:RPCError":
        problems.append(("teardown:serve-raises-handler-error", f"serve() ended as {o['status']}, expected the RPCError of "
                         "the garbage frame alone", {"status": o["status"]}))
    await run.teardown()


async def family_g(ctx, problems, sizes=(70, 150, 300)):
    """Bursts: N calls in flight on one connection, all released within one turn of the event loop, while the send
    loop is (a) blocked in drain() by a peer that does not read, (b) free. Every call must get exactly one reply."""
    for n in sizes:
        for slow_reader in (True, False):
            run = ServerRun(gated=slow_reader)
            await run.start()
            run.reader.feed_data(b"".join(request(i + 1, "work", i + 1) for i in range(n)))
            await settle()
            if slow_reader:
                # one reply on its way: the send loop now waits in drain() until the peer reads
                run.handler.release(1, "ok")
                await settle()
            order = [i + 1 for i in range(n) if not (slow_reader and i == 0)]
            ctx.rng.shuffle(order)
            for tag in order:            # no await in between: one event-loop turn
                run.handler.release(tag, "ok")
            await settle()
            queued = run.conn._completed.qsize()
            run.writer.open()            # the peer reads again
            await settle()
            o = run.observe()
            ctx.case(("implG", n, slow_reader), True)
            got = sorted(c for c, _ in o["sent"])
            if got != list(range(1, n + 1)) or o["status"] != "up":
                missing = sorted(set(range(1, n + 1)) - set(got))
                problems.append((f"burst:replies-lost:{'send-loop-blocked-in-drain' if slow_reader else 'send-loop-free'}",
                                 f"{n} calls in flight on one connection were completed within one event-loop turn "
                                 f"({'the peer was not reading, ' if slow_reader else ''}{queued} completed calls queued for "
                                 f"the send loop): {len(missing)} calls never got a reply (first {missing[:5]}), "
                                 f"{len(got) - len(set(got))} duplicate replies, connection {o['status']}",
                                 {"calls": n, "slow_reader": slow_reader, "release_order": order[:80],
                                  "queued_when_released": queued, "missing": missing[:50]}))
            await run.teardown()


async def family_h(ctx, problems, n=60):
    """Framing round trip on the implementation alone: what _encode_message writes, _recv_stream_message (asyncio
    stream, cut into fragments) and _recv_socket_message (blocking reader) read back as the same call id and body."""
    from stepup.core.rpc import _encode_message, _recv_socket_message, _recv_stream_message, _SocketReader
    from .c16_driver import FragmentSocket
    rng = ctx.rng
    for k in range(n):
        cid = rng.choice([0, 1, 255, 256, 2 ** 32 + 5, 2 ** 64 - 1, rng.randrange(2 ** 64)])
        body = rng.choice([None, b"", b"x", bytes(rng.randrange(256) for _ in range(rng.randint(1, 300)))])
        want = (cid, body if body else None)
        wit = {"call_id": cid, "body": None if body is None else body.hex()}
        ctx.case(("implH", cid, body), True)
        try:
            data = _encode_message(cid, body)
            cut = rng.randint(0, len(data))
            reader = asyncio.StreamReader()
            reader.feed_data(data[:cut])
            reader.feed_data(data[cut:])
            reader.feed_eof()
            got = await asyncio.wait_for(_recv_stream_message(reader), 30)
            rest = await reader.read()
            got2 = _recv_socket_message(_SocketReader(FragmentSocket([data[:cut], data[cut:]] if 0 < cut < len(data)
                                                                     else [data]), "sock"))
        except Exception as e:  # noqa: BLE001
            problems.append(("framing:roundtrip-raises", f"message (id {cid}, body {wit['body'] and len(body)} bytes) "
                             f"could not be read back: {type(e).__name__}: {e}", wit))
            return
        if got != want or got2 != want or rest:
            problems.append(("framing:roundtrip-differs", f"message (id {cid}, body of {0 if not body else len(body)} "
                             f"bytes) was read back as stream={str(got)[:80]} socket={str(got2)[:80]} leftover={len(rest)}",
                             wit))
            return


async def family_i(ctx, problems):
    """Several connections of ONE SocketRPCServer (built by the real SocketRPCServer._serve_connection, on in-memory
    streams): connection A has three gated calls in flight; connection B then misbehaves or simply ends. A's handlers
    must not be cancelled, A's calls complete with their own values, A stays usable; B ending must not wait for A."""
    from stepup.core.rpc import SocketRPCServer
    from .c16_driver import GatedWriter
    faults = ["garbage-body", "oversized-header", "eof-inside-header", "eof-inside-body", "serve-cancelled",
              "reader-error", "unpicklable-result", "close-request", "eof-at-boundary"]
    for fault in faults:
        handler = Handler()
        server = SocketRPCServer(handler, "/nonexistent/c16-multi")
        conns = {}
        for name in "AB":
            reader, writer = asyncio.StreamReader(), GatedWriter(gated=False)
            conns[name] = (reader, writer, asyncio.create_task(server._serve_connection(reader, writer)))
        await settle()
        ra, wa, ta = conns["A"]
        rb, wb, tb = conns["B"]
        ra.feed_data(b"".join(request(i, "work", 100 + i) for i in (1, 2, 3)))
        rb.feed_data(request(1, "work", 200))          # B has a call in flight as well, same call id as A
        await settle()
        b_normal = fault in ("close-request", "eof-at-boundary")
        if fault == "garbage-body":
            rb.feed_data((7).to_bytes(8, "big") + (5).to_bytes(8, "big") + b"hello")
        elif fault == "oversized-header":
            rb.feed_data((7).to_bytes(8, "big") + (2 ** 40).to_bytes(8, "big"))
        elif fault == "eof-inside-header":
            rb.feed_data(b"\x00\x00\x00")
            rb.feed_eof()
        elif fault == "eof-inside-body":
            rb.feed_data(request(2, "work", 201)[:-4])
            rb.feed_eof()
        elif fault == "serve-cancelled":
            tb.cancel()
        elif fault == "reader-error":
            rb.set_exception(OSError(5, "injected"))
        elif fault == "unpicklable-result":
            handler.release(200, "unpicklable")
        elif fault == "close-request":
            rb.feed_data((9).to_bytes(8, "big") + (0).to_bytes(8, "big"))
        else:
            rb.feed_eof()
        await settle()
        if b_normal or fault.startswith("eof-inside"):
            handler.release(200, "ok")              # B's own call ends; nothing of B is left then
            await settle()
        ctx.case(("implI", fault), True)
        wit = {"fault_on_connection_B": fault, "calls_in_flight_on_A": [1, 2, 3]}
        cancelled_a = sorted(t for t in handler.cancelled if t in (101, 102, 103))
        b_done = tb.done()
        for i in (3, 1, 2):
            handler.release(100 + i, "ok")
        await settle()
        replies = sorted((cid, pickle.loads(b) if b else None) for cid, b in split_messages(wa.written)[0])
        ra.feed_data(request(4, "quick", 104))      # A is still usable
        await settle()
        after = [(cid, pickle.loads(b) if b else None) for cid, b in split_messages(wa.written)[0] if cid == 4]
        if cancelled_a:
            problems.append((f"other-connection:{fault}:cancels-calls-of-connection-A", f"after {fault} on connection B "
                             f"the handlers {cancelled_a} of connection A were cancelled; A's replies: "
                             f"{[(c, getattr(v, 'qualname', v)) for c, v in replies]}", wit))
        elif replies != [(1, ("ok", 101)), (2, ("ok", 102)), (3, ("ok", 103))]:
            problems.append((f"other-connection:{fault}:wrong-replies-on-connection-A", f"after {fault} on connection B, "
                             f"A's calls were answered {[(c, getattr(v, 'qualname', v)) for c, v in replies]}", wit))
        elif after != [(4, ("ok", 104))] or ta.done():
            problems.append((f"other-connection:{fault}:connection-A-unusable", f"after {fault} on connection B, a further "
                             f"call on A was answered {after}, A's serve() done={ta.done()}", wit))
        elif not b_done:
            problems.append((f"other-connection:{fault}:connection-B-waits-for-calls-of-A", f"connection B ({fault}) had "
                             "nothing of its own left but its serve() only ended after A's calls were released", wit))
        for r_, w_, t_ in conns.values():
            if not r_.at_eof() and r_.exception() is None:
                r_.feed_eof()
        for tag, fut in list(handler.started):
            if not fut.done():
                fut.set_result("ok")
        await settle()
        for r_, w_, t_ in conns.values():
            if not t_.done():
                t_.cancel()
        await settle()
        for r_, w_, t_ in conns.values():
            if t_.done() and not t_.cancelled():
                t_.exception()


def run_guarded(coro, seconds):
    """asyncio.run under a wall-clock guard (family D moves the loop clock, so no asyncio timeout around it)."""
    import threading

    async def runner():
        task, loop = asyncio.current_task(), asyncio.get_running_loop()
        timer = threading.Timer(seconds, lambda: loop.call_soon_threadsafe(task.cancel))
        timer.daemon = True
        timer.start()
        try:
            return await coro
        finally:
            timer.cancel()
    return asyncio.run(runner())


def run_all(ctx, tmp, deep=False):
    """The in-memory families first; the families on a real socket only when those found nothing (with broken framing
    or lost replies they would merely run into their timeouts). A family that raises is reported, what the earlier
    ones found is kept."""
    problems = []

    async def guarded(name, coro):
        try:
            await coro
        except Exception as e:  # noqa: BLE001
            problems.append((f"family-{name}-raised:{type(e).__name__}", f"oracle family {name} ended on "
                             f"{type(e).__name__}: {e}", {"family": name}))

    async def memory():
        await guarded("H", family_h(ctx, problems, 400 if deep else 60))
        await guarded("A", family_a(ctx, 2500 if deep else ctx.scale(150, 1500), problems))
        await guarded("B", family_b(ctx, problems, stride=1))
        await guarded("E", family_e(ctx, problems))
        await guarded("I", family_i(ctx, problems))
        await guarded("G", family_g(ctx, problems, (70, 150, 300, 700) if deep else (70, 150, 300)))
    run_guarded(memory(), 900)
    if problems:
        return problems
    run_guarded(guarded("C", family_c(ctx, tmp, problems)), 300)
    run_guarded(guarded("D", family_d(ctx, tmp, problems)), 300)
    return problems
