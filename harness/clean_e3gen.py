"""Project / history generator for the E3 parts of C06 and C07: nested sub-plans.

`harness/e3_gen.py` (shared, not edited here) has one level of sub-plans.  The cleanup properties
depend on what a *dropped subtree of steps* leaves behind, so this generator builds plan trees of
depth up to 4 (plan.py -> subN/plan.py -> subN/subM/plan.py -> ...) and histories of plan edits that

* stop creating a whole sub-plan at any level (only the parent script changes, so no other plan
  reruns), re-add it later, with or without the script file staying on disk;
* drop / re-add / move single steps, rename outputs (consumers following or not), switch an output
  between regular and volatile, toggle optional;
* place optional producers whose only (mandatory) consumers live one, two or three plan levels
  further down, or in another branch;
* drop the static() declaration of a source file while steps still name it as input (the node
  becomes UNDECLARED and the build stays incomplete), and later drop or redirect the consumers;
* change source contents.

Everything is plain data: a plan is {"id", "path", "units"}, a unit is one of
  {"k": "static", "files": [...]}
  {"k": "step", "id", "inp", "out", "vol", "optional"}
  {"k": "sub", "plan": {...}}
`render(root, orphans)` gives the E3 program.  All randomness comes from random.Random(seed).

Besides `gen_case(seed)` two *directed families* enumerate small shapes systematically (no
randomness in the shape, variants rotate with `shift`): `nested_drop_cases` (a chain of plans, one
producer, one consumer further down, one level dropped) and `undeclare_cases` (a static file loses
its declaration while used, then loses its consumer).  The oracles are the generic ones of
clean_common; nothing here encodes an expected outcome.
"""
from __future__ import annotations

import copy
import random

from .e3 import Project

OUT_DIRS = ["", "", "", "out/", "out/a/", "gen/"]


# ---------------------------------------------------------------------------------------------
# plan trees -> program
# ---------------------------------------------------------------------------------------------


def step_action(u: dict) -> dict:
    a = {"op": "step", "label": f"t{u['id']}", "inp": list(u["inp"]), "out": list(u["out"])}
    if u.get("vol"):
        a["vol"] = list(u["vol"])
    if u.get("optional"):
        a["need"] = "OPTIONAL"
    if u.get("env"):
        a["env"] = list(u["env"])
    return a


def _walk_render(plan: dict, scripts: dict, live: bool):
    actions = []
    for u in plan["units"]:
        if u["k"] == "static":
            if u["files"]:
                actions.append({"op": "static", "paths": list(u["files"])})
        elif u["k"] == "tree":
            actions.append({"op": "static", "paths": [u["path"]]})
        elif u["k"] == "step":
            actions.append(step_action(u))
        elif u["k"] == "sub":
            sub = u["plan"]
            actions.append({"op": "static", "paths": [sub["path"]]})
            actions.append({"op": "plan", "label": "./" + sub["path"]})
            _walk_render(sub, scripts, live)
    scripts[plan["path"]] = actions


def render(root: dict, orphans: list | tuple = ()) -> dict:
    """Program of the plan tree; `orphans` are plans whose script files stay on disk uncalled."""
    scripts: dict = {}
    for o in orphans:
        _walk_render(o, scripts, False)
    _walk_render(root, scripts, True)
    return {"scripts": scripts, "commands": {}}


def plans_of(plan: dict, depth: int = 0):
    yield plan, depth
    for u in plan["units"]:
        if u["k"] == "sub":
            yield from plans_of(u["plan"], depth + 1)


def steps_of(plan: dict):
    for p, _ in plans_of(plan):
        for u in p["units"]:
            if u["k"] == "step":
                yield u, p


def out_dirs(program: dict) -> set:
    """Directories that the commands of the program create for their outputs (`mkdir -p` inside
    the command; emulated by the runner before a build)."""
    dirs = set()

    def walk(actions):
        for a in actions:
            if a.get("op") in ("step", "run"):
                for p in list(a.get("out", [])) + list(a.get("vol", [])):
                    if "/" in p and "{" not in p:
                        dirs.add(p.rsplit("/", 1)[0])
            for key in ("foreach", "then", "else"):
                if isinstance(a.get(key), list):
                    walk(a[key])
    for actions in program.get("scripts", {}).values():
        walk(actions)
    return dirs


# ---------------------------------------------------------------------------------------------
# random generator
# ---------------------------------------------------------------------------------------------


class Gen:
    def __init__(self, seed: int):
        self.rng = random.Random(seed)
        self.sources: dict = {}
        self.root = {"id": 0, "path": "plan.py", "units": []}
        self.orphans: list = []       # dropped plans whose scripts stay on disk
        self.parked: list = []        # (unit, parent plan id) dropped units that may come back
        self.undeclared: list = []    # source files that lost their static() line
        self.next_id = 0
        self.pending_fs: list = []
        self.stats: dict = {}

    def count(self, key):
        self.stats[key] = self.stats.get(key, 0) + 1

    def new_id(self) -> int:
        self.next_id += 1
        return self.next_id

    # -- queries ------------------------------------------------------------------------------
    def plan_by_id(self, pid):
        for p, _ in plans_of(self.root):
            if p["id"] == pid:
                return p
        return None

    def depth_of(self, pid):
        for p, d in plans_of(self.root):
            if p["id"] == pid:
                return d
        return None

    def providers(self) -> set:
        out = set()
        for p, _ in plans_of(self.root):
            for u in p["units"]:
                if u["k"] == "static":
                    out.update(u["files"])
                elif u["k"] == "tree":
                    out.update(s for s in self.sources if s.startswith(u["path"]))
                elif u["k"] == "step":
                    out.update(u["out"])
        return out

    def consumers_of(self, path):
        return [(u, p) for u, p in steps_of(self.root) if path in u["inp"]]

    # -- construction -------------------------------------------------------------------------
    def new_source(self, directory=""):
        n = self.new_id()
        p = f"{directory}s{n}.txt"
        self.sources[p] = f"content of {p} v0\n"
        return p

    def make_step(self, avail, *, optional=None, inp=None) -> dict:
        rng = self.rng
        uid = self.new_id()
        d = rng.choice(OUT_DIRS)
        if inp is None:
            avail = sorted(avail)
            inp = sorted(rng.sample(avail, min(len(avail), rng.choice([1, 1, 2])))) if avail else []
        u = {"k": "step", "id": uid, "inp": list(inp), "out": [f"{d}o{uid}.txt"], "vol": [],
             "optional": (rng.random() < 0.15) if optional is None else optional}
        if rng.random() < 0.15:
            u["out"].append(f"{rng.choice(OUT_DIRS)}o{uid}b.txt")
        if rng.random() < 0.15:
            u["vol"] = [f"{rng.choice(OUT_DIRS)}v{uid}.log"]
        return u

    def make_plan(self, depth: int, directory: str) -> dict:
        rng = self.rng
        pid = self.new_id()
        path = f"{directory}sub{pid}/plan.py"
        plan = {"id": pid, "path": path, "units": []}
        nsub = {1: rng.choice([0, 1, 1, 2]), 2: rng.choice([0, 1, 1]), 3: 0}.get(depth, 0)
        for _ in range(nsub):
            plan["units"].append({"k": "sub", "plan": self.make_plan(depth + 1, f"{directory}sub{pid}/")})
        return plan

    def initial(self):
        rng = self.rng
        root_src = [self.new_source() for _ in range(rng.randint(2, 3))]
        if rng.random() < 0.4:
            root_src.append(self.new_source("src/"))
        self.root["units"].append({"k": "static", "files": sorted(root_src)})
        if rng.random() < 0.3:
            for _ in range(rng.randint(1, 2)):
                self.new_source("data/")
            self.root["units"].append({"k": "tree", "path": "data/"})
        for _ in range(rng.choice([1, 1, 2])):
            self.root["units"].append({"k": "sub", "plan": self.make_plan(1, "")})
        plans = list(plans_of(self.root))
        # statics declared by sub-plans
        for p, d in plans:
            if d > 0 and rng.random() < 0.35:
                s = self.new_source(p["path"].rsplit("/", 1)[0] + "/")
                p["units"].insert(0, {"k": "static", "files": [s]})
        # plain steps, in plan order so that inputs exist somewhere
        for p, d in plans:
            for _ in range(rng.choice([0, 1, 1, 2])):
                p["units"].append(self.make_step(self.providers()))
        # optional producers whose only consumers are further down / elsewhere
        for _ in range(rng.choice([1, 2, 2, 3])):
            self.add_optional_chain()

    def add_optional_chain(self):
        rng = self.rng
        plans = list(plans_of(self.root))
        pp, pd = rng.choice(plans)
        below = [(q, d) for q, d in plans_of(pp, pd) if d > pd]
        deep = [(q, d) for q, d in below if d >= pd + 2]
        if deep and rng.random() < 0.6:
            cp, cd = rng.choice(deep)
        elif below and rng.random() < 0.8:
            cp, cd = rng.choice(below)
        else:
            cp, cd = rng.choice(plans)
        srcs = sorted(p for p in self.providers() if p in self.sources)
        prod = self.make_step(srcs, optional=True)
        pp["units"].append(prod)
        link = prod
        if rng.random() < 0.3:            # optional -> optional -> mandatory
            mid = self.make_step([], optional=True, inp=[prod["out"][0]])
            rng.choice([pp, cp])["units"].append(mid)
            link = mid
        if rng.random() < 0.9:
            cons = self.make_step([], optional=False, inp=[link["out"][0]])
            cp["units"].append(cons)
        self.count(f"optional_chain_depth_gap_{cd - pd}")

    # -- edits --------------------------------------------------------------------------------
    def repair(self):
        """The user fixes what the previous edit broke: inputs that nothing provides any more."""
        rng = self.rng
        prov = self.providers()
        for u, p in list(steps_of(self.root)):
            missing = [x for x in u["inp"] if x not in prov]
            if not missing or rng.random() >= 0.8:
                continue
            if rng.random() < 0.3:
                p["units"].remove(u)
                self.parked.append((u, p["id"]))
                self.count("repair_drop_consumer")
            else:
                u["inp"] = [x for x in u["inp"] if x in prov]
                self.count("repair_stop_using")

    def edit(self):
        rng = self.rng
        kind = rng.choices(
            ["drop_sub", "readd", "drop_step", "toggle_optional", "rename_out", "move_step", "rerole",
             "change_src", "undeclare", "redeclare", "add_input", "add_step", "add_chain"],
            [24, 10, 10, 8, 8, 6, 5, 8, 10, 4, 4, 5, 4])[0]
        steps = list(steps_of(self.root))
        if kind == "drop_sub":
            cands = [(u, p) for p, _ in plans_of(self.root) for u in p["units"] if u["k"] == "sub"]
            if not cands:
                return
            u, p = rng.choice(cands)
            p["units"].remove(u)
            self.parked.append((u, p["id"]))
            if rng.random() < 0.5:
                self.orphans.append(u["plan"])
            self.count(f"drop_sub_at_depth_{self.depth_of(p['id']) + 1}")
        elif kind == "readd" and self.parked:
            u, pid = self.parked.pop(rng.randrange(len(self.parked)))
            p = self.plan_by_id(pid) or self.root
            if u["k"] == "sub":
                self.orphans = [o for o in self.orphans if o is not u["plan"]]
            p["units"].append(u)
            self.count("readd_" + u["k"])
        elif kind == "drop_step" and steps:
            u, p = rng.choice(steps)
            p["units"].remove(u)
            self.parked.append((u, p["id"]))
            self.count("drop_step")
        elif kind == "toggle_optional" and steps:
            u, _ = rng.choice(steps)
            u["optional"] = not u["optional"]
            self.count("toggle_optional")
        elif kind == "rename_out" and steps:
            u, _ = rng.choice(steps)
            old = u["out"][0]
            n = self.new_id()
            new = f"{rng.choice(OUT_DIRS)}o{u['id']}r{n}.txt"
            u["out"][0] = new
            follow = rng.random() < 0.7
            if follow:
                for c, _ in self.consumers_of(old):
                    c["inp"] = sorted({new if x == old else x for x in c["inp"]})
            self.count("rename_out_consumers_follow" if follow else "rename_out_consumers_stay")
        elif kind == "move_step" and steps:
            u, p = rng.choice(steps)
            q, _ = rng.choice(list(plans_of(self.root)))
            if q is not p:
                p["units"].remove(u)
                q["units"].append(u)
                self.count("move_step")
        elif kind == "rerole" and steps:
            u, _ = rng.choice(steps)
            if u["vol"]:
                u["out"].append(u["vol"].pop())
            elif len(u["out"]) > 1:
                u["vol"].append(u["out"].pop())
            self.count("rerole")
        elif kind == "change_src" and self.sources:
            p = rng.choice(sorted(self.sources))
            n = int(self.sources[p].rsplit("v", 1)[-1]) + 1
            self.sources[p] = f"content of {p} v{n}\n"
            self.pending_fs.append({"op": "write", "path": p, "content": self.sources[p]})
            self.count("change_src")
        elif kind == "undeclare":
            cands = [(u, f) for p, _ in plans_of(self.root) for u in p["units"] if u["k"] == "static"
                     for f in u["files"]]
            used = [(u, f) for u, f in cands if self.consumers_of(f)]
            if used and rng.random() < 0.8:
                cands = used
            if not cands:
                return
            u, f = rng.choice(cands)
            u["files"] = [x for x in u["files"] if x != f]
            self.undeclared.append(f)
            self.count("undeclare_static_used" if self.consumers_of(f) else "undeclare_static_unused")
        elif kind == "redeclare" and self.undeclared:
            f = self.undeclared.pop(rng.randrange(len(self.undeclared)))
            p, _ = rng.choice(list(plans_of(self.root)))
            st = [u for u in p["units"] if u["k"] == "static"]
            if st:
                st[0]["files"] = sorted(set(st[0]["files"]) | {f})
            else:
                p["units"].insert(0, {"k": "static", "files": [f]})
            self.count("redeclare_static")
        elif kind == "add_input" and steps:
            u, _ = rng.choice(steps)
            avail = sorted(self.providers() - set(u["inp"]) - set(u["out"]))
            if avail:
                u["inp"] = sorted(set(u["inp"]) | {rng.choice(avail)})
                self.count("add_input")
        elif kind == "add_step":
            p, _ = rng.choice(list(plans_of(self.root)))
            p["units"].append(self.make_step(self.providers()))
            self.count("add_step")
        elif kind == "add_chain":
            self.add_optional_chain()

    def path_to(self, plan, target, acc=()):
        """Sub units on the way from `plan` down to the plan `target` (None when not below)."""
        if plan is target:
            return list(acc)
        for u in plan["units"]:
            if u["k"] == "sub":
                r = self.path_to(u["plan"], target, (*acc, (u, plan)))
                if r is not None:
                    return r
        return None

    def focused_drop(self) -> bool:
        """Stop creating a sub-plan that lies between an optional producer and one of its consumers."""
        rng = self.rng
        cands = []
        for u, p in steps_of(self.root):
            if not u["optional"]:
                continue
            for c, q in self.consumers_of(u["out"][0]):
                path = self.path_to(p, q)
                if path:
                    cands.append(path)
        if not cands:
            return False
        sub, parent = rng.choice(rng.choice(cands))
        parent["units"].remove(sub)
        self.parked.append((sub, parent["id"]))
        if rng.random() < 0.5:
            self.orphans.append(sub["plan"])
        self.count(f"focused_drop_sub_at_depth_{self.depth_of(parent['id']) + 1}")
        return True

    def focused_undeclare(self) -> bool:
        cands = [(u, f) for p, _ in plans_of(self.root) for u in p["units"] if u["k"] == "static"
                 for f in u["files"] if self.consumers_of(f)]
        if not cands:
            return False
        u, f = self.rng.choice(cands)
        u["files"] = [x for x in u["files"] if x != f]
        self.undeclared.append(f)
        self.count("focused_undeclare_static_used")
        return True

    def phase(self, first: bool = False) -> list:
        self.pending_fs = []
        self.repair()
        done = False
        if first:
            r = self.rng.random()
            if r < 0.45:
                done = self.focused_drop()
            elif r < 0.7:
                done = self.focused_undeclare()
        for _ in range(self.rng.choice([0, 0, 1] if done else [1, 1, 2])):
            self.edit()
        return self.pending_fs + [{"op": "program", "program": render(self.root, self.orphans)}]


def gen_case(seed: int, *, max_phases: int = 5, stats: dict | None = None):
    """One project with nested sub-plans and one history of 2..max_phases phases."""
    g = Gen(seed)
    g.initial()
    project = Project(sources=dict(g.sources), program=render(g.root), env={})
    history = []
    for i in range(g.rng.randint(2, max_phases)):
        history.append({"edits": copy.deepcopy(g.phase(first=(i == 0)))})
    depth = max(d for _, d in plans_of(g.root))
    g.count(f"final_plan_depth_{depth}")
    if stats is not None:
        for k, v in g.stats.items():
            stats[k] = stats.get(k, 0) + v
    return project, history


# ---------------------------------------------------------------------------------------------
# directed families
# ---------------------------------------------------------------------------------------------


def _chain(depth: int):
    """plan.py -> sub1/plan.py -> sub1/sub2/plan.py -> ...; returns the list of plans, top first."""
    plans = [{"id": 0, "path": "plan.py", "units": []}]
    directory = ""
    for lvl in range(1, depth + 1):
        directory += f"sub{lvl}/"
        plans.append({"id": lvl, "path": directory + "plan.py", "units": []})
        plans[lvl - 1]["units"].append({"k": "sub", "plan": plans[lvl]})
    return plans


def nested_drop_cases(shift: int = 0, max_depth: int = 4):
    """A chain of plans of depth D; a producer P in plan lp; its only consumer C in plan lc > lp; a
    mandatory bystander in every plan.  Edit: plan ld-1 stops creating plan ld (lp < ld <= lc), so
    the consumer disappears as a product ld..lc levels below the dropped step, and only the script of
    plan ld-1 changes.  Variants (rotating): producer optional / mandatory, output regular /
    volatile / in a directory, script of the dropped plan stays on disk or not, a chain of two
    optional producers, an untouched third build.
    Yields (project, history, info)."""
    k = shift
    for depth in range(1, max_depth + 1):
        for lp in range(0, depth):
            for lc in range(lp + 1, depth + 1):
                for ld in range(lp + 1, lc + 1):
                    k += 1
                    plans = _chain(depth)
                    optional = k % 5 != 4
                    volatile = k % 4 == 3
                    d = ["", "out/", "out/a/"][k % 3]
                    two = k % 7 == 5
                    keep_file = k % 2 == 0
                    plans[0]["units"].insert(0, {"k": "static", "files": ["src.txt"]})
                    prod = {"k": "step", "id": 100, "inp": ["src.txt"], "out": [] if volatile else [f"{d}o.txt"],
                            "vol": [f"{d}o.txt"] if volatile else [], "optional": optional}
                    if volatile:
                        prod["out"] = [f"{d}o_reg.txt"]
                    plans[lp]["units"].append(prod)
                    feed = prod["out"][0]
                    if two:
                        mid = {"k": "step", "id": 101, "inp": [feed], "out": [f"{d}m.txt"], "vol": [], "optional": True}
                        plans[min(lp + 1, lc)]["units"].append(mid)
                        feed = mid["out"][0]
                    plans[lc]["units"].append({"k": "step", "id": 102, "inp": [feed], "out": ["u.txt"], "vol": [],
                                               "optional": False})
                    for lvl, p in enumerate(plans):
                        p["units"].append({"k": "step", "id": 200 + lvl, "inp": ["src.txt"], "out": [f"by{lvl}.txt"],
                                           "vol": [], "optional": False})
                    project = Project(sources={"src.txt": "source\n"}, program=render(plans[0]), env={})
                    dropped = plans[ld]
                    plans[ld - 1]["units"] = [u for u in plans[ld - 1]["units"]
                                              if not (u["k"] == "sub" and u["plan"] is dropped)]
                    history = [{"edits": [{"op": "program", "program": render(plans[0], [dropped] if keep_file else [])}]}]
                    if k % 3 == 0:
                        history.append({"edits": []})
                    info = {"family": "nested-drop", "depth": depth, "producer_level": lp, "consumer_level": lc,
                            "dropped_level": ld, "optional": optional, "volatile": volatile, "dir": d,
                            "two_optional": two, "script_kept": keep_file}
                    yield project, history, info


def undeclare_cases(shift: int = 0, max_depth: int = 2, full: bool = False):
    """Build 1: a source file F is declared static() in plan ls and read by a step in plan lc.
    Build 2: the static() line is gone; the consumer is kept / replaced by a new step / redefined
    with one more input (F becomes UNDECLARED, the build cannot complete).  Build 3: the consumer is
    dropped / stops using F / its whole sub-plan is dropped; nothing declares or uses F any more.
    `full`: all three second builds per shape instead of one (rotating).
    Yields (project, history, info)."""
    k = shift
    for depth in range(0, max_depth + 1):
        for ls in range(0, depth + 1):
            for lc in range(0, depth + 1):
                for second in (("same", "new-step", "redefined") if full else (None,)):
                    k += 1
                    if second is None:
                        second = ("same", "new-step", "redefined")[k % 3]
                    third = ["drop-consumer", "stop-using", "drop-subplan"][(k // 3) % 3]
                    if third == "drop-subplan" and lc == 0:
                        third = "drop-consumer"
                    where = ["inp.txt", "src/inp.txt"][k % 2]
                    plans = _chain(depth)
                    plans[0]["units"].insert(0, {"k": "static", "files": ["src.txt"]})
                    decl = {"k": "static", "files": [where]}
                    plans[ls]["units"].insert(0, decl)
                    cons = {"k": "step", "id": 100, "inp": [where], "out": ["y.txt"], "vol": [], "optional": False}
                    plans[lc]["units"].append(cons)
                    for lvl, p in enumerate(plans):
                        p["units"].append({"k": "step", "id": 200 + lvl, "inp": ["src.txt"], "out": [f"by{lvl}.txt"],
                                           "vol": [], "optional": False})
                    project = Project(sources={"src.txt": "source\n", where: "user data\n"},
                                      program=render(plans[0]), env={})
                    # build 2
                    decl["files"] = []
                    if second == "new-step":
                        cons["id"] = 101
                    elif second == "redefined":
                        cons["inp"] = sorted([where, "src.txt"])
                    h2 = [{"op": "program", "program": copy.deepcopy(render(plans[0]))}]
                    # build 3
                    if third == "drop-consumer":
                        plans[lc]["units"].remove(cons)
                    elif third == "stop-using":
                        cons["inp"] = [x for x in cons["inp"] if x != where] or ["src.txt"]
                    else:
                        plans[lc - 1]["units"] = [u for u in plans[lc - 1]["units"]
                                                  if not (u["k"] == "sub" and u["plan"] is plans[lc])]
                    h3 = [{"op": "program", "program": copy.deepcopy(render(plans[0]))}]
                    info = {"family": "static-undeclared", "depth": depth, "declared_level": ls, "consumer_level": lc,
                            "second_build": second, "third_build": third, "file": where}
                    yield project, [{"edits": h2}, {"edits": h3}], info
