"""C02, E3 level: WHICH interleavings did a build go through?

`profile(result, program)` classifies one `e3.BuildResult` by the orderings that matter for schedule
independence (design.d/C02.md, "interleavings reached"); `harness/p_c02.py` sums the classes over
all builds of a run and prints the distribution in the evidence (`e3:interleaving:*`).  Everything is
read off the harness' logical clock (`commands[*].start/stop`, `rpc` stamps) and the order of the
committing transactions (`commit_points`), so the classification is deterministic for a seed.

Classes
  amend:<when>                       a consumer's amend(inp=[f]) relative to the command that WRITES f in
                                     this build: before-producer-start / while-producer-runs /
                                     after-producer-stop / producer-did-not-run
  planners:<shared|disjoint>:<how>   two commands that declare things (plan.py, sub-plans, nested
                                     scripts, workers that amend): serial / overlap-blocks (intervals
                                     overlap, the RPC blocks do not) / rpcs-interleaved; `shared` = they
                                     mention a common path or label
  creator:<started>:<stopped>        a command whose CREATOR's command also runs (once) in this build: the
                                     product started before-creator-start / while-creator-runs /
                                     after-creator-stop and stopped ... (the same three)
  creator-reruns:<started>:<stopped> the creator's command runs TWICE in this build (deferred, dispatched
                                     again: reset_for_rerun detaches the product until it is defined
                                     again); relative to the second execution; plus
                                     request-while-detached / completion-while-detached when a request /
                                     the completion of the product falls between the creator's restart
                                     and its first define_step
  input:<what>                       a consumer against the re-executed creators of the producer of an
                                     amended input (the input node is detached from a creator's restart
                                     until that creator defined the next element of the chain again):
                                     amend-while-input-detached, completion-while-input-detached
  hash:<prev>|<next>                 a committing hash job (Executor._run_hash_job) between which two
                                     kinds of committing transactions: decl (a DirectorHandler request),
                                     hash, dispatch (Scheduler.pop_next_job), completion
                                     (Executor.execute_job), other
"""
from __future__ import annotations

import collections

DECL_RPCS = ("declare_static", "define_step", "amend", "amend_step", "static", "step", "plan")


def _script(program, label):
    scripts = program.get("scripts", {})
    name = label[2:] if label.startswith("./") else label
    acts = scripts.get(name)
    return acts if isinstance(acts, list) else None


def _mentions(acts) -> set:
    out = set()
    for a in acts or []:
        if not isinstance(a, dict):
            continue
        op = a.get("op")
        if op == "static":
            out |= set(a.get("paths", []))
        elif op in ("run", "plan"):
            out |= set(a.get("inp", [])) | set(a.get("out", [])) | set(a.get("vol", []))
            out.add("step:" + str(a.get("label")))
        elif op == "amend":
            out |= set(a.get("inp", [])) | set(a.get("out", [])) | set(a.get("vol", []))
    return out


def _creator_of(program, label):
    """Label of the command whose script defines `label` (first definer in script-name order)."""
    for name in sorted(program.get("scripts", {})):
        for a in program["scripts"][name] or []:
            if isinstance(a, dict) and a.get("op") in ("run", "plan") and a.get("label") == label:
                return "./" + name
    return None


def _declared_inputs(program, label):
    """The `inp` list of the run/plan action that defines `label`."""
    for name in sorted(program.get("scripts", {})):
        for a in program["scripts"][name] or []:
            if isinstance(a, dict) and a.get("op") in ("run", "plan") and a.get("label") == label:
                return list(a.get("inp", []))
    return []


def _producer_of(program, path):
    """Label of the step that declares `path` as an output (first in script-name order)."""
    for name in sorted(program.get("scripts", {})):
        for a in program["scripts"][name] or []:
            if isinstance(a, dict) and a.get("op") in ("run", "plan") and path in a.get("out", []):
                return a.get("label")
    return None


def _rel(t, c):
    if t is None:
        return "never"
    if t < c["start"]:
        return "before-creator-start"
    if c["stop"] is None or t <= c["stop"]:
        return "while-creator-runs"
    return "after-creator-stop"


def _site_kind(site: str) -> str:
    if site.startswith("DirectorHandler."):
        return "decl" if site.split(".", 1)[1] in ("declare_static", "define_step", "amend", "amend_step",
                                                   "declare_missing", "nglob", "static") else "other"
    if site == "Executor._run_hash_job":
        return "hash"
    if site == "Scheduler.pop_next_job":
        return "dispatch"
    if site == "Executor.execute_job":
        return "completion"
    return "other"


def profile(r, program: dict) -> dict:
    prof = collections.Counter()
    cmds = [c for c in r.commands if c.get("start") is not None]
    # ---- a consumer's amend against the command that writes the amended input
    for c in cmds:
        acts = _script(program, c["label"]) or []
        am_inp = [p for a in acts if isinstance(a, dict) and a.get("op") == "amend" for p in a.get("inp", [])]
        stamps = [s for n, _ok, s in c["rpc"] if n in ("amend", "amend_step")]
        if not stamps or not am_inp:
            continue
        t = stamps[0]
        for p in am_inp:
            prods = [w for w in cmds if w is not c and any(x[0] == p for x in w["writes"])]
            if not prods:
                prof["amend:producer-did-not-run"] += 1
                continue
            before = [w for w in prods if w["start"] < t]
            w = before[-1] if before else prods[0]
            if w["start"] > t:
                prof["amend:before-producer-start"] += 1
            elif w["stop"] is None or w["stop"] > t:
                prof["amend:while-producer-runs"] += 1
            else:
                prof["amend:after-producer-stop"] += 1
    # ---- two declaring commands
    decl = [c for c in cmds if any(n in DECL_RPCS for n, _ok, _s in c["rpc"])]
    for i, a in enumerate(decl):
        for b in decl[i + 1:]:
            if a["label"] == b["label"]:
                continue
            sa = [s for n, _ok, s in a["rpc"] if n in DECL_RPCS]
            sb = [s for n, _ok, s in b["rpc"] if n in DECL_RPCS]
            shared = bool(_mentions(_script(program, a["label"])) & _mentions(_script(program, b["label"])))
            a_stop = a["stop"] if a["stop"] is not None else 10 ** 9
            b_stop = b["stop"] if b["stop"] is not None else 10 ** 9
            if a_stop < b["start"] or b_stop < a["start"]:
                how = "serial"
            elif max(sa) < min(sb) or max(sb) < min(sa):
                how = "overlap-blocks"
            else:
                how = "rpcs-interleaved"
            prof[f"planners:{'shared' if shared else 'disjoint'}:{how}"] += 1
    # ---- a product against the command of its creator (re-executed creators in second builds)
    by_label = collections.defaultdict(list)
    for c in cmds:
        by_label[c["label"]].append(c)
    for c in cmds:
        cr = _creator_of(program, c["label"])
        if cr is None or cr not in by_label:
            continue
        ks = sorted(by_label[cr], key=lambda k: k["start"])
        if len(ks) == 1:
            prof[f"creator:started-{_rel(c['start'], ks[0])}:stopped-{_rel(c['stop'], ks[0])}"] += 1
            continue
        # the creator is executed again within this build (deferred, then dispatched again): its
        # reset_for_rerun detaches the product until the creator has defined it again
        k2 = ks[1]
        prof[f"creator-reruns:started-{_rel(c['start'], k2)}:stopped-{_rel(c['stop'], k2)}"] += 1
        # the creator's script issues its define_step requests in script order: the j-th one defines the
        # j-th step of the script (the RPC log has no arguments)
        redefs = [s for n, _ok, s in k2["rpc"] if n == "define_step"]
        defined = [a.get("label") for a in (_script(program, cr) or [])
                   if isinstance(a, dict) and a.get("op") in ("run", "plan")]
        j = defined.index(c["label"]) if c["label"] in defined else 0
        until = redefs[j] if j < len(redefs) else (k2["stop"] if k2["stop"] is not None else 10 ** 9)
        if any(n in DECL_RPCS and k2["start"] < s < until for n, _ok, s in c["rpc"]):
            prof["creator-reruns:request-while-detached"] += 1
            prof["detached-request:" + c["label"]] += 1        # per label: establishes the cause of a finding
        if c["stop"] is not None and k2["start"] < c["stop"] < until:
            prof["creator-reruns:completion-while-detached"] += 1
            prof["detached-completion:" + c["label"]] += 1
    # ---- a consumer against the re-executed CREATORS of the producer of one of its inputs: while a creator
    # on the chain  producer <- script <- script ...  is executed again, the input node is detached from
    # the creator's reset_for_rerun until the creator has defined the next element of the chain again
    for c in cmds:
        acts = _script(program, c["label"]) or []
        inputs = {p for a in acts if isinstance(a, dict) and a.get("op") == "amend" for p in a.get("inp", [])}
        # ... and the inputs it was defined with (D46 is about ANY input that is detached at completion)
        inputs |= set(_declared_inputs(program, c["label"]))
        if not inputs:
            continue
        am = [s for n, _ok, s in c["rpc"] if n in ("amend", "amend_step")]
        windows = []
        for p in sorted(inputs):
            child = _producer_of(program, p)
            seen = set()
            while child is not None and child not in seen:
                seen.add(child)
                cr = _creator_of(program, child)
                if cr is None:
                    break
                defined = [a.get("label") for a in (_script(program, cr) or [])
                           if isinstance(a, dict) and a.get("op") in ("run", "plan")]
                j = defined.index(child) if child in defined else 0
                for k in by_label.get(cr, []):
                    redefs = [s for n, _ok, s in k["rpc"] if n == "define_step"]
                    until = redefs[j] if j < len(redefs) else (k["stop"] if k["stop"] is not None else 10 ** 9)
                    windows.append((k["start"], until))
                child = cr
        if any(a < s < b for s in am for a, b in windows):
            prof["input:amend-while-input-detached"] += 1
        if c["stop"] is not None and c.get("rc") == 0 and any(a < c["stop"] < b for a, b in windows):
            # a SUCCESSFUL completion while an amended input is detached: Step.inp_paths() leaves detached
            # sources out, so the stored step hash is computed without that input
            prof["input:completion-while-input-detached"] += 1
            prof["detached-input-completion:" + c["label"]] += 1
    # ---- committing hash jobs among the other committing transactions
    sites = [_site_kind(s) for s, wrote in r.commit_points if wrote]
    for i, s in enumerate(sites):
        if s != "hash":
            continue
        prev = sites[i - 1] if i > 0 else "none"
        nxt = sites[i + 1] if i + 1 < len(sites) else "none"
        prof[f"hash:{prev}|{nxt}"] += 1
    return dict(prof)


def merge(profiles) -> dict:
    out = collections.Counter()
    for p in profiles:
        out.update(p or {})
    return dict(out)
