"""C09: evaluation of large trace literals inside Coq, robust under memory / CPU pressure.

Why this exists (diagnosed 2026-09-26): `./check C09` failed once with
`correspondence-crash: RuntimeError: coqc cases/C09_<pid>_e2_0.v failed:` and EMPTY coqc output.
`dmesg` shows the cause: a *global* OOM kill (`oom-kill:constraint=CONSTRAINT_NONE ... task=coqc ...
anon-rss:802888kB`) while ~770 python3 + ~230 sandbox + 28 coqc processes were alive.  The kernel
picks the process with the largest resident set; the six-traces-per-file literals of the E2
correspondence made C09's coqc the largest coqc on the box (measured 888 MB resident, of which
250 MB are the loaded model and ~640 MB the parsed literal: every path is a `[102;48]%N` numeral
list and every transaction repeats the complete dump).  `timeout` then exits 137 (128+SIGKILL)
and coqc prints nothing; common._run_cases_once only looks at `returncode != 0`.

What this module does about it:
* compact literals: every string and every section of a dump (node list, file list, ...) becomes a
  named constant of the cases file, defined once per file; consecutive dumps share almost all of
  their sections (measured: 888 MB -> ~330 MB, 17 s -> ~3 s per six traces);
* bounded parallelism (`jobs`, default 4 coqc at a time) instead of 8 per run_cases call;
* the exit status is recorded; a chunk whose coqc died from a SIGNAL (timeout's 124/137, or a
  negative return code / 128+n) with no `@@RESULT` line is re-run alone, sequentially, at most twice.
  A chunk that RAN to completion is never re-run: a `false` case is reported by exit status 0 and a
  non-empty `@@RESULT [..]` list, a Coq error by exit status 1 with an error message; neither is a
  signal exit, so the retry cannot hide a disagreement;
* the "a concurrent check rebuilt a shared .vo" retry of common.run_cases is kept.
"""
from __future__ import annotations

import os
import re
import subprocess
import time
from concurrent.futures import ThreadPoolExecutor
from pathlib import Path

from . import common, e2

COQ = common.COQ
FALSES = ("Fixpoint falses (i : nat) (l : list bool) : list nat := match l with nil => nil"
          " | cons b r => if b then falses (S i) r else cons i (falses (S i) r) end.")
STALE_VO = ("inconsistent assumptions", "not found in loadpath", "Cannot find a physical path", "bad version")
MAX_SIGNAL_RETRIES = 2


class Interner:
    """Names for repeated closed sub-terms of one cases file."""

    def __init__(self, prefix="c9k"):
        self.table: dict = {}
        self.defs: list[str] = []
        self.prefix = prefix

    def name(self, text: str, ty: str) -> str:
        k = (ty, text)
        n = self.table.get(k)
        if n is None:
            n = f"{self.prefix}{len(self.table)}"
            self.table[k] = n
            self.defs.append(f"Definition {n} : {ty} := {text}.")
        return n

    _STR = re.compile(r"\[[\d;]*\]%N")

    def strs(self, text: str) -> str:
        """Replace every `[..]%N` string literal by its constant."""
        return self._STR.sub(lambda m: self.name(m.group(0), "str"), text)


SECTIONS = (("nodes", "list dnode"), ("files", "list dfile"), ("steps", "list dstep"),
            ("deps", "list ddep"), ("shash", "list str"), ("envs", "list denv"))
_EMPTY = {s: [] for s, _ in SECTIONS}


def _section_text(d, sec):
    """The Gallina list of one section, printed by e2.cq_dump itself (single source of truth)."""
    one = dict(_EMPTY)
    one[sec] = d[sec]
    t = e2.cq_dump(one)
    assert t.startswith("(mkDump ") and t.endswith(")"), t[:40]
    body = t[len("(mkDump "):-1]
    idx = [s for s, _ in SECTIONS].index(sec)
    # the other five sections are printed as `[]`
    pre, post = "[] " * idx, " []" * (len(SECTIONS) - 1 - idx)
    assert body.startswith(pre) and body.endswith(post), (sec, body[:60])
    return body[len(pre):len(body) - len(post)]


def cq_dump_c(d, it: Interner) -> str:
    parts = []
    for sec, ty in SECTIONS:
        txt = _section_text(d, sec)
        parts.append("[]" if txt == "[]" else it.name(it.strs(txt), ty))
    return "(mkDump " + " ".join(parts) + ")"


def cq_op_c(op, it: Interner) -> str:
    return it.strs(e2.cq_op(op))


def cq_ops_c(trace, it: Interner) -> str:
    """The operation list of a trace as ONE named constant (shared by all checks about the trace)."""
    ops = common.coq_list([cq_op_c(t[0], it) for t in trace if t[0][0] != "dispatch_error"])
    return it.name(ops, "list op_t")


def cq_items_c(trace, it: Interner) -> str:
    items = [f"({cq_op_c(op, it)}, {e2.OUTC[oc]}, {cq_dump_c(d, it)})"
             for op, oc, _, d in trace if op[0] != "dispatch_error"]
    return common.coq_list(items)


def cq_trace_c(trace, defer_cap, it: Interner) -> str:
    return f"check_trace_t {defer_cap} " + cq_items_c(trace, it)


# alphabet op_c of model/GraphCheck.v: OpT op_t | OpCheckConsistency
def cq_op_cc(op, it: Interner) -> str:
    if op[0] == "check_consistency":
        return "OpCheckConsistency"
    return f"OpT ({cq_op_c(op, it)})"


def cq_ops_cc(trace, it: Interner) -> str:
    ops = common.coq_list([cq_op_cc(t[0], it) for t in trace if t[0][0] != "dispatch_error"])
    return it.name(ops, "list op_c")


def cq_items_cc(trace, it: Interner) -> str:
    return common.coq_list([f"({cq_op_cc(op, it)}, {e2.OUTC[oc]}, {cq_dump_c(d, it)})"
                            for op, oc, _, d in trace if op[0] != "dispatch_error"])


# alphabet op_x of model/GraphExt.v: OpC op_c + the transactions outside the 15-operation alphabet
def cq_op_x(op, it: Interner) -> str:
    n = op[0]
    if n == "skip_overtaken":
        return it.strs(f"OpSkipOvertaken {common.coq_str(op[1])}")
    if n == "invalidate_steps":
        return it.strs(f"OpInvalidateSteps {e2.cq_strs(op[1])}")
    if n == "mark_steps_pending":
        return it.strs(f"OpMarkStepsPending {e2.cq_strs(op[1])}")
    if n == "revert_optional":
        return it.strs(f"OpRevertOptional {e2.cq_strs(op[1])}")
    if n == "reset_interrupted_raw":
        return "OpResetInterruptedRaw"
    if n == "init_boot":
        return "OpInitBoot " + ("None" if op[1] is None else f"(Some {op[1]})")
    if n == "frame":
        return "OpFrame"
    return f"OpC ({cq_op_cc(op, it)})"


def cq_ops_x(trace, it: Interner) -> str:
    ops = common.coq_list([cq_op_x(t[0], it) for t in trace if t[0][0] != "dispatch_error"])
    return it.name(ops, "list op_x")


def cq_items_x(trace, it: Interner) -> str:
    return common.coq_list([f"({cq_op_x(op, it)}, {e2.OUTC[oc]}, {cq_dump_c(d, it)})"
                            for op, oc, _, d in trace if op[0] != "dispatch_error"])


def cq_trace_x(trace, defer_cap, it: Interner) -> str:
    return f"check_trace_x {defer_cap} " + cq_items_x(trace, it)


def _signal_exit(rc: int) -> bool:
    """coqc (or the `timeout` wrapper) was terminated from outside: timeout's own 124 (TERM sent
    after the limit), 137 (SIGKILL: the OOM killer, or timeout -k), 143 (SIGTERM), or Popen's negative
    signal number.  NOT 139 (SIGSEGV = stack overflow, deterministic) and not Coq's own 1 / 129."""
    return rc < 0 or rc in (124, 128 + 9, 128 + 15)


def _cleanup(rel):
    for ext in (".v", ".vo", ".glob", ".vok", ".vos"):
        q = COQ / (rel[:-2] + ext)
        if q.exists():
            q.unlink()
    aux = COQ / "cases" / ("." + Path(rel).name[:-2] + ".aux")
    if aux.exists():
        aux.unlink()


def _coqc(rel, timeout):
    p = subprocess.run(["timeout", "-k", "10", str(timeout), "coqc", "-Q", ".", "SV", rel],
                       cwd=COQ, stdout=subprocess.PIPE, stderr=subprocess.STDOUT, text=True)
    return p.returncode, p.stdout


def run_cases(ctx, name, header, builders, chunk=6, jobs=4, timeout=900):
    """`builders`: list of functions `f(interner) -> Gallina bool term`.  Returns the sorted indices
    of the cases that evaluated to false.  See the module docstring for the retry rules."""
    (COQ / "cases").mkdir(exist_ok=True)
    files = []
    for ci in range(0, len(builders), chunk):
        it = Interner()
        terms = [f(it) for f in builders[ci:ci + chunk]]
        rel = f"cases/{ctx.pid}_{os.getpid()}_{name}_{ci // chunk}.v"
        body = [header, *it.defs, "Definition checks : list bool := [",
                ";\n".join(f"  ({c})" for c in terms), "].", FALSES,
                "Definition result := Eval vm_compute in falses 0 checks.",
                'Goal True. let r := eval cbv delta [result] in result in idtac "@@RESULT" r. exact I. Qed.']
        (COQ / rel).write_text("\n".join(body) + "\n")
        files.append((ci, rel))
    results: dict = {}
    with ThreadPoolExecutor(max_workers=max(1, jobs)) as ex:
        for (ci, rel), r in zip(files, ex.map(lambda f: _coqc(f[1], timeout), files)):
            results[ci] = r
    bad = []
    stale_rebuilds = 0
    for ci, rel in files:
        rc, out = results[ci]
        tries = 0
        while True:
            m = re.search(r"@@RESULT\s*(.*)", out, re.S)
            if rc == 0 and m:
                break
            if _signal_exit(rc) and not m and tries < MAX_SIGNAL_RETRIES:
                # killed from outside (OOM killer, timeout under load): run it again, alone
                tries += 1
                ctx.count("coqc_signal_exit_retries")
                ctx.notes.append(f"coqc {rel} exited with status {rc} (killed by a signal) and no result; "
                                 f"sequential retry {tries}")
                time.sleep(2 * tries)
                rc, out = _coqc(rel, timeout * 2)
                continue
            if rc != 0 and any(s in out for s in STALE_VO) and stale_rebuilds < 2:
                stale_rebuilds += 1
                with common.CoqLock():
                    common.coq_make(list(getattr(ctx, "model_targets", []) or []))
                rc, out = _coqc(rel, timeout)
                continue
            if rc != 0:
                raise RuntimeError(f"coqc {rel} failed with exit status {rc}"
                                   f"{' (killed by a signal)' if _signal_exit(rc) else ''}: {common.tail(out, 1500)}")
            raise RuntimeError(f"no result from {rel}: {common.tail(out, 800)}")
        nums = [int(x) for x in re.findall(r"\d+", m.group(1).split("@@")[0])]
        bad += [ci + n for n in nums]
        _cleanup(rel)
    return sorted(bad)
