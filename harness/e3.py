"""E3: system-level engine. The real ``serve()`` of stepup.core.director (hence the real Builder,
Scheduler, Executor, Workflow, Watcher, hash threads and SQLite file) runs inside this process, in a
temporary project directory, with ``stepup.core.executor.launch_command`` replaced by an
interpreter of *simulated steps*.  See ``design.d/E3.md`` for the API and the DSL.

Nothing in /repo is edited; four attributes are patched at run time (restorable with
``uninstall()``): ``executor.launch_command``, ``director._wire_director`` (wrapped to capture the
handler), ``DBSession.__aexit__`` (wrapped to count / crash at committing transactions) and
``Watcher.record_change`` (wrapped to swallow the barrier files of ``WatchSession.sync``).

Only ONE build may run per process at a time (``serve()`` uses the process cwd and os.environ).
For parallelism use ``pool_map`` (worker processes).
"""
from __future__ import annotations

import asyncio
import contextlib
import copy
import dataclasses
import hashlib
import json
import logging
import os
import random
import select
import shlex
import shutil
import stat
import sys
import tempfile
import time
import traceback
from typing import Any, Callable

from path import Path

import stepup.core.director as _director
import stepup.core.executor as _executor
import stepup.core.watcher as _watcher
from stepup.core.constants import GRAPH_DB
from stepup.core.director import ServeConfig, serve
from stepup.core.enums import Need
from stepup.core.nglob import NamedGlob, has_any_wildcards, has_trailing_recursive_wildcard
from stepup.core.outcome import ChildOutcome
from stepup.core.reporter import ReporterClient
from stepup.core.rpc import BaseAsyncRPCClient, RPCCall, _call_procedure
from stepup.core.sqlite3 import DBSession

__all__ = (
    "BuildResult", "E3Error", "E3Timeout", "Project", "WatchSession", "apply_edit", "build",
    "build_forked", "build_subprocess", "canon_graph", "content_digest", "diff_results", "from_scratch", "install", "parse_graph",
    "pool_map", "run_history", "scratch_of_history", "uninstall",
)

SHEBANG = "#!/usr/bin/env python3"
SCRIPT_MARK = "# E3-SIMULATED-SCRIPT"
DEFAULT_TIMEOUT = 60.0
CRASH_EXIT = 137
BARRIER_PREFIX = ".e3-barrier-"


class E3Error(Exception):
    """The harness itself went wrong (never a verdict about the code under test)."""


class E3Timeout(E3Error):
    """A build did not finish within its timeout. ``args[1]`` holds diagnostics."""


# ---------------------------------------------------------------------------------------------
# File-system helpers
# ---------------------------------------------------------------------------------------------

_LAST_NS = 0


def _bump_mtime(path: str) -> None:
    """Give ``path`` an mtime strictly larger than any mtime this process handed out before and
    than the mtime the file had before it was rewritten.

    ``FileHash.refreshed`` skips the digest when (mode, mtime, size, inode) are unchanged.  A
    simulated command takes microseconds, so without this a same-size rewrite inside one kernel
    timestamp tick would go unnoticed, which a real (slow) step never triggers.
    """
    global _LAST_NS
    t = max(time.time_ns(), _LAST_NS + 1_000_000)
    _LAST_NS = t
    os.utime(path, ns=(t, t))


def write_file(path: str, content: str, *, executable: bool | None = None, old_mtime_ns: int = 0):
    """Write a text file (parent must exist) and give it a fresh, strictly increasing mtime."""
    global _LAST_NS
    try:
        old_mtime_ns = max(old_mtime_ns, os.stat(path).st_mtime_ns)
    except OSError:
        pass
    with open(path, "w", encoding="utf-8", newline="") as fh:
        fh.write(content)
    if executable is not None:
        os.chmod(path, 0o755 if executable else 0o644)
    _LAST_NS = max(_LAST_NS, old_mtime_ns)
    _bump_mtime(path)


def _digest(content: str | None) -> str | None:
    return None if content is None else hashlib.sha256(content.encode("utf-8")).hexdigest()[:16]


content_digest = _digest
"""Digest used in read/write logs: first 16 hex digits of sha256 of the text (None: missing)."""


def _read_text(path: str) -> str | None:
    try:
        with open(path, encoding="utf-8", errors="surrogateescape", newline="") as fh:
            return fh.read()
    except (FileNotFoundError, NotADirectoryError, IsADirectoryError):
        return None


def snapshot_tree(root: str = ".") -> tuple[dict, dict, list]:
    """Return (files: path -> content, meta: path -> [mtime_ns, inode, mode], dirs) below root,
    skipping ``.stepup/`` and harness barrier files."""
    files, meta, dirs = {}, {}, []
    root = str(root)
    for dirpath, dirnames, filenames in os.walk(root):
        rel = os.path.relpath(dirpath, root)
        if rel == ".":
            dirnames[:] = [d for d in dirnames if d != ".stepup"]
            rel = ""
        else:
            dirs.append(rel + "/")
        dirnames.sort()
        for fn in sorted(filenames):
            if fn.startswith(BARRIER_PREFIX):
                continue
            p = os.path.join(rel, fn) if rel else fn
            full = os.path.join(dirpath, fn)
            try:
                st = os.lstat(full)
            except OSError:
                continue
            if stat.S_ISLNK(st.st_mode):
                files[p] = "SYMLINK->" + os.readlink(full)
            else:
                files[p] = _read_text(full)
            meta[p] = [st.st_mtime_ns, st.st_ino, stat.S_IMODE(st.st_mode)]
    return files, meta, sorted(dirs)


# ---------------------------------------------------------------------------------------------
# Project description (plain JSON-able data) and edits
# ---------------------------------------------------------------------------------------------


def script_text(actions: list) -> str:
    """The on-disk form of a simulated script: shebang, marker, JSON action list."""
    return f"{SHEBANG}\n{SCRIPT_MARK}\n" + json.dumps(actions, sort_keys=True, indent=1) + "\n"


def parse_script(text: str) -> list | None:
    lines = text.split("\n", 2)
    if len(lines) < 3 or lines[1].strip() != SCRIPT_MARK:
        return None
    try:
        actions = json.loads(lines[2])
    except ValueError:
        return None
    return actions if isinstance(actions, list) else None


def empty_program() -> dict:
    return {"scripts": {"plan.py": []}, "commands": {}}


@dataclasses.dataclass
class Project:
    """A project as data.

    sources   path -> content (str); a key ending in "/" is an (empty) directory.
    program   {"scripts": {path: [action, ...]}, "commands": {label: [action, ...]}}
              ``scripts`` are materialised as executable files whose content encodes the action
              list (so that editing a plan changes the hash of its file, as in reality);
              ``commands`` give the behaviour of non-script step labels (default: ``auto``).
    env       name -> value or None (unset) applied to os.environ during every build.
    """

    sources: dict = dataclasses.field(default_factory=dict)
    program: dict = dataclasses.field(default_factory=empty_program)
    env: dict = dataclasses.field(default_factory=dict)

    def to_json(self) -> dict:
        return {"sources": self.sources, "program": self.program, "env": self.env}

    @classmethod
    def from_json(cls, obj: dict) -> "Project":
        return cls(copy.deepcopy(obj["sources"]), copy.deepcopy(obj["program"]),
                   copy.deepcopy(obj.get("env", {})))

    def clone(self) -> "Project":
        return Project.from_json(self.to_json())

    def files(self) -> dict:
        """All files the description owns: sources plus materialised scripts."""
        out = {p: c for p, c in self.sources.items() if not p.endswith("/")}
        for p, actions in self.program.get("scripts", {}).items():
            out[p] = script_text(actions)
        return out

    def materialise(self, root: str) -> None:
        """Write every source and script below ``root`` (which must exist)."""
        for p in sorted(self.sources):
            if p.endswith("/"):
                os.makedirs(os.path.join(root, p), exist_ok=True)
        scripts = self.program.get("scripts", {})
        for p, content in sorted(self.files().items()):
            full = os.path.join(root, p)
            os.makedirs(os.path.dirname(full) or ".", exist_ok=True)
            write_file(full, content, executable=p in scripts)


def apply_edit(project: Project, root: str | None, edit: dict) -> None:
    """Apply one edit to the description and (when ``root`` is given) to the file system.

    Edits: write{path,content} delete{path} mkdir{path} move{src,dst} touch{path}
    script{path,actions|None} command{label,actions|None} setenv{name,value|None}
    program{program}.  File-system effects are real operations (usable while a WatchSession
    is watching).  A script edit rewrites the file only when its text changes.
    """
    op = edit["op"]

    def full(p):
        return os.path.join(root, p)

    if op == "write":
        p = edit["path"]
        project.sources[p] = edit["content"]
        if root is not None:
            os.makedirs(os.path.dirname(full(p)) or ".", exist_ok=True)
            write_file(full(p), edit["content"], executable=edit.get("executable"))
    elif op == "touch":
        if root is not None and os.path.exists(full(edit["path"])):
            _bump_mtime(full(edit["path"]))
    elif op == "delete":
        p = edit["path"]
        pre = p.rstrip("/") + "/"
        for key in [k for k in project.sources if k == p or k.startswith(pre)]:
            del project.sources[key]
        scripts = project.program.get("scripts", {})
        for key in [k for k in scripts if k == p or k.startswith(pre)]:
            del scripts[key]
        # The directory that held the path stays behind on a real file system.
        parent = os.path.dirname(p.rstrip("/"))
        if parent and not any(k.startswith(parent + "/") for k in [*project.sources, *scripts]):
            project.sources[parent + "/"] = ""
        if root is not None:
            fp = full(p.rstrip("/"))
            if os.path.isdir(fp) and not os.path.islink(fp):
                shutil.rmtree(fp)
            elif os.path.lexists(fp):
                os.remove(fp)
    elif op == "mkdir":
        p = edit["path"].rstrip("/") + "/"
        project.sources[p] = ""
        if root is not None:
            os.makedirs(full(p), exist_ok=True)
    elif op == "move":
        src, dst = edit["src"].rstrip("/"), edit["dst"].rstrip("/")
        scripts = project.program.get("scripts", {})
        for table in (project.sources, scripts):
            for key in list(table):
                if key == src or key.startswith(src + "/") or key == src + "/":
                    table[dst + key[len(src):]] = table.pop(key)
        if root is not None:
            os.makedirs(os.path.dirname(full(dst)) or ".", exist_ok=True)
            os.rename(full(src), full(dst))
    elif op == "script":
        p = edit["path"]
        scripts = project.program.setdefault("scripts", {})
        if edit.get("actions") is None:
            scripts.pop(p, None)
            if root is not None and os.path.lexists(full(p)):
                os.remove(full(p))
        else:
            scripts[p] = edit["actions"]
            if root is not None:
                text = script_text(edit["actions"])
                if _read_text(full(p)) != text:
                    os.makedirs(os.path.dirname(full(p)) or ".", exist_ok=True)
                    write_file(full(p), text, executable=True)
    elif op == "command":
        commands = project.program.setdefault("commands", {})
        if edit.get("actions") is None:
            commands.pop(edit["label"], None)
        else:
            commands[edit["label"]] = edit["actions"]
    elif op == "setenv":
        project.env[edit["name"]] = edit.get("value")
    elif op == "program":
        new = copy.deepcopy(edit["program"])
        old_scripts = project.program.get("scripts", {})
        for p in sorted(set(old_scripts) - set(new.get("scripts", {}))):
            apply_edit(project, root, {"op": "script", "path": p, "actions": None})
        for p, actions in sorted(new.get("scripts", {}).items()):
            apply_edit(project, root, {"op": "script", "path": p, "actions": actions})
        project.program["commands"] = new.get("commands", {})
    else:
        raise E3Error(f"unknown edit op {op!r}")


# ---------------------------------------------------------------------------------------------
# Build result
# ---------------------------------------------------------------------------------------------


@dataclasses.dataclass
class BuildResult:
    """Everything observable about one build phase.  All fields are JSON-able."""

    returncode: int = -1
    """Value of ``ServeResult.returncode`` (ReturnCode bits); -1 when serve() raised."""
    error: str | None = None
    """``"ExcClass: message"`` when ``serve()`` raised, else None."""
    events: list = dataclasses.field(default_factory=list)
    """Reporter events ``[tag, description, pages]`` in emission order."""
    commands: list = dataclasses.field(default_factory=list)
    """One record per executed (simulated) command, in start order: ``{i, label, job_i, start,
    stop, rc, resources, reads:[[path, digest|None, stamp]], writes:[[path, digest, stamp]],
    rpc:[[name, ok, stamp]], env_reads:[[name, value]], stderr}``; ``start``/``stop`` and all
    stamps come from one logical clock that ticks at every harness-visible event."""
    rejected: list = dataclasses.field(default_factory=list)
    """Declarations the director refused: ``[label, rpc name, exception class, message]``."""
    graph: str = ""
    """Canonical graph text (``Workflow.format_str()`` sorted; digests kept)."""
    files: dict = dataclasses.field(default_factory=dict)
    """path -> content of every file below the project directory except ``.stepup/``."""
    file_meta: dict = dataclasses.field(default_factory=dict)
    """path -> [mtime_ns, inode, mode]; benign for most comparisons, needed by C04."""
    dirs: list = dataclasses.field(default_factory=list)
    log: list = dataclasses.field(default_factory=list)
    """WARNING+ log records of the ``stepup`` and ``asyncio`` loggers."""
    commit_points: list = dataclasses.field(default_factory=list)
    """One entry per committing transaction of the code under test: ``[site, wrote]``."""
    stage_points: list = dataclasses.field(default_factory=list)
    """One entry per file-system stage of simulated commands: ``"label:desc"``."""
    schedule_trace: list = dataclasses.field(default_factory=list)
    """Gate releases ``[released, [waiting...]]`` (replayable as ``schedule={"order": ...}``)."""
    max_running: int = 0
    """Largest number of simulated commands in flight at once."""
    leaked_tasks: list = dataclasses.field(default_factory=list)
    probe: Any = None
    wall: float = 0.0

    def to_json(self) -> dict:
        return dataclasses.asdict(self)

    @classmethod
    def from_json(cls, obj: dict) -> "BuildResult":
        return cls(**obj)

    # convenience views -----------------------------------------------------------------------
    def tags(self, *tags: str) -> list:
        """``[tag, description]`` of events with one of the given tags (all when none given)."""
        return [[e[0], e[1]] for e in self.events if not tags or e[0] in tags]

    def executed(self) -> list:
        """Labels of executed commands in start order."""
        return [c["label"] for c in self.commands]

    def graph_nodigest(self) -> str:
        return canon_graph(self.graph, digests=False)

    def nodes(self) -> dict:
        return parse_graph(self.graph)


# ---------------------------------------------------------------------------------------------
# Canonical graph text
# ---------------------------------------------------------------------------------------------


def canon_graph(text: str, *, digests: bool = True) -> str:
    """Canonicalise the output of ``Workflow.format_str()`` / ``stepup graph``.

    Blocks (one per node) are sorted by their header; inside a block the continuation lines of a
    multi-valued property get their label back and all lines are sorted; trailing blanks go.
    The text contains no node ids, timestamps, durations, mtimes or inodes to begin with.
    ``digests=False`` also drops the ``digest``/``inp_digest``/``out_digest`` lines, which is the
    normalisation ``stepup.core.pytest.run_example`` applies to ``expected_graph*.txt``.
    """
    blocks = []
    for raw in text.strip("\n").split("\n\n"):
        lines = [ln.rstrip() for ln in raw.split("\n") if ln.strip()]
        if not lines:
            continue
        header, body, last_label = lines[0], [], ""
        for ln in lines[1:]:
            if " = " in ln[:24] or ln[:23].rstrip().endswith("="):
                label, _, value = ln.partition(" = ")
                label = label.strip()
                if label == "":
                    label = last_label
                last_label = label
                if not digests and label.endswith("digest"):
                    continue
                body.append(f"{label:>20s} = {value}")
            else:
                body.append(ln)
        blocks.append((header, sorted(body)))
    blocks.sort()
    return "\n\n".join("\n".join([h, *b]) for h, b in blocks) + "\n"


def parse_graph(text: str) -> dict:
    """Canonical graph text -> ``{key: {"props": {name: [values]}, "rel": {role: [keys]}}}``.

    ``key`` is e.g. ``"step:./plan.py"``; a detached node has the key the graph prints for it
    (``"(step:foo)"``)."""
    nodes = {}
    for raw in text.strip("\n").split("\n\n"):
        lines = [ln for ln in raw.split("\n") if ln.strip()]
        if not lines:
            continue
        node = {"props": {}, "rel": {}}
        last_label = ""
        for ln in lines[1:]:
            if " = " in ln[:24]:
                label, _, value = ln.partition(" = ")
                label = label.strip() or last_label
                last_label = label
                node["props"].setdefault(label, []).append(value)
            else:
                role, _, key = ln.strip().partition("   ")
                node["rel"].setdefault(role.strip(), []).append(key.strip())
        nodes[lines[0].strip()] = node
    return nodes


# ---------------------------------------------------------------------------------------------
# Build context, patches
# ---------------------------------------------------------------------------------------------


class _RecReporter(BaseAsyncRPCClient):
    def __init__(self, ctx: "_Ctx"):
        self.ctx = ctx

    async def __call__(self, name, /, *args, **kwargs):
        if name == "report":
            tag, description = args[0], args[1]
            pages = args[2] if len(args) > 2 else kwargs.get("pages", [])
            self.ctx.tick()
            self.ctx.events.append([str(tag), str(description), [[str(x) for x in p] for p in (pages or [])]])
        return None


class _ParkEvent(asyncio.Event):
    """Drop-in for ``Builder.wake_job_loop`` that tells the gate controller when the job loop
    parks (nothing left that it can start on its own)."""

    def __init__(self, ctx: "_Ctx"):
        super().__init__()
        self.ctx = ctx
        self.parked = False

    async def wait(self):
        if not self.is_set():
            self.parked = True
            self.ctx.gates.check()
        try:
            return await super().wait()
        finally:
            self.parked = False


class _Gates:
    """Releases simulated commands waiting at gates, one per quiescent point.

    Quiescent = the builder's job loop is parked on its wake event, that event is not set, no
    finished task is waiting to be retired, and every task the builder tracks as running is a
    simulated command sitting at a gate.  Then (and only then) progress needs a release, and
    which gate is released is the schedule's decision.  No sleeps.
    """

    def __init__(self, ctx: "_Ctx", schedule: dict | None):
        self.ctx = ctx
        schedule = schedule or {}
        self.active = bool(schedule)
        self.points = set(schedule.get("points", ["end"]))
        self.order = list(schedule.get("order", []))
        self.policy = schedule.get("policy", "seed" if "seed" in schedule else "fifo")
        self.rng = random.Random(schedule.get("seed", 0))
        self.waiting: dict[str, asyncio.Future] = {}

    async def wait(self, name: str, *, implicit: str | None = None):
        if not self.active or (implicit is not None and implicit not in self.points):
            return
        key, n = name, 1
        while key in self.waiting:
            n += 1
            key = f"{name}#{n}"
        fut = asyncio.get_running_loop().create_future()
        self.waiting[key] = fut
        self.ctx.tick()
        self.check()
        try:
            await fut
        finally:
            self.waiting.pop(key, None)

    def quiescent(self) -> bool:
        handler = self.ctx.handler
        if handler is None or not self.waiting:
            return False
        builder = handler.builder
        wake = builder.wake_job_loop
        if not getattr(wake, "parked", False) or wake.is_set():
            return False
        if len(builder.done_tasks) > 0:
            return False
        npending = sum(1 for f in self.waiting.values() if not f.done())
        return npending > 0 and len(builder.running_tasks) == npending and self.ctx.rpc_inflight == 0

    def check(self):
        if not self.quiescent():
            return
        names = [k for k, f in self.waiting.items() if not f.done()]
        pick = None
        for want in self.order:
            if want in names:
                pick = want
                break
        if pick is None:
            if self.policy == "seed":
                pick = self.rng.choice(sorted(names))
            elif self.policy == "lifo":
                pick = names[-1]
            elif self.policy == "sorted":
                pick = sorted(names)[0]
            else:
                pick = names[0]
        if pick in self.order:
            self.order.remove(pick)
        self.ctx.schedule_trace.append([pick, sorted(names)])
        self.waiting[pick].set_result(None)

    def release_all(self):
        for fut in self.waiting.values():
            if not fut.done():
                fut.set_result(None)


class _Ctx:
    """State of the one build (or watch session) running in this process."""

    def __init__(self, program: dict, schedule: dict | None, crash: dict | None,
                 crash_fd: int | None):
        self.program = program or {}
        self.handler = None
        self.clock = 0
        self.events: list = []
        self.commands: list = []
        self.rejected: list = []
        self.harness_errors: list = []
        self.schedule_trace: list = []
        self.commit_points: list = []
        self.stage_points: list = []
        self.in_harness_txn = False
        self.last_changes = 0
        self.crash = crash
        self.crash_fd = crash_fd
        self.running = 0
        self.max_running = 0
        self.rpc_inflight = 0
        self.gates = _Gates(self, schedule)
        self.barrier_events: dict[str, asyncio.Event] = {}

    def tick(self) -> int:
        self.clock += 1
        return self.clock

    # crash emulation -------------------------------------------------------------------------
    def die(self, info: dict):
        if self.crash_fd is not None:
            with contextlib.suppress(OSError):
                os.write(self.crash_fd, (json.dumps({"crash": info}) + "\n").encode())
        os._exit(CRASH_EXIT)

    def stage_point(self, desc: str):
        self.stage_points.append(desc)
        crash = self.crash
        if crash and crash.get("kind") == "stage" and crash.get("k") == len(self.stage_points):
            self.die({"kind": "stage", "k": len(self.stage_points), "desc": desc})


_CTX: _Ctx | None = None
_ORIG: dict = {}


async def _wire_wrapper(**kw):
    handler = await _ORIG["wire"](**kw)
    ctx = _CTX
    if ctx is not None:
        ctx.handler = handler
        if ctx.gates.active:
            event = _ParkEvent(ctx)
            handler.builder.wake_job_loop = event
            handler.builder.hash_queue.wake = event
    return handler


async def _aexit_wrapper(self, exc_type, exc, tb):
    ctx = _CTX
    if ctx is None or exc is not None:
        return await _ORIG["aexit"](self, exc_type, exc, tb)
    if ctx.in_harness_txn:
        ctx.in_harness_txn = False
        return await _ORIG["aexit"](self, exc_type, exc, tb)
    site = sys._getframe(1).f_code.co_qualname
    held = self._held
    # Rows changed since the previous commit point (temp tables included): a cheap indication of
    # whether this transaction wrote anything at all.
    changes = -1 if held is None else held.con.total_changes
    wrote = changes != ctx.last_changes
    ctx.last_changes = changes
    ctx.commit_points.append([site, wrote])
    k = len(ctx.commit_points)
    crash = ctx.crash
    hit = False
    if crash and crash.get("kind") == "commit":
        if "site" in crash:
            nth = sum(1 for s, _ in ctx.commit_points if s == crash["site"])
            hit = site == crash["site"] and nth == crash.get("nth", 1)
        else:
            hit = crash.get("k") == k
    if hit and crash.get("when", "after") == "before":
        ctx.die({"kind": "commit", "k": k, "when": "before", "site": site, "wrote": wrote})
    result = await _ORIG["aexit"](self, exc_type, exc, tb)
    if hit:
        ctx.die({"kind": "commit", "k": k, "when": "after", "site": site, "wrote": wrote})
    return result


async def _record_change_wrapper(self, change, path, **kw):
    """Swallow the harness barrier files of ``WatchSession.sync`` and signal their arrival."""
    ctx = _CTX
    name = os.path.basename(str(path))
    if ctx is not None and name.startswith(BARRIER_PREFIX):
        event = ctx.barrier_events.get(f"{change.name}:{name}")
        if event is not None:
            event.set()
        return None
    return await _ORIG["record_change"](self, change, path, **kw)


def install() -> None:
    """Install the four run-time patches (idempotent)."""
    if _ORIG:
        return
    _ORIG["launch"] = _executor.launch_command
    _ORIG["wire"] = _director._wire_director
    _ORIG["aexit"] = DBSession.__aexit__
    _ORIG["record_change"] = _watcher.Watcher.record_change
    _executor.launch_command = _sim_launch
    _director._wire_director = _wire_wrapper
    DBSession.__aexit__ = _aexit_wrapper
    _watcher.Watcher.record_change = _record_change_wrapper


def uninstall() -> None:
    """Restore the patched attributes."""
    if not _ORIG:
        return
    _executor.launch_command = _ORIG.pop("launch")
    _director._wire_director = _ORIG.pop("wire")
    DBSession.__aexit__ = _ORIG.pop("aexit")
    _watcher.Watcher.record_change = _ORIG.pop("record_change")
    _ORIG.clear()


@contextlib.asynccontextmanager
async def _harness_txn(ctx: _Ctx, db: DBSession):
    """A read-only transaction of the harness itself: not counted as a commit point
    (the ``__aexit__`` wrapper resets the flag)."""
    async with db:
        ctx.in_harness_txn = True
        yield


# ---------------------------------------------------------------------------------------------
# Interpreter of simulated steps
# ---------------------------------------------------------------------------------------------


class _Abort(Exception):
    def __init__(self, rc: int, stderr: str = ""):
        super().__init__(stderr)
        self.rc = rc
        self.stderr = stderr


def _subst(obj, mapping: dict):
    if isinstance(obj, str):
        for key, value in mapping.items():
            obj = obj.replace("{" + key + "}", value)
        return obj
    if isinstance(obj, list):
        return [_subst(x, mapping) for x in obj]
    if isinstance(obj, dict):
        return {k: _subst(v, mapping) for k, v in obj.items()}
    return obj


def _norm(path: str) -> str:
    """Root-relative normalised path, trailing slash preserved (what api.translate yields when
    the caller's working directory is the project root)."""
    trailing = path.endswith("/") and path != "/"
    out = os.path.normpath(path)
    return out + "/" if trailing else out


def _script_of(command: str, shell: bool, cwd: str) -> str | None:
    if shell:
        return None
    try:
        parts = shlex.split(command)
    except ValueError:
        return None
    if not parts or not parts[0].endswith(".py") or "/" not in parts[0]:
        return None
    return os.path.normpath(os.path.join(str(cwd), parts[0]))


class _Sim:
    """One run of one simulated command."""

    def __init__(self, ctx: _Ctx, command: str, shell: bool, env: dict, cwd: str, run):
        self.ctx = ctx
        self.command = command
        self.shell = shell
        self.env = env
        self.cwd = str(cwd)
        self.run = run
        self.job_i = run.job_i
        self.label = run.step.label
        self.acc: list = []          # everything read so far: [path|$NAME, content]
        self.holding = 0
        self.amended = {"inp": set(), "env": set(), "out": set(), "vol": set()}
        self.stdout: list = []
        self.rec = {
            "i": len(ctx.commands), "label": self.label, "job_i": self.job_i,
            "start": ctx.tick(), "stop": None, "rc": None, "resources": {}, "reads": [],
            "writes": [], "rpc": [], "env_reads": [], "stderr": "",
        }
        ctx.commands.append(self.rec)

    # primitives ------------------------------------------------------------------------------
    async def rpc(self, name: str, *args, catch: bool = False):
        ctx = self.ctx
        ctx.rpc_inflight += 1
        try:
            task = asyncio.ensure_future(_call_procedure(ctx.handler, RPCCall(name, args, {})))
            try:
                result = await asyncio.wait_for(asyncio.shield(task), DEFAULT_TIMEOUT)
            except asyncio.TimeoutError:
                raise E3Error(f"RPC {name} of {self.label!r} did not return") from None
        except E3Error:
            raise
        except asyncio.CancelledError:
            raise
        except Exception as exc:  # noqa: BLE001
            self.rec["rpc"].append([name, False, ctx.tick()])
            text = f"{type(exc).__name__}: {exc}"
            ctx.rejected.append([self.label, name, type(exc).__name__, str(exc)])
            if catch:
                return None
            raise _Abort(1, text) from None
        finally:
            ctx.rpc_inflight -= 1
        self.rec["rpc"].append([name, True, ctx.tick()])
        return result

    def read(self, path: str, *, required: bool = False, fold: bool = True) -> str | None:
        content = _read_text(path)
        self.rec["reads"].append([path, _digest(content), self.ctx.tick()])
        if fold:
            self.acc.append([path, content])
        if content is None and required:
            raise _Abort(1, f"cannot read {path}: No such file or directory")
        return content

    def derived(self, path: str) -> str:
        """Default content of a written file: a function of the SET of (name, content) pairs read
        so far, not of their order or multiplicity.  A step that is redefined with an amended
        input promoted to a declared input reads that file twice under ``auto``; a real
        deterministic command does not change its output for that, and StepUp rightly skips it
        (same input digest)."""
        acc = sorted({json.dumps(x, sort_keys=True) for x in self.acc})
        blob = json.dumps(acc)
        return f"{self.label}|{path}|{hashlib.sha256(blob.encode()).hexdigest()[:16]}\n"

    def write(self, path: str, content: str, parts: int = 1):
        for part in range(1, parts + 1):
            self.ctx.stage_point(f"{self.label}:write {path} {part}/{parts}")
            chunk = content if part == parts else content[: max(1, len(content) * part // parts)]
            try:
                write_file(path, chunk)
            except OSError as exc:
                raise _Abort(1, f"cannot write {path}: {exc.strerror}") from None
        self.rec["writes"].append([path, _digest(content), self.ctx.tick()])

    # actions ---------------------------------------------------------------------------------
    async def do_actions(self, actions: list):
        for action in actions:
            await self.do(action)

    async def do(self, a: dict):
        op = a["op"]
        catch = bool(a.get("catch", False))
        if op == "static":
            await self.op_static(a, catch)
        elif op == "glob":
            await self.op_glob(a, catch)
        elif op in ("step", "run", "plan"):
            await self.op_step(a, catch)
        elif op == "amend":
            await self.op_amend(a, catch)
        elif op == "hold":
            await self.rpc("hold_dispatch", self.job_i, catch=catch)
            self.holding += 1
        elif op == "release":
            await self.rpc("release_dispatch", self.job_i, catch=catch)
            self.holding -= 1
        elif op == "read":
            for p in a["paths"]:
                self.read(_norm(p), required=bool(a.get("required", False)))
        elif op == "getenv":
            value = self.env.get(a["name"])
            self.rec["env_reads"].append([a["name"], value])
            self.acc.append(["$" + a["name"], value])
        elif op == "write":
            path = _norm(a["path"])
            content = a["content"] if "content" in a else self.derived(path)
            self.write(path, content, int(a.get("parts", 1)))
        elif op == "remove":
            self.ctx.stage_point(f"{self.label}:remove {a['path']}")
            with contextlib.suppress(FileNotFoundError):
                os.remove(_norm(a["path"]))
        elif op == "auto":
            await self.op_auto(a)
        elif op == "stage":
            self.ctx.stage_point(f"{self.label}:{a.get('name', 'stage')}")
        elif op == "gate":
            await self.ctx.gates.wait(a["name"])
        elif op == "print":
            self.stdout.append(a["text"])
        elif op == "exit":
            raise _Abort(int(a.get("rc", 1)), a.get("stderr", ""))
        elif op == "if_exists":
            branch = a.get("then", []) if os.path.exists(_norm(a["path"])) else a.get("else", [])
            await self.do_actions(branch)
        elif op == "graph":
            await self.rpc("write_graph", a["prefix"], catch=catch)
        else:
            raise E3Error(f"unknown action op {op!r} in {self.label!r}")

    async def op_static(self, a: dict, catch: bool):
        """What ``api.static(*paths)`` does on the client side, then ``declare_static``."""
        lit, pattern_matches, match_paths = [], [], []
        for arg in a.get("paths", []):
            arg = str(arg)
            if has_any_wildcards(arg):
                if has_trailing_recursive_wildcard(arg):
                    raise _Abort(1, f"PathError: trailing recursive wildcard: {arg}")
                ng = NamedGlob(arg)
                ng.glob()
                files = [str(p) for p in ng.files()]
                pattern_matches.append((arg, files))
                match_paths.extend(files)
            else:
                lit.append(arg)
        lit_files, lit_dirs = [], []
        for p in lit:
            if not os.path.exists(p):
                if a.get("missing_ok"):
                    continue
                raise _Abort(1, f"PathError: Path does not exist: {p}")
            (lit_dirs if os.path.isdir(p) else lit_files).append(p)
        m_files = [p for p in match_paths if not os.path.isdir(p)]
        m_dirs = [p for p in match_paths if os.path.isdir(p)]
        trees = sorted({os.path.normpath(p) for p in lit_dirs + m_dirs})
        files = sorted({os.path.normpath(p) for p in lit_files + m_files})
        patterns = [(_norm(pat), sorted(_norm(m) for m in ms)) for pat, ms in pattern_matches]
        # Raw mode: hand the lists to the director as given (to build malformed declarations).
        if "raw" in a:
            trees, files, patterns = a["raw"]
            patterns = [(p, list(m)) for p, m in patterns]
        if len(trees) + len(files) + len(patterns) > 0:
            await self.rpc("declare_static", self.job_i, trees, files, patterns, catch=catch)
        if "foreach" in a:
            for m in files:
                await self.do_actions(_subst(a["foreach"], _match_vars(m)))

    async def op_glob(self, a: dict, catch: bool):
        """What ``api.glob(pattern, **subs)`` does, then ``register_glob``."""
        pattern, subs = a["pattern"], dict(a.get("subs", {}))
        ng = NamedGlob(pattern, subs)
        ng.glob()
        paths = [_norm(str(p)) for p in ng.files()]
        await self.rpc("register_glob", self.job_i, _norm(pattern), subs, paths, catch=catch)
        if a.get("static"):
            # static(glob(...)): the matches are declared without registering the pattern again.
            files = sorted(os.path.normpath(p) for p in paths if not os.path.isdir(p))
            trees = sorted(os.path.normpath(p) for p in paths if os.path.isdir(p))
            if files or trees:
                await self.rpc("declare_static", self.job_i, trees, files, [], catch=catch)
        if "foreach" in a:
            for m in paths:
                if not m.endswith("/"):
                    await self.do_actions(_subst(a["foreach"], _match_vars(m)))

    async def op_step(self, a: dict, catch: bool):
        """``api.step`` (op "step"), ``api.run`` ("run": executable added to inp, ``optional``)
        or ``api.plan`` ("plan": need=PLAN), reduced to the ``define_step`` call they make."""
        op = a["op"]
        label = a["label"]
        workdir = _norm(a.get("workdir", "."))
        inp = [_norm(p) for p in a.get("inp", [])]
        shell = bool(a.get("shell", False))
        if op in ("run", "plan"):
            word = label.split()[0] if label.split() else ""
            if "/" in word and not word.startswith("/") and not shell:
                inp = [os.path.normpath(os.path.join(workdir, word)), *inp]
        if op == "plan":
            need = Need.PLAN
        elif a.get("optional"):
            need = Need.OPTIONAL
        else:
            need = Need[a.get("need", "DEFAULT")]
        await self.rpc(
            "define_step", self.job_i, label, inp, list(a.get("env", [])),
            [_norm(p) for p in a.get("out", [])], [_norm(p) for p in a.get("vol", [])],
            workdir, need.value, dict(a.get("resources", {})), shell,
            a.get("env_overrides"), a.get("duration"), catch=catch,
        )

    async def op_amend(self, a: dict, catch: bool):
        """``api.amend``: history filter, hold guard, ``amend_step``, InputNotFoundError."""
        inp = {_norm(p) for p in a.get("inp", [])}
        env = set(a.get("env", []))
        out = {_norm(p) for p in a.get("out", [])}
        vol = {_norm(p) for p in a.get("vol", [])}
        if not (inp or env or out or vol):
            return
        if self.holding > 0 and inp:
            raise _Abort(1, "AmendWhileHoldingError")
        if not a.get("no_history"):
            inp -= self.amended["inp"]
            env -= self.amended["env"]
            out -= self.amended["out"]
            vol -= self.amended["vol"]
        if not (inp or env or out or vol):
            return
        carry_on = await self.rpc("amend_step", self.job_i, inp, sorted(env), out, vol, catch=catch)
        if carry_on is False:
            if a.get("on_defer") == "continue":
                return
            raise _Abort(1, "InputNotFoundError: Dynamic inputs are not available yet.")
        missing = sorted(p for p in inp if not os.path.exists(p))
        if missing and not a.get("on_defer") == "continue":
            raise _Abort(1, f"PathError: Path does not exist: {missing[0]}")
        self.amended["inp"] |= inp
        self.amended["env"] |= env
        self.amended["out"] |= out
        self.amended["vol"] |= vol

    async def op_auto(self, a: dict):
        """Default behaviour: read every declared input, write every declared output."""
        info = await self.rpc("get_step_info", self.job_i)
        skip = _script_of(self.command, self.shell, self.cwd)
        for p in info.inp:
            if str(p) != skip:
                self.read(str(p), required=True)
        for p in list(info.out) + list(info.vol):
            self.write(str(p), self.derived(str(p)), int(a.get("parts", 1)))

    # driver ----------------------------------------------------------------------------------
    async def execute(self) -> ChildOutcome:
        ctx = self.ctx
        rc, stderr = 0, ""
        ctx.running += 1
        ctx.max_running = max(ctx.max_running, ctx.running)
        try:
            async with _harness_txn(ctx, ctx.handler.db):
                self.rec["resources"] = dict(self.run.step.resources())
            await ctx.gates.wait("start:" + self.label, implicit="start")
            script = _script_of(self.command, self.shell, self.cwd)
            if script is not None:
                text = self.read(script, fold=False)
                actions = None if text is None else parse_script(text)
                if text is None:
                    raise _Abort(127, f"{script}: No such file or directory")
                if actions is None:
                    raise _Abort(126, f"{script}: not a simulated script")
            else:
                actions = ctx.program.get("commands", {}).get(self.label)
                if actions is None:
                    actions = ctx.program.get("commands", {}).get(self.command)
                if actions is None:
                    actions = [{"op": "auto"}]
            await self.do_actions(actions)
            await ctx.gates.wait("end:" + self.label, implicit="end")
        except _Abort as abort:
            rc, stderr = abort.rc, abort.stderr
            with contextlib.suppress(Exception):
                await ctx.gates.wait("end:" + self.label, implicit="end")
        finally:
            ctx.running -= 1
            self.rec["stop"] = ctx.tick()
            self.rec["rc"] = rc
            self.rec["stderr"] = stderr
        return ChildOutcome(rc, "".join(self.stdout), stderr)


def _match_vars(path: str) -> dict:
    base = os.path.basename(path.rstrip("/"))
    stem = base.rsplit(".", 1)[0] if "." in base else base
    return {"m": path, "base": base, "stem": stem, "dir": os.path.dirname(path) or "."}


async def _sim_launch(command, *, shell, env, cwd, mp_ctx, run):
    ctx = _CTX
    if ctx is None or ctx.handler is None:
        raise E3Error("launch_command called outside an E3 build")
    sim = _Sim(ctx, command, shell, env, cwd, run)
    try:
        return await sim.execute()
    except asyncio.CancelledError:
        raise
    except Exception as exc:  # noqa: BLE001  (a bug of the harness, reported loudly by build())
        ctx.harness_errors.append(
            f"{sim.label}: {type(exc).__name__}: {exc}\n{traceback.format_exc()}")
        return ChildOutcome(1, "", f"E3 harness error: {exc}")


# ---------------------------------------------------------------------------------------------
# One build
# ---------------------------------------------------------------------------------------------


class _LogCapture(logging.Handler):
    def __init__(self):
        super().__init__(level=logging.WARNING)
        self.records: list = []

    def emit(self, record):
        try:
            msg = record.getMessage()
        except Exception:  # noqa: BLE001
            msg = str(record.msg)
        self.records.append(f"{record.levelname} {record.name}: {msg}")


@contextlib.contextmanager
def _patched_env(env: dict | None):
    saved = {}
    try:
        for name, value in (env or {}).items():
            saved[name] = os.environ.get(name)
            if value is None:
                os.environ.pop(name, None)
            else:
                os.environ[name] = value
        yield
    finally:
        for name, value in saved.items():
            if value is None:
                os.environ.pop(name, None)
            else:
                os.environ[name] = value


@contextlib.contextmanager
def _capture_logs():
    cap = _LogCapture()
    loggers = [logging.getLogger("stepup"), logging.getLogger("asyncio")]
    saved = [(lg.propagate, lg.level) for lg in loggers]
    for lg in loggers:
        lg.addHandler(cap)
        lg.propagate = False
    try:
        yield cap
    finally:
        for lg, (prop, _level) in zip(loggers, saved, strict=True):
            lg.removeHandler(cap)
            lg.propagate = prop


def _serve_config(njob, targets, resources, clean, keep_going, explain, watch, defer_cap):
    """Targets ending in "/" are directory targets (what ``tui._normalize_targets`` does)."""
    tfiles, tdirs = [], []
    for target in targets or ():
        target = str(target)
        if target.endswith("/"):
            tdirs.append(Path(os.path.normpath(target)) / "")
        else:
            tfiles.append(Path(os.path.normpath(target)))
    return ServeConfig(
        njob=njob, use_duration=False, do_clean=clean, keep_going=keep_going,
        explain_rerun=explain, do_watch=watch, available_resources=resources,
        targets=tfiles, target_dirs=tdirs, defer_cap=defer_cap,
    )


def _collect(ctx: _Ctx, res: BuildResult, graph_text: str | None, first_event: int = 0,
             first_cmd: int = 0):
    res.events = ctx.events[first_event:]
    res.commands = ctx.commands[first_cmd:]
    res.rejected = list(ctx.rejected)
    res.commit_points = list(ctx.commit_points)
    res.stage_points = list(ctx.stage_points)
    res.schedule_trace = list(ctx.schedule_trace)
    res.max_running = ctx.max_running
    if graph_text is not None:
        res.graph = canon_graph(graph_text)
    res.files, res.file_meta, res.dirs = snapshot_tree(".")


async def _abuild(ctx: _Ctx, config: ServeConfig, timeout: float, probe) -> BuildResult:
    res = BuildResult()
    os.makedirs(".stepup", exist_ok=True)
    reporter = ReporterClient(_RecReporter(ctx))
    graph_text = None
    me = asyncio.current_task()
    with DBSession.open(GRAPH_DB) as db:
        try:
            serve_coro = serve(config, director_socket_path=Path(".stepup/sock"),
                               reporter=reporter, db=db, handle_signals=False)
            try:
                sres = await asyncio.wait_for(serve_coro, timeout)
                res.returncode = int(sres.returncode.value)
            except asyncio.TimeoutError:
                diag = {
                    "waiting_gates": sorted(ctx.gates.waiting),
                    "running": [c["label"] for c in ctx.commands if c["stop"] is None],
                    "events_tail": ctx.events[-8:],
                }
                raise E3Timeout(f"build did not finish in {timeout} s", diag) from None
            except E3Error:
                raise
            except Exception as exc:  # noqa: BLE001  serve() itself failed: an observable
                res.error = f"{type(exc).__name__}: {exc}"
                res.returncode = -1
            with contextlib.suppress(Exception):
                await asyncio.wait_for(reporter.close(), 5)
        finally:
            # Nothing may outlive the build: release gates, then cancel and await stragglers
            # (a task that still holds the database would trip the assertion in DBSession.open).
            ctx.gates.release_all()
            leaked = [t for t in asyncio.all_tasks() if t is not me and not t.done()]
            res.leaked_tasks = sorted(t.get_name() for t in leaked)
            for t in leaked:
                t.cancel()
            if leaked:
                with contextlib.suppress(Exception):
                    await asyncio.wait_for(asyncio.gather(*leaked, return_exceptions=True), 10)
            if db._held is not None:
                res.error = (res.error or "") + " | database still held after serve()"
                db._held = None
        if ctx.handler is not None:
            try:
                async with _harness_txn(ctx, db):
                    graph_text = ctx.handler.workflow.format_str()
                    if probe is not None:
                        res.probe = probe(ctx.handler, db)
            except Exception as exc:  # noqa: BLE001
                res.error = (res.error or "") + f" | graph dump failed: {exc!r}"
    _collect(ctx, res, graph_text)
    return res


def build(project_dir: str, program: dict | None = None, *, njob: int = 1, targets=(),
          resources: str | None = None, clean: bool = True, keep_going: bool = False,
          schedule: dict | None = None, env: dict | None = None, explain: bool = False,
          defer_cap: int = 100, timeout: float = DEFAULT_TIMEOUT, probe: Callable | None = None,
          crash: dict | None = None, _crash_fd: int | None = None) -> BuildResult:
    """Run one complete non-watch ``stepup build`` equivalent in ``project_dir`` in-process.

    program    ``{"commands": {label: [actions]}}`` (scripts are read from disk); may be None.
    schedule   None: commands finish as soon as they have run.  Otherwise a dict:
               ``{"seed": n}`` release order drawn from ``random.Random(n)``;
               ``{"order": [gate names]}`` explicit priorities (then ``policy``);
               ``{"policy": "fifo"|"lifo"|"sorted"}``; ``"points": ["start","end"]`` selects the
               implicit gates (default ``["end"]``); explicit ``gate`` actions always take part.
    env        name -> value|None applied to os.environ for the duration of the build.
    crash      only meaningful in a child process (see ``build_forked``).
    probe      ``probe(handler, db) -> JSON-able`` evaluated in a read transaction after serve().
    """
    global _CTX
    if _CTX is not None:
        raise E3Error("another E3 build is running in this process")
    install()
    ctx = _Ctx(program or {}, schedule, crash, _crash_fd)
    config = _serve_config(njob, targets, resources, clean, keep_going, explain, False, defer_cap)
    t0 = time.perf_counter()
    _CTX = ctx
    try:
        with contextlib.chdir(project_dir), _patched_env(env), _capture_logs() as cap:
            res = asyncio.run(_abuild(ctx, config, timeout, probe))
            res.log = cap.records
    finally:
        _CTX = None
    res.wall = time.perf_counter() - t0
    if ctx.harness_errors:
        raise E3Error("harness error inside a simulated command:\n" + "\n".join(ctx.harness_errors))
    return res


def from_scratch(project: Project, **kw) -> BuildResult:
    """Build ``project`` in a fresh temporary directory (no ``.stepup``)."""
    with tempfile.TemporaryDirectory(prefix="e3-") as tmp:
        project.materialise(tmp)
        kw.setdefault("env", project.env)
        return build(tmp, project.program, **kw)


# ---------------------------------------------------------------------------------------------
# Histories
# ---------------------------------------------------------------------------------------------


def run_history(project: Project, history: list, *, mode: str = "restart", root: str | None = None,
                **kw) -> list:
    """Build ``project``, then for every phase of ``history`` apply its edits and build again.

    history   ``[{"edits": [edit, ...], "build": {build kwargs}}, ...]``
    mode      "restart": each phase is a new director on the same directory;
              "watch": one watching director, edits are made while it watches, the watcher is
              synchronised (``WatchSession.sync``) and a rebuild is requested.
    Returns one BuildResult per build (``len(history) + 1``).  ``project`` is not modified.
    """
    project = project.clone()
    with contextlib.ExitStack() as stack:
        if root is None:
            root = stack.enter_context(tempfile.TemporaryDirectory(prefix="e3-"))
        project.materialise(root)
        results = []
        if mode == "restart":
            results.append(build(root, project.program, env=dict(project.env), **kw))
            for phase in history:
                for edit in phase.get("edits", []):
                    apply_edit(project, root, edit)
                bkw = {**kw, **phase.get("build", {})}
                results.append(build(root, project.program, env=dict(project.env), **bkw))
        elif mode == "watch":
            with WatchSession(root, project.program, env=dict(project.env), **kw) as ws:
                results.append(ws.first())
                for phase in history:
                    for edit in phase.get("edits", []):
                        if edit["op"] == "setenv":
                            raise E3Error("setenv cannot be replayed in watch mode")
                        apply_edit(project, root, edit)
                    ws.program = project.program
                    ws.sync()
                    results.append(ws.rebuild())
        else:
            raise E3Error(f"unknown mode {mode!r}")
        return results


def final_project(project: Project, history: list) -> Project:
    """The description after all edits of ``history`` (no file system involved)."""
    project = project.clone()
    for phase in history:
        for edit in phase.get("edits", []):
            apply_edit(project, None, edit)
    return project


def scratch_of_history(project: Project, history: list, **kw) -> BuildResult:
    """From-scratch build of the final state of a history."""
    return from_scratch(final_project(project, history), **kw)


# ---------------------------------------------------------------------------------------------
# Comparison
# ---------------------------------------------------------------------------------------------

RC_BITS = {1: "INTERNAL", 2: "INTERRUPTED", 4: "FAILED", 8: "WARNING", 16: "PENDING", 32: "DRAINED"}


def rc_class(rc: int) -> str:
    """Return-code class: "ok" (0 or WARNING only), "error" (serve raised), else the sorted
    names of the set bits without WARNING."""
    if rc < 0:
        return "error"
    names = [n for bit, n in RC_BITS.items() if rc & bit and n != "WARNING"]
    return "+".join(names) if names else "ok"


def diff_results(a: BuildResult, b: BuildResult, *, digests: bool = False,
                 ignore_files=(), fields=("rc", "files", "dirs", "graph", "rejected")) -> list:
    """Structured differences ``[{"field", "key", "a", "b"}]`` between two results.

    Compared: return-code class, file contents, directory set, canonical graph per node
    (digest lines only when ``digests=True``), rejected-declaration texts (as a sorted multiset).
    Masked as benign: mtimes/inodes, wall time, commit/stage counts, event order, log, stamps.
    """
    out = []
    if "rc" in fields and rc_class(a.returncode) != rc_class(b.returncode):
        out.append({"field": "rc", "key": "", "a": a.returncode, "b": b.returncode})
    if "rc" in fields and (a.error is None) != (b.error is None):
        out.append({"field": "error", "key": "", "a": a.error, "b": b.error})
    if "files" in fields:
        for p in sorted(set(a.files) | set(b.files)):
            if p in ignore_files:
                continue
            if a.files.get(p) != b.files.get(p):
                out.append({"field": "file", "key": p, "a": a.files.get(p), "b": b.files.get(p)})
    if "dirs" in fields and a.dirs != b.dirs:
        out.append({"field": "dirs", "key": "", "a": sorted(set(a.dirs) - set(b.dirs)),
                    "b": sorted(set(b.dirs) - set(a.dirs))})
    if "graph" in fields:
        ga = parse_graph(canon_graph(a.graph, digests=digests))
        gb = parse_graph(canon_graph(b.graph, digests=digests))
        for key in sorted(set(ga) | set(gb)):
            if ga.get(key) != gb.get(key):
                out.append({"field": "graph", "key": key, "a": ga.get(key), "b": gb.get(key)})
    if "rejected" in fields:
        ra = sorted(map(tuple, a.rejected))
        rb = sorted(map(tuple, b.rejected))
        if ra != rb:
            out.append({"field": "rejected", "key": "", "a": ra, "b": rb})
    return out


# ---------------------------------------------------------------------------------------------
# Crash emulation / isolation: a build in a forked child
# ---------------------------------------------------------------------------------------------


@dataclasses.dataclass
class ForkOutcome:
    crashed: bool
    """True when the child ended through the emulated crash (``os._exit(137)``)."""
    exit_status: int
    crash_info: dict | None
    """``{"kind": "commit", "k", "when", "site", "wrote"}`` or ``{"kind": "stage", "k", "desc"}``."""
    result: BuildResult | None
    """The complete result when the child was not crashed."""
    error: str | None = None


def build_forked(project_dir: str, program: dict | None = None, *, crash: dict | None = None,
                 timeout: float = DEFAULT_TIMEOUT, **kw) -> ForkOutcome:
    """Run ``build`` in a forked child process; optionally kill it at a crash point.

    crash   ``{"kind": "commit", "k": k, "when": "before"|"after"}``: ``os._exit`` at the k-th
            committing transaction of the code under test (1-based; harness transactions do not
            count), before the commit (the transaction is lost) or right after it;
            ``{"kind": "commit", "site": "Builder.finalize", "nth": 1, "when": ...}`` addresses
            the nth commit made from the function with that ``__qualname__`` instead;
            ``{"kind": "stage", "k": k}``: at the k-th file-system stage of simulated commands
            (before the k-th write/remove/stage action takes effect).
    Enumerate with a full run first: ``len(res.commit_points)``, ``len(res.stage_points)``.
    If k exceeds the number of points the child completes and ``crashed`` is False.
    """
    rfd, wfd = os.pipe()
    sys.stdout.flush()
    sys.stderr.flush()
    pid = os.fork()
    if pid == 0:
        status = 3
        try:
            os.close(rfd)
            try:
                res = build(project_dir, program, crash=crash, _crash_fd=wfd, timeout=timeout, **kw)
                payload = {"result": res.to_json()}
            except BaseException as exc:  # noqa: BLE001
                payload = {"error": f"{type(exc).__name__}: {exc}\n{traceback.format_exc()}"}
            data = (json.dumps(payload) + "\n").encode()
            while data:
                n = os.write(wfd, data)
                data = data[n:]
            status = 0
        finally:
            os._exit(status)
    os.close(wfd)
    chunks, deadline = [], time.monotonic() + timeout + 10
    try:
        while True:
            left = deadline - time.monotonic()
            if left <= 0:
                os.kill(pid, 9)
                os.waitpid(pid, 0)
                raise E3Timeout(f"forked build exceeded {timeout} s", {})
            ready, _, _ = select.select([rfd], [], [], min(left, 1.0))
            if ready:
                data = os.read(rfd, 1 << 16)
                if not data:
                    break
                chunks.append(data)
    finally:
        os.close(rfd)
    _, wstatus = os.waitpid(pid, 0)
    code = os.waitstatus_to_exitcode(wstatus)
    return _fork_outcome(code, b"".join(chunks))


def _fork_outcome(code: int, data: bytes) -> ForkOutcome:
    crash_info = result = error = None
    for line in data.decode().splitlines():
        if not line.strip():
            continue
        obj = json.loads(line)
        if "crash" in obj:
            crash_info = obj["crash"]
        elif "result" in obj:
            result = BuildResult.from_json(obj["result"])
        elif "error" in obj:
            error = obj["error"]
    if error is not None and crash_info is None:
        raise E3Error("child build failed: " + error)
    if result is None and crash_info is None:
        raise E3Error(f"child build ended with status {code} without a result")
    return ForkOutcome(code == CRASH_EXIT and crash_info is not None, code, crash_info, result, error)


def build_subprocess(project_dir: str, program: dict | None = None, *, crash: dict | None = None,
                     timeout: float = DEFAULT_TIMEOUT, **kw) -> ForkOutcome:
    """Like ``build_forked`` but in a fresh interpreter (``python -m harness.e3_child``).
    Build kwargs must be JSON-able (no ``probe``)."""
    import subprocess

    spec = {"project_dir": str(project_dir), "program": program, "crash": crash,
            "kwargs": {**kw, "timeout": timeout}}
    env = dict(os.environ)
    here = os.path.dirname(os.path.dirname(os.path.abspath(__file__)))
    env["PYTHONPATH"] = os.pathsep.join([here, *[p for p in sys.path if p]])
    try:
        proc = subprocess.run([sys.executable, "-m", "harness.e3_child"], input=json.dumps(spec).encode(),
                              stdout=subprocess.PIPE, env=env, timeout=timeout + 30, check=False)
    except subprocess.TimeoutExpired:
        raise E3Timeout(f"child build exceeded {timeout} s", {}) from None
    return _fork_outcome(proc.returncode, proc.stdout)


# ---------------------------------------------------------------------------------------------
# Watch mode
# ---------------------------------------------------------------------------------------------


class WatchSession:
    """The real director with ``do_watch=True`` on a private event loop.

    The loop only runs inside the session's methods, so file-system operations done by the caller
    between calls are seen by the watcher in order when ``sync()`` runs the loop again.

    Usage::

        with WatchSession(root, program, njob=2) as ws:
            r0 = ws.first()                 # result of the initial build phase
            ws.write("a.txt", "new")        # real file-system operations (or apply_edit / os.*)
            ws.sync()                       # watcher has processed every event queued so far
            r1 = ws.rebuild()               # start_build_phase + wait_for_idle -> BuildResult
        # leaving the block: wait_and_shutdown, serve() returns; ws.returncode is set

    Synchronisation uses the ordering of the single inotify queue: ``sync()`` creates and removes
    a barrier file in the project root (always watched) and waits until ``Watcher.record_change``
    has been called for its deletion; everything queued earlier has been handled by then.
    For paths the workflow cares about ``wait_update`` / ``wait_delete`` call the director's own
    ``wait_for_update`` / ``wait_for_delete`` handlers.
    The process cwd is the project directory while the session is open.
    """

    def __init__(self, project_dir: str, program: dict | None = None, *, njob: int = 1,
                 resources: str | None = None, clean: bool = True, keep_going: bool = False,
                 schedule: dict | None = None, env: dict | None = None, explain: bool = False,
                 defer_cap: int = 100, timeout: float = DEFAULT_TIMEOUT, targets=()):
        self.project_dir = str(project_dir)
        self.timeout = timeout
        self._ctx = _Ctx(program or {}, schedule, None, None)
        self._config = _serve_config(njob, targets, resources, clean, keep_going, explain, True,
                                     defer_cap)
        self._env = env
        self._stack = contextlib.ExitStack()
        self._loop: asyncio.AbstractEventLoop | None = None
        self._serve_task = None
        self._db_cm = None
        self._nbarrier = 0
        self._mark_event = 0
        self._mark_cmd = 0
        self.returncode: int | None = None
        self.error: str | None = None
        self.log: list = []

    @property
    def program(self):
        return self._ctx.program

    @program.setter
    def program(self, value):
        self._ctx.program = value or {}

    @property
    def handler(self):
        return self._ctx.handler

    def _run(self, coro, what: str):
        async def guarded():
            try:
                return await asyncio.wait_for(coro, self.timeout)
            except asyncio.TimeoutError:
                raise E3Timeout(f"watch session: {what} did not finish in {self.timeout} s",
                                self._diag()) from None
        return self._loop.run_until_complete(guarded())

    def _diag(self) -> dict:
        """State of the director for a timeout report."""
        ctx = self._ctx
        diag = {"waiting_gates": sorted(ctx.gates.waiting), "events_tail": ctx.events[-8:],
                "nevents": len(ctx.events), "session_error": self.error}
        with contextlib.suppress(Exception):
            task = self._serve_task
            diag["serve"] = ("no task" if task is None else "running" if not task.done()
                             else "cancelled" if task.cancelled() else repr(task.exception() or "returned"))
            h = ctx.handler
            if h is not None:
                w = h.watcher
                diag["stop_event"] = h.stop_event.is_set()
                diag["draining"] = h.scheduler.draining
                diag["builder"] = {"resume": h.builder.resume.is_set(),
                                   "running": [t.get_name() for t in h.builder.running_tasks],
                                   "returncode": int(h.builder.returncode.value)}
                diag["watcher"] = {"start": w.start_watching.is_set(), "busy": w.busy_watching.is_set(),
                                   "end": w.end_watching.is_set(), "done": w.done_watching.is_set(),
                                   "updated": sorted(map(str, w.updated)), "deleted": sorted(map(str, w.deleted))}
                diag["db_held"] = None if h.db._held is None else h.db._held.task.get_name()
            diag["tasks"] = sorted(t.get_name() for t in asyncio.all_tasks(self._loop) if not t.done())[:30]
            diag["log_tail"] = self._cap.records[-5:]
        return diag

    def __enter__(self) -> "WatchSession":
        global _CTX
        if _CTX is not None:
            raise E3Error("another E3 build is running in this process")
        install()
        _CTX = self._ctx
        try:
            self._stack.enter_context(contextlib.chdir(self.project_dir))
            self._stack.enter_context(_patched_env(self._env))
            self._cap = self._stack.enter_context(_capture_logs())
            self._loop = asyncio.new_event_loop()
            os.makedirs(".stepup", exist_ok=True)
            self._db = self._stack.enter_context(DBSession.open(GRAPH_DB))
            self._reporter = ReporterClient(_RecReporter(self._ctx))

            async def start():
                self._serve_task = asyncio.ensure_future(serve(
                    self._config, director_socket_path=Path(".stepup/sock"),
                    reporter=self._reporter, db=self._db, handle_signals=False))
                while self._ctx.handler is None and not self._serve_task.done():
                    await asyncio.sleep(0)
                if self._serve_task.done():
                    self._serve_task.result()
                await self._idle()
            self._run(start(), "initial build phase")
        except BaseException:
            self._teardown()
            raise
        return self

    async def _idle(self):
        """``wait_for_idle`` of the director, or the end of serve() if that comes first."""
        idle = asyncio.ensure_future(self._ctx.handler.wait_for_idle())
        done, _ = await asyncio.wait({idle, self._serve_task}, return_when=asyncio.FIRST_COMPLETED)
        if self._serve_task in done and not idle.done():
            idle.cancel()
        with contextlib.suppress(asyncio.CancelledError):
            await idle
        await self._check_alive()

    async def _check_alive(self):
        """``wait_for_idle`` also returns when the director's stop event fires.  Nobody asked the
        director to stop, so that means serve() is ending on its own (an exception in one of its
        loops, or an early return): wait for it and remember why, instead of handing out a phase
        result that looks idle and letting the next ``sync()`` run into its timeout."""
        handler = self._ctx.handler
        if not (self._serve_task.done() or handler.stop_event.is_set()):
            return
        with contextlib.suppress(BaseException):
            await asyncio.wait_for(asyncio.shield(self._serve_task), 30)
        if not self._serve_task.done():
            self.error = "serve() is stopping (stop event set) but did not return within 30 s"
        elif self._serve_task.cancelled():
            self.error = "serve() was cancelled"
        elif self._serve_task.exception() is not None:
            exc = self._serve_task.exception()
            self.error = f"{type(exc).__name__}: {exc}"
            cause = exc.__cause__
            while cause is not None:
                self.error += f" <- {type(cause).__name__}: {cause}"
                cause = cause.__cause__
        else:
            self.returncode = int(self._serve_task.result().returncode.value)
            self.error = f"serve() returned on its own with return code {self.returncode}"

    async def _graph(self) -> str:
        async with _harness_txn(self._ctx, self._db):
            return self._ctx.handler.workflow.format_str()

    def _phase_result(self) -> BuildResult:
        ctx = self._ctx
        res = BuildResult()
        res.returncode = int(ctx.handler.builder.returncode.value)
        if self.error is not None:
            # The director died during this phase: an observable, reported like build() does.
            res.error, res.returncode = self.error, -1
        graph_text = self._run(self._graph(), "graph dump")
        _collect(ctx, res, graph_text, self._mark_event, self._mark_cmd)
        self._mark_event, self._mark_cmd = len(ctx.events), len(ctx.commands)
        ctx.rejected.clear()
        ctx.schedule_trace.clear()
        res.log = list(self._cap.records)
        self._cap.records.clear()
        return res

    # public API ------------------------------------------------------------------------------
    def first(self) -> BuildResult:
        """Result of the initial build phase (call once, right after entering)."""
        return self._phase_result()

    def sync(self) -> None:
        """Return when the watcher has handled every file-system event queued so far."""
        if self.error is not None or self._serve_task.done():
            raise E3Error(f"the watching director is no longer running: {self.error}")
        self._nbarrier += 1
        name = f"{BARRIER_PREFIX}{self._nbarrier}"
        event = asyncio.Event()
        self._ctx.barrier_events[f"DELETED:{name}"] = event
        with open(name, "w"):
            pass
        os.remove(name)
        self._run(event.wait(), "watcher barrier")
        self._ctx.barrier_events.clear()

    def wait_update(self, path: str) -> None:
        """The director's own ``wait_for_update(path)`` (hangs until timeout if irrelevant)."""
        self._run(self._ctx.handler.wait_for_update(path), f"wait_for_update({path})")

    def wait_delete(self, path: str) -> None:
        self._run(self._ctx.handler.wait_for_delete(path), f"wait_for_delete({path})")

    def observed(self) -> dict:
        """The watcher's current ``updated`` / ``deleted`` sets."""
        w = self._ctx.handler.watcher
        return {"updated": sorted(map(str, w.updated)), "deleted": sorted(map(str, w.deleted))}

    def rebuild(self) -> BuildResult:
        """``start_build_phase`` (what ``stepup rebuild`` calls) then ``wait_for_idle``."""
        if self.error is not None or self._serve_task.done():
            raise E3Error(f"the watching director is no longer running: {self.error}")

        async def go():
            await self._ctx.handler.start_build_phase()
            await self._idle()
        self._run(go(), "rebuild")
        return self._phase_result()

    def write(self, path: str, content: str):
        os.makedirs(os.path.dirname(path) or ".", exist_ok=True)
        write_file(path, content)

    def delete(self, path: str):
        if os.path.isdir(path) and not os.path.islink(path):
            shutil.rmtree(path)
        else:
            os.remove(path)

    def mkdir(self, path: str):
        os.makedirs(path, exist_ok=True)

    def move(self, src: str, dst: str):
        os.rename(src, dst)

    def snapshot_to(self, dest: str) -> None:
        """Copy the whole project directory including ``.stepup`` (no transaction is in flight
        between session calls, so database + WAL are consistent) for a restart elsewhere."""
        shutil.copytree(".", dest, symlinks=True, dirs_exist_ok=True,
                        ignore=shutil.ignore_patterns("sock", BARRIER_PREFIX + "*"))

    def close(self) -> None:
        if self._loop is None:
            return
        try:
            if self._serve_task is not None and not self._serve_task.done():
                async def stop():
                    await self._ctx.handler.wait_and_shutdown()
                    return await self._serve_task
                sres = self._run(stop(), "shutdown")
                self.returncode = int(sres.returncode.value)
            elif self._serve_task is not None:
                try:
                    self.returncode = int(self._serve_task.result().returncode.value)
                except Exception as exc:  # noqa: BLE001
                    self.error = self.error or f"{type(exc).__name__}: {exc}"
            with contextlib.suppress(Exception):
                self._run(self._reporter.close(), "reporter close")
        finally:
            self._teardown()

    def _teardown(self):
        global _CTX
        loop = self._loop
        self._loop = None
        try:
            if loop is not None:
                self._ctx.gates.release_all()
                pending = [t for t in asyncio.all_tasks(loop) if not t.done()]
                for t in pending:
                    t.cancel()
                if pending:
                    with contextlib.suppress(Exception):
                        loop.run_until_complete(
                            asyncio.wait_for(asyncio.gather(*pending, return_exceptions=True), 10))
                with contextlib.suppress(Exception):
                    loop.run_until_complete(loop.shutdown_asyncgens())
                loop.close()
            db = getattr(self, "_db", None)
            if db is not None and db._held is not None:
                db._held = None
            self.log = list(getattr(self, "_cap", _LogCapture()).records)
        finally:
            try:
                self._stack.close()
            finally:
                _CTX = None
        if self._ctx.harness_errors:
            raise E3Error("harness error inside a simulated command:\n"
                          + "\n".join(self._ctx.harness_errors))

    def __exit__(self, exc_type, exc, tb):
        if exc_type is None:
            self.close()
        else:
            with contextlib.suppress(Exception):
                self._teardown()
        return False


# ---------------------------------------------------------------------------------------------
# Process pool
# ---------------------------------------------------------------------------------------------


def _pool_worker(args):
    fn, item = args
    return fn(item)


def pool_map(fn: Callable, items: list, nproc: int = 4) -> list:
    """``[fn(item) for item in items]`` sharded over ``nproc`` forked worker processes.

    ``fn`` must be a module-level function; every item must carry its own seed so that the
    result does not depend on the sharding.  Results come back in item order.
    """
    if nproc <= 1 or len(items) <= 1:
        return [fn(item) for item in items]
    import multiprocessing

    mp = multiprocessing.get_context("fork")
    with mp.Pool(min(nproc, len(items))) as pool:
        return pool.map(_pool_worker, [(fn, item) for item in items], chunksize=1)


if __name__ == "__main__":
    from harness import e3_selftest

    sys.exit(e3_selftest.main(sys.argv[1:]))
