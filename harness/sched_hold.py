"""Directed family for C10: hold / release / detach / reattach of a step whose subtree is two or more levels deep
(RECURSIVE_CHECK_WITH_PRODUCTS must reach every step below it, not only its direct products).

./plan.py (RUNNING) defines q (planner); q runs, defines g1 and g2 (and, `deep`, a planner r that defines h) and
succeeds.  One tick caches _safe = 1 for all of them and hands out g1.  Then the event under test on ./plan.py or q:
    hold      ./plan.py opens a hold: nothing below it may be dispatched (a step without stored hash)
    release   ... and releases it again: everything below is dispatchable again
    fail      q is marked FAILED afterwards?  no: ./plan.py FAILS -> its products are detached
The real Workflow + Scheduler are driven; the judgement is generic (harness/sched_model.View): after every
pop_next_job every cached attribute equals its definition and the choice is eligible by definition / None only
when nothing is."""
from __future__ import annotations

VARIANTS = [("hold", False), ("hold", True), ("hold-release", False), ("hold-release", True), ("fail", True),
            ("recycle-deep", True)]


async def hold_deep_case(variant) -> dict:
    from stepup.core.enums import HashUpdateCause
    from stepup.core.step import Step
    from . import sched_model as M
    from .sched_common import _fh, _step_hash
    from .wfutil import WF
    how, deep = variant
    obs = {"variant": list(variant), "problems": [], "trace": []}

    async with WF(targets=frozenset(), target_dirs=frozenset(), defer_cap=3) as w:
        wf, sched, db = w.wf, w.sched, w.db

        async def tick(tag):
            job = await sched.pop_next_job()
            snap = await M._snap(w)
            v = M.View(snap)
            obs["trace"].append((tag, job.step.label if job else None))
            for col, k, cached, spec in v.cached_vs_spec():
                obs["problems"].append((f"hold-deep:cached-{col}", f"{tag}: step {M.label_of(snap, k)!r} has {col} = {cached} after "
                                        f"the metadata updates, its definition gives {spec}", snap))
            if job is None:
                elig = v.eligible_set()
                if elig:
                    obs["problems"].append(("hold-deep:eligible-step-left", f"{tag}: pop_next_job returned None although "
                                            f"{[M.label_of(snap, k) for k in elig]} are eligible by definition", snap))
            return job

        async def run_to_success(job, program=None):
            step = job.step
            async with db:
                step.reset_for_rerun()
            if program:
                async with db:
                    program(step)
            async with db:
                outs = {str(r.path): _fh(str(r.path), 1) for r in step.out_paths()}
                wf.update_file_hashes(outs, cause=HashUpdateCause.SUCCEEDED)
                step.mark_completed(_step_hash(step.label, 1), False)

        if how == "recycle-deep":
            await recycle_deep(w, tick, run_to_success, obs)
            return obs
        async with db:
            wf.define_step(w.plan, "q")
        job = await tick("q is dispatched")

        def q_program(step):
            wf.define_step(step, "g1", out_paths=["g1.txt"])
            wf.define_step(step, "g2", out_paths=["g2.txt"])
            if deep:
                wf.define_step(step, "r")
        await run_to_success(job, q_program)
        if deep:
            # r (a planner below q) defines h: three levels below ./plan.py
            while True:
                job = await tick("before the event")
                if job is None or job.step.label == "r":
                    break
                await run_to_success(job)
            if job is not None:
                await run_to_success(job, lambda step: wf.define_step(step, "h", out_paths=["h.txt"]))
        first = await tick("first leaf is dispatched")       # caches _safe = 1 for everything below ./plan.py
        if how in ("hold", "hold-release"):
            async with db:
                w.plan.hold()
            obs["trace"].append(("event", "./plan.py hold"))
            nxt = await tick("while ./plan.py holds")
            if nxt is not None:
                await run_to_success(nxt)
            if how == "hold-release":
                async with db:
                    w.plan.release()
                obs["trace"].append(("event", "./plan.py release"))
                for _ in range(6):
                    nxt = await tick("after the release")
                    if nxt is None:
                        break
                    await run_to_success(nxt)
        else:
            async with db:
                w.plan.mark_completed(None, False)      # ./plan.py fails: q and everything below is detached
            obs["trace"].append(("event", "./plan.py failed"))
            nxt = await tick("after ./plan.py failed")
            if nxt is not None:
                await run_to_success(nxt)
        if first is not None:
            await run_to_success(first)
        await tick("end")
    return obs


async def recycle_deep(w, tick, run_to_success, obs):
    """./plan.py defines c (DEFAULT, input h.txt) and q; q defines r; r defines h (OPTIONAL, output h.txt): h is needed
    through c.  Everything is built.  ./plan.py runs again: its products are detached; it defines c again, now
    OPTIONAL (nothing needs c any more); a tick propagates c's new need -- h is detached and skipped --; then it defines
    q again (full recycle): q, r and h are re-attached and every step of the subtree must be flagged, h (two levels
    below q) included, or its cached _implied_need stays DEFAULT."""
    from stepup.core.enums import Need
    wf, db = w.wf, w.db
    async with db:
        wf.define_step(w.plan, "c", inp_paths=["h.txt"], out_paths=["c.txt"])
        wf.define_step(w.plan, "q")
    programs = {"q": lambda st: wf.define_step(st, "r"),
                "r": lambda st: wf.define_step(st, "h", out_paths=["h.txt"], need=Need.OPTIONAL)}
    for _ in range(8):
        job = await tick("first build")
        if job is None:
            break
        await run_to_success(job, programs.get(job.step.label))
    async with db:
        w.plan.reset_for_rerun()
    async with db:
        wf.define_step(w.plan, "c", inp_paths=["h.txt"], out_paths=["c.txt"], need=Need.OPTIONAL)
    obs["trace"].append(("event", "./plan.py reruns: c redefined OPTIONAL"))
    job = await tick("between the two definitions")
    if job is not None:
        await run_to_success(job)
    async with db:
        wf.define_step(w.plan, "q")
    obs["trace"].append(("event", "q redefined (full recycle)"))
    for _ in range(6):
        job = await tick("after the recycle")
        if job is None:
            break
        await run_to_success(job, programs.get(job.step.label))


def run_hold_deep_family(variants, fail, count=None):
    from .sched_common import run
    for v in variants:
        obs = run(hold_deep_case(v), timeout=120)
        if count is not None:
            count(v, obs)
        for sig, detail, snap in obs["problems"]:
            fail(sig, "hold-deep", f"variant {v}: {detail}; events so far: {obs['trace']}",
                 {"family": "hold-deep", "variant": list(v), "trace": obs["trace"], "snapshot": snap})
