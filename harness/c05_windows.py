"""C05: crash windows beyond "k-th commit of a forked non-watch build" (engine: harness/e3.py).

* ``site_kind``: the transaction KIND of a crash point (startup / dispatch / job / rpc / hash-job /
  report / cleanup-revert / cleanup-delete / cleanup-removal / build-completed / watch-phase),
  used for the coverage distribution the check prints into its evidence;
* removal points: a kill before the n-th file-system removal of ``finalize.remove_deletable_files``
  (not a transaction and not a stage of a simulated command, hence no point of E3);
* watch points: a kill at the k-th committing transaction of a WATCHING director, counted from the
  end of its first build phase: the transactions of the watcher (``Watcher.*``: file changes
  recorded while idle), of ``start_build_phase`` and of the rebuild.

Nothing of harness/e3.py is edited: the removal hook patches ``stepup.core.finalize._try_remove``
in the parent right before ``e3.build_forked`` forks (the child inherits it) and restores it; the
watch child is forked here and drives an ``e3.WatchSession``.
"""
from __future__ import annotations

import contextlib
import json
import os
import select
import sys
import time
import traceback

from harness import e3

KINDS = ["startup-schema", "startup", "dispatch", "job", "rpc", "hash-job", "report", "cleanup-revert", "cleanup-delete",
         "cleanup-removal", "build-completed", "watch-phase", "stage"]

STARTUP_SITES = {"Trellis.initialize", "Scheduler.initialize", "serve", "reset_interrupted_steps",
                 "rescan_env_vars", "rescan_files", "rescan_nglobs"}
REPORT_SITES = {"report_unbuilt", "_report_pending_steps", "_report_glob_violations", "_report_missing_targets"}


def site_kind(info: dict, in_startup: bool = False) -> str:
    """The kind of transaction (or window) a crash point belongs to."""
    if info.get("watch"):
        return "watch-phase"
    if info["kind"] == "stage":
        return "stage"
    if info["kind"] == "removal":
        return "cleanup-removal"
    if info["kind"] == "schema-stmt":
        return "startup-schema"
    site = info.get("site", "")
    if in_startup or site in STARTUP_SITES:
        return "startup"
    if site == "Scheduler.pop_next_job":
        return "dispatch"
    if site == "Executor._run_hash_job":
        return "hash-job"
    if site.startswith("Executor."):
        return "job"
    if site.startswith("DirectorHandler.") or site.startswith("Watcher."):
        return "rpc" if site.startswith("DirectorHandler.") else "watch-phase"
    if site in REPORT_SITES:
        return "report"
    if site in ("revert_optional_steps", "_revert_optional_steps"):
        return "cleanup-revert"
    if site in ("Builder.finalize", "cleanup"):
        return "cleanup-delete"
    if site == "Scheduler.build_completed":
        return "build-completed"
    return "other:" + site


# -- removal points --------------------------------------------------------------------------------


@contextlib.contextmanager
def count_removals(counter: list):
    """Count the calls of ``finalize._try_remove`` (files and directories) of an in-process build."""
    import stepup.core.finalize as fin
    orig = fin._try_remove

    def counting(remove):
        counter.append(getattr(getattr(remove, "__self__", None), "__str__", lambda: "?")())
        return orig(remove)

    fin._try_remove = counting
    try:
        yield
    finally:
        fin._try_remove = orig


@contextlib.contextmanager
def removal_crash(k: int):
    """Inside: a build forked by ``e3.build_forked`` dies right before its k-th removal."""
    import stepup.core.finalize as fin
    orig = fin._try_remove
    state = {"n": 0}

    def dying(remove):
        state["n"] += 1
        if state["n"] == k and e3._CTX is not None:
            e3._CTX.die({"kind": "removal", "k": k, "when": "before", "site": "remove_deletable_files",
                         "wrote": True, "path": str(getattr(remove, "__self__", "?"))})
        return orig(remove)

    fin._try_remove = dying
    try:
        yield
    finally:
        fin._try_remove = orig


def build_forked_removal(tmp: str, program: dict, k: int, **kw) -> e3.ForkOutcome:
    with removal_crash(k):
        return e3.build_forked(tmp, program, crash=None, **kw)


# -- statements of DBSession.apply_schema (autocommit mode: each one is committed on its own) ----------


class _StmtProxy:
    """The connection `DBSession._autocommit_con` yields, with every statement counted; a script of
    `executescript` is split into its statements (sqlite3.complete_statement), which is what
    autocommit mode makes of it: each one committed on its own."""

    def __init__(self, con, hook):
        self._con = con
        self._hook = hook

    def __getattr__(self, name):
        return getattr(self._con, name)

    def execute(self, sql, *args):
        self._hook(sql)
        return self._con.execute(sql, *args)

    def executescript(self, script):
        import sqlite3
        buf = ""
        for line in script.splitlines(keepends=True):
            buf += line
            if sqlite3.complete_statement(buf):
                if buf.strip().rstrip(";").strip():
                    self._hook(buf)
                    self._con.executescript(buf)
                buf = ""
        if buf.strip():
            self._hook(buf)
            self._con.executescript(buf)


@contextlib.contextmanager
def _autocommit_hook(hook):
    from stepup.core.sqlite3 import DBSession
    orig = DBSession._autocommit_con

    @contextlib.asynccontextmanager
    async def patched(self):
        async with orig(self) as con:
            yield _StmtProxy(con, hook)

    DBSession._autocommit_con = patched
    try:
        yield
    finally:
        DBSession._autocommit_con = orig


def count_schema_stmts(counter: list):
    """Inside: the autocommitted statements of an in-process build are appended to ``counter``."""
    return _autocommit_hook(lambda sql: counter.append(" ".join(sql.split())[:60]))


def build_forked_schema(tmp: str, program: dict, k: int, **kw) -> e3.ForkOutcome:
    """A forked build that dies right before its k-th autocommitted statement."""
    state = {"n": 0}

    def hook(sql):
        state["n"] += 1
        if state["n"] == k and e3._CTX is not None:
            e3._CTX.die({"kind": "schema-stmt", "k": k, "when": "before", "site": "DBSession.apply_schema",
                         "wrote": True, "stmt": " ".join(sql.split())[:60]})

    with _autocommit_hook(hook):
        return e3.build_forked(tmp, program, crash=None, **kw)


# -- watch points ------------------------------------------------------------------------------------


def _watch_child(root: str, project: e3.Project, edits: list, crash: dict | None, wfd: int, kw: dict) -> dict:
    """Runs in the forked child: first build phase, then the edits on the live file system, the
    watcher barrier and a rebuild; with ``crash`` the director dies at that commit, counted from the
    end of the first phase."""
    with e3.WatchSession(root, project.program, env=dict(project.env), **kw) as ws:
        ws.first()
        ctx = ws._ctx
        base = len(ctx.commit_points)
        if crash is not None:
            ctx.crash_fd = wfd
            ctx.crash = {"kind": "commit", "k": base + crash["k"], "when": crash["when"]}
        for edit in edits:
            e3.apply_edit(project, root, edit)
        ws.program = project.program
        ws.sync()
        res = ws.rebuild()
        points = [list(p) for p in ctx.commit_points[base:]]
    return {"points": points, "rc": res.returncode, "error": res.error}


def watch_forked(root: str, project_json: dict, edits: list, crash: dict | None, timeout: float = 90,
                 **kw) -> dict:
    """Fork a child that runs ``_watch_child``.  Returns ``{"crashed", "info", "points", "error"}``;
    ``info`` = ``{"kind": "commit", "k": k (relative), "when", "site", "wrote", "watch": True}``."""
    rfd, wfd = os.pipe()
    sys.stdout.flush()
    sys.stderr.flush()
    pid = os.fork()
    if pid == 0:
        status = 3
        try:
            os.close(rfd)
            try:
                project = e3.Project.from_json(project_json)
                payload = {"result": _watch_child(root, project, edits, crash, wfd, kw)}
            except BaseException as exc:  # noqa: BLE001
                payload = {"error": f"{type(exc).__name__}: {exc}\n{traceback.format_exc()[-1500:]}"}
            data = (json.dumps(payload) + "\n").encode()
            while data:
                n = os.write(wfd, data)
                data = data[n:]
            status = 0
        finally:
            os._exit(status)
    os.close(wfd)
    chunks, deadline = [], time.monotonic() + timeout + 30
    try:
        while True:
            left = deadline - time.monotonic()
            if left <= 0:
                os.kill(pid, 9)
                break
            ready, _, _ = select.select([rfd], [], [], min(left, 1.0))
            if ready:
                data = os.read(rfd, 1 << 16)
                if not data:
                    break
                chunks.append(data)
    finally:
        os.close(rfd)
    _, wstatus = os.waitpid(pid, 0)
    code = os.waitstatus_to_exitcode(wstatus)
    out = {"crashed": False, "info": None, "points": None, "error": None}
    for line in b"".join(chunks).decode().splitlines():
        if not line.strip():
            continue
        obj = json.loads(line)
        if "crash" in obj:
            out["info"] = obj["crash"]
        elif "result" in obj:
            out["points"] = obj["result"]["points"]
            out["error"] = obj["result"]["error"]
        elif "error" in obj:
            out["error"] = obj["error"]
    if code == e3.CRASH_EXIT and out["info"] is not None:
        out["crashed"] = True
        out["info"] = dict(out["info"], watch=True)
        if crash is not None:
            out["info"]["k"] = crash["k"]
    elif out["points"] is None and out["error"] is None:
        out["error"] = f"watch child ended with status {code} without a result"
    return out
