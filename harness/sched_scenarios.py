"""Directed transactions for the projection correspondence of C10 (shared with C11).

Random histories rarely reach the recycle branch of `Trellis.create`, `Step.after_recycle` on a step that
is still holding, the take-over of an output from a detached step that has a stored hash, or
`delete_detached` with survivors.  This module drives the REAL Workflow + Scheduler through scripted
sequences that do, and records every transaction in the event format of harness/sched_common.py
(``{"op", "args", "before", "after", ...}``), so that harness/p_c10.py projects them like the
transactions of the random histories.

Each scenario is a list of actions on a small recorder; `VARIANTS` enumerates them; `random_variant`
mutates the scripts (order of re-declarations, which outputs are kept / dropped / moved) for the search.
"""
from __future__ import annotations

from stepup.core.enums import HashUpdateCause, Need, StepState
from stepup.core.hash import FileHash
from stepup.core.step import Step

from .sched_common import _fh, _step_hash, snapshot
from .wfutil import WF


class Recorder:
    """Runs scripted transactions on the real code and records them."""

    def __init__(self, w: WF):
        self.w = w
        self.events: list[dict] = []
        self.salt = 0

    def _salt(self):
        self.salt += 1
        return self.salt

    async def snap(self):
        w = self.w
        adapter = type("S", (), {"db": w.db, "wf": w.wf, "sched": w.sched})()
        async with w.db:
            return snapshot(adapter)

    async def tx(self, op: str, args: dict, fn, extra=None):
        ev = {"op": op, "args": args, "before": await self.snap()}
        try:
            async with self.w.db:
                out = fn()
            if out:
                ev.update(out)
        except Exception as exc:  # noqa: BLE001 - a rejected request is rolled back
            ev["rejected"] = f"{type(exc).__name__}: {exc}"
        ev["after"] = await self.snap()
        if extra:
            ev.update(extra)
        self.events.append(ev)
        return ev

    async def step(self, label: str) -> Step:
        async with self.w.db:
            return self.w.wf.find(Step, label)

    # -- the transactions of the director / executor, as in harness/sched_common.py
    async def static(self, creator: str, paths):
        s = await self.step(creator)

        def fn():
            self.w.confirm_static(s, paths)

        return await self.tx("static", {"step": s.i, "paths": sorted(paths)}, fn)

    async def define(self, creator: str, label: str, inp=(), out=(), vol=(), need=Need.DEFAULT, resources=None,
                     duration=None):
        c = await self.step(creator)
        wf = self.w.wf
        args = {"creator": c.i, "label": label, "inp": sorted(inp), "out": sorted(out), "vol": sorted(vol),
                "need": need.value, "resources": resources, "duration": duration}

        def fn():
            old, detached = wf.find_and_detached(Step, label)
            recycle = "new"
            if old is not None and detached:
                full = old.can_recycle(inp_paths=args["inp"], env_deps=[], out_paths=args["out"], vol_paths=args["vol"])
                recycle = "full" if full else "partial"
            wf.define_step(c, label, inp_paths=args["inp"], out_paths=args["out"], vol_paths=args["vol"], need=need,
                           resources=resources, duration=duration)
            return {"node": wf.find(Step, label).i, "recycle": recycle}

        return await self.tx("define", args, fn)

    async def amend(self, label: str, inp=(), out=(), vol=()):
        s = await self.step(label)

        def fn():
            self.w.wf.amend_step(s, inp_paths=sorted(inp), out_paths=sorted(out), vol_paths=sorted(vol),
                                 ran_concurrently=self.w.sched.ran_concurrently)

        return await self.tx("amend", {"step": s.i, "inp": sorted(inp), "out": sorted(out), "vol": sorted(vol)}, fn)

    async def start(self, label: str):
        s = await self.step(label)
        return await self.tx("start", {"step": s.i}, s.reset_for_rerun)

    async def hold(self, label: str):
        s = await self.step(label)
        return await self.tx("hold", {"step": s.i}, s.hold)

    async def end(self, label: str, success=True, wants_defer=False):
        s = await self.step(label)
        args = {"step": s.i, "kind": "success" if success else ("defer" if wants_defer else "fail"),
                "cause": (HashUpdateCause.SUCCEEDED if success else HashUpdateCause.FAILED).value,
                "out_hashes": {}, "wants_defer": wants_defer, "stored_hash": success}

        def fn():
            hashes = {}
            if success:
                for rec in sorted(s.out_paths(), key=lambda r: r.path):
                    if rec.state.name in ("PLANNED", "OUTDATED"):
                        hashes[str(rec.path)] = _fh(str(rec.path), self._salt())
            args["out_hashes"] = {p: not fh.is_unknown for p, fh in hashes.items()}
            self.w.wf.update_file_hashes(hashes, cause=HashUpdateCause.SUCCEEDED if success else HashUpdateCause.FAILED)
            s.mark_completed(_step_hash(label, self._salt()) if success else None, wants_defer)

        return await self.tx("end", args, fn)

    async def set_running(self, label: str):
        """The state change of a dispatch (OpDispatch), without going through the scheduler's choice."""
        s = await self.step(label)
        async with self.w.db:
            has_hash = s.get_hash() is not None
        state = StepState.CHECKING if has_hash else StepState.RUNNING
        ev = {"op": "tick", "args": {}, "before": None, "after_meta": await self.snap(), "choice": s.i}
        async with self.w.db:
            s.set_state(state)
        ev["after"] = await self.snap()
        ev["new_state"] = state.value
        self.events.append(ev)

    async def external(self, path: str, known=True):
        def fn():
            fh = _fh(path, self._salt()) if known else FileHash.unknown()
            self.w.wf.update_file_hashes({path: fh}, cause=HashUpdateCause.EXTERNAL)

        return await self.tx("external", {"path": path, "known": known}, fn)

    async def delete_detached(self):
        def fn():
            self.w.wf.delete_detached()
            self.w.wf.to_be_deleted.clear()

        return await self.tx("delete_detached", {}, fn)


async def _first_build(r: Recorder, p_vol=True):
    """plan declares a.txt, b.txt; P (inp a.txt) -> f.txt [+ volatile v.txt]; Q (inp f.txt) -> g.txt;
    both run and succeed (stored hashes); the plan succeeds."""
    await r.static("./plan.py", ["a.txt", "b.txt"])
    await r.define("./plan.py", "P", inp=["a.txt"], out=["f.txt"], vol=["v.txt"] if p_vol else [])
    await r.define("./plan.py", "Q", inp=["f.txt"], out=["g.txt"])
    for label in ("P", "Q"):
        await r.set_running(label)
        await r.start(label)
        await r.end(label)
    await r.end("./plan.py")


async def _rerun_plan(r: Recorder):
    """plan.py was edited: the plan step is made pending, dispatched (hash mismatch emulated by
    reset_for_rerun, which detaches P and Q with their products)."""
    await r.external("plan.py")
    await r.set_running("./plan.py")
    plan = await r.step("./plan.py")
    await r.tx("skip", {"step": plan.i, "ok": False, "out_hashes": []},
               lambda: (plan.reset_for_rerun(), plan.delete_hash(), plan.set_state(StepState.PENDING)) and None)
    await r.set_running("./plan.py")
    await r.start("./plan.py")


async def scenario(variant: tuple) -> list[dict]:
    """One scripted sequence; returns the recorded events."""
    name, script = variant
    async with WF() as w:
        r = Recorder(w)
        # WF leaves the plan RUNNING; make the dump of the boot transaction the first `before`
        await _first_build(r, p_vol="novol" not in name)
        await _rerun_plan(r)
        for act in script:
            kind = act[0]
            if kind == "define":
                _, creator, label, kw = act
                kw = dict(kw)
                if "need" in kw:
                    kw["need"] = Need(kw["need"])
                await r.define(creator, label, **kw)
            elif kind == "static":
                await r.static(act[1], act[2])
            elif kind == "amend":
                await r.amend(act[1], **act[2])
            elif kind == "run":
                await r.set_running(act[1])
                await r.start(act[1])
            elif kind == "hold":
                await r.hold(act[1])
            elif kind == "end":
                await r.end(act[1], **(act[2] if len(act) > 2 else {}))
            elif kind == "delete_detached":
                await r.delete_detached()
            elif kind == "rerun_plan":
                await _rerun_plan(r)
            else:
                raise AssertionError(kind)
        return r.events


DEFAULT = Need.DEFAULT.value
OPTIONAL = Need.OPTIONAL.value

VARIANTS = [
    # the output f.txt of the detached P (stored hash) is taken over by a new step: after_lost_product(P)
    ("takeover-output-from-detached-step-with-hash",
     [("define", "./plan.py", "P2", {"inp": ["b.txt"], "out": ["f.txt"]}),
      ("define", "./plan.py", "Q", {"inp": ["f.txt"], "out": ["g.txt"]}),            # full recycle of Q
      ("end", "./plan.py"), ("delete_detached",)]),
    # partial recycle of P with other inputs: its old sinks f.txt / v.txt stay as edges, are re-declared
    ("partial-recycle-keeps-old-sinks",
     [("define", "./plan.py", "P", {"inp": ["b.txt"], "out": ["f.txt"]}),              # v.txt no longer declared
      ("define", "./plan.py", "Q", {"inp": ["f.txt"], "out": ["g.txt"]}),
      ("end", "./plan.py"), ("delete_detached",)]),
    # partial recycle that turns the volatile output into a regular one and the regular one into a volatile one
    ("partial-recycle-swaps-volatile-and-regular",
     [("define", "./plan.py", "P", {"inp": ["a.txt"], "out": ["v.txt"], "vol": ["f.txt"]}),
      ("end", "./plan.py"), ("delete_detached",)]),
    # the former output becomes a static file of the plan, the former static an output
    ("static-takes-over-output-and-output-takes-over-static",
     [("static", "./plan.py", ["f.txt"]),
      ("define", "./plan.py", "P3", {"inp": ["b.txt"], "out": ["a.txt"], "need": OPTIONAL}),
      ("define", "./plan.py", "Q", {"inp": ["f.txt"], "out": ["g.txt"]}),            # full recycle, input now static
      ("end", "./plan.py"), ("delete_detached",)]),
    # full recycle of a step that is detached while RUNNING and holding
    ("full-recycle-of-a-holding-step",
     [("define", "./plan.py", "P", {"inp": ["a.txt"], "out": ["f.txt"], "vol": ["v.txt"]}),   # full recycle
      ("define", "./plan.py", "Q", {"inp": ["f.txt"], "out": ["g.txt"]}),
      ("run", "P"), ("hold", "P"),
      ("define", "P", "R", {"inp": ["b.txt"], "out": ["r.txt"]}),
      ("rerun_plan",),                                                               # detaches P (RUNNING, holding) and R
      ("define", "./plan.py", "P", {"inp": ["a.txt"], "out": ["f.txt"], "vol": ["v.txt"], "need": OPTIONAL,
                                    "duration": 3.0, "resources": {"r1": 1}}),       # full recycle resets _holding
      ("end", "P", {"success": False}),
      ("end", "./plan.py"), ("delete_detached",)]),
    # a step amends the output of a detached step (kept as it is), then the plan drops both
    ("amend-input-owned-by-detached-step-then-delete",
     [("define", "./plan.py", "C", {"inp": ["b.txt"], "out": ["c.txt"]}),
      ("run", "C"), ("amend", "C", {"inp": ["f.txt", "new.txt"], "out": ["c2.txt"], "vol": ["cv.txt"]}),
      ("end", "C", {"success": False, "wants_defer": True}),
      ("end", "./plan.py"), ("delete_detached",)]),
    ("novol:redeclare-output-as-volatile-of-other-step",
     [("define", "./plan.py", "V", {"inp": ["b.txt"], "vol": ["g.txt"]}),
      ("define", "./plan.py", "P", {"inp": ["a.txt"], "out": ["f.txt"]}),
      ("end", "./plan.py"), ("delete_detached",)]),
]


def random_variant(rng) -> tuple:
    """A shuffled / thinned member of the family (for the search)."""
    name, script = rng.choice(VARIANTS)
    script = list(script)
    head = [a for a in script if a[0] == "define"]
    rest = [a for a in script if a[0] != "define"]
    rng.shuffle(head)
    if head and rng.random() < 0.4:
        head.pop(rng.randrange(len(head)))
    return (name + ":shuffled", head + rest)
